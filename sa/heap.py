"""E3 - alias and effect analysis (may-alias, may-write), interprocedural through summaries.

Abstract locations (strings):
    P:<param>                    the object bound to a parameter at entry
    <loc>.<field>                the object stored in attribute <field> of <loc>      (one field level)
    <loc>.*                      any element / value / sub-object reachable from <loc> (dict values, list items ...)
    A:<function>:<line>:<col>    an object allocated at that site (constructor, numpy creator, arithmetic, copy ...)
numpy views (basic slicing, .T, reshape, ravel, squeeze, asarray ...) denote the SAME location as their base, so a
write through a view is a write to the base.  A subscript with an array/boolean/list index is a copy (fresh).  An index
of unknown kind is treated as a copy - the side that cannot raise an alarm.

Per function summary:  ret (locations the result may be), ret_fields (field -> locations, for freshly allocated
results), writes ((location, kind, key) triples on parameter-reachable locations), stores ((location, field) ->
locations written into parameter-reachable objects).
"""
from __future__ import annotations
import ast
from dataclasses import dataclass, field
from typing import Dict, FrozenSet, List, Optional, Set, Tuple

from .model import Program, FuncInfo, AnalysisError
from .flow import DepEngine, FuncWalker, FuncResult, _State, root_name, MUTATING_METHODS, MUTATING_FUNCS, _canon_ext, \
    SKIP_PREFIXES

Locs = FrozenSet[str]
NO: Locs = frozenset()
FRESH = 'FRESH'
DELEM = '<delem>'      # pseudo-field: objects stored as entries of a descriptor dict of the owner

VIEW_FUNCS = {'asarray', 'asanyarray', 'squeeze', 'reshape', 'ravel', 'transpose', 'atleast_1d', 'atleast_2d',
              'atleast_3d', 'expand_dims', 'swapaxes', 'moveaxis', 'diagonal', 'real', 'broadcast_to', 'view',
              'ascontiguousarray', 'asfortranarray', 'rollaxis', 'flip', 'flipud', 'fliplr', 'rot90', 'split',
              'array_split', 'hsplit', 'vsplit', 'nan_to_num_inplace'}
VIEW_ATTRS = {'T', 'real', 'imag', 'flat', 'mT'}
SCALAR_ATTRS = {'shape', 'ndim', 'size', 'dtype', 'nbytes', 'itemsize', 'strides'}
FRESH_METHODS = {'copy', 'astype', 'flatten', 'tolist', 'sum', 'mean', 'std', 'var', 'min', 'max', 'argmin', 'argmax',
                 'argsort', 'cumsum', 'prod', 'round', 'clip', 'dot', 'nonzero', 'any', 'all', 'repeat', 'take',
                 'tobytes', 'conj', 'format', 'join', 'split', 'strip', 'lower', 'upper', 'replace', 'encode', 'decode',
                 'difference', 'union', 'intersection', 'issubset', 'count', 'index', 'startswith', 'endswith'}
ELEM_METHODS = {'items', 'values', 'get', 'pop', 'popitem', 'setdefault', '__getitem__', '__iter__'}
KEY_METHODS = {'keys'}
SHALLOW_COPY_FUNCS = {'copy', 'dict', 'list', 'tuple', 'set', 'sorted', 'reversed', 'frozenset'}
DEEP_FRESH_FUNCS = {'deepcopy'}
# attributes of the value classes that hold descriptor dictionaries: a subscript on them is a key look-up whatever the index
DICT_FIELDS = {'descriptors', 'rdm_descriptors', 'pattern_descriptors', 'obs_descriptors', 'channel_descriptors',
               'time_descriptors'}
FANCY_PRODUCERS = {'where', 'nonzero', 'argsort', 'flatnonzero', 'array', 'arange', 'unique', 'concatenate', 'sort',
                   'num_index', 'bool_index', 'isin', 'in1d', 'logical_and', 'logical_or', 'logical_not', 'isnan',
                   'isfinite', 'triu_indices', 'tril_indices', 'ix_', 'argwhere', 'asarray', 'ones', 'zeros', 'triu',
                   'tril', 'random', 'permutation', 'randint', 'choice', 'setdiff1d', 'intersect1d', 'union1d',
                   'searchsorted', 'lexsort', 'argpartition'}


def norm_loc(loc: str) -> str:
    """bound the access path: root [.field] [.*]"""
    if loc.startswith('A:'):
        # A:<func>:<line>:<col>[suffix]; function names contain dots, so locate the suffix after the 3rd colon field
        head, _, rest = loc.partition('|')
        if not rest:
            return loc
        root, comps = head, rest.split('.')
    else:
        parts = loc.split('.')
        # root is 'P:name' or 'G:mod.name' (globals are not field-tracked)
        if loc.startswith('G:'):
            return loc
        root, comps = parts[0], parts[1:]
        comps = [c for c in comps if c]
        return _bound(root, comps, '.')
    comps = [c for c in comps if c]
    return _bound(root, comps, '|')


def _bound(root, comps, sep):
    if not comps:
        return root
    if comps[0] == '*':
        return root + (sep if sep == '|' else '.') + '*'
    out = root + (sep if sep == '|' else '.') + comps[0]
    if len(comps) > 1:
        out += '.*'
    return out


def add_field(loc: str, f: str) -> str:
    if loc.startswith('A:'):
        return norm_loc(loc + ('.' if '|' in loc else '|') + f)
    return norm_loc(loc + '.' + f)


def add_elem(loc: str) -> str:
    return add_field(loc, '*')


def is_param_loc(loc: str) -> bool:
    return loc.startswith('P:')


def param_of(loc: str) -> str:
    return loc[2:].split('.')[0]


@dataclass
class HeapSummary:
    qname: str
    ret: Locs = NO
    ret_comps: Optional[List[Locs]] = None
    ret_fields: Dict[str, Locs] = field(default_factory=dict)
    writes: FrozenSet[Tuple[str, str, str]] = frozenset()      # (loc, kind, key)
    stores: Dict[Tuple[str, str], Locs] = field(default_factory=dict)
    write_sites: Dict[Tuple[str, str, str], Tuple[str, int, str]] = field(default_factory=dict)  # origin of each write
    alloc_class: Dict[str, str] = field(default_factory=dict)   # fresh ret: class qname (diagnostics)

    def key(self):
        return (self.ret, tuple(self.ret_comps) if self.ret_comps is not None else None,
                tuple(sorted(self.ret_fields.items())), self.writes, tuple(sorted(self.stores.items())))


def _load_overrides():
    import json
    import os
    p = os.path.join(os.path.dirname(os.path.dirname(os.path.abspath(__file__))), 'contracts', 'effects.json')
    if not os.path.exists(p):
        return {}
    with open(p) as fh:
        d = json.load(fh)
    return {x['function']: x for x in d.get('summary_overrides', []) if not x.get('keep')}


class HeapEngine:
    def __init__(self, prog: Program, dep: Optional[DepEngine] = None):
        self.prog = prog
        self.dep = dep or DepEngine(prog)
        self.summaries: Dict[str, HeapSummary] = {q: HeapSummary(q) for q in prog.functions}
        self.details: Dict[str, 'HeapWalker'] = {}
        self.rounds = 0
        self.evaluations = 0
        self.overrides = _load_overrides()
        self._solve()

    def _override(self, summ: HeapSummary) -> HeapSummary:
        o = self.overrides.get(summ.qname)
        if o:
            if 'ret' in o:
                summ.ret = frozenset(o['ret'])
                summ.ret_comps = None
        return summ

    def _solve(self):
        order = sorted(q for q in self.prog.functions if not q.startswith(SKIP_PREFIXES))
        dirty = set(order)
        callers: Dict[str, Set[str]] = {}
        for q, r in self.dep.summaries.items():
            for c in r.calls:
                for cq in c.callees:
                    callers.setdefault(cq, set()).add(q)
        rounds = 0
        while dirty:
            rounds += 1
            if rounds > 40:
                raise AnalysisError('heap summaries did not converge in 40 rounds')
            nxt: Set[str] = set()
            for q in order:
                if q not in dirty:
                    continue
                w = HeapWalker(self, self.prog.functions[q])
                w.run()
                self.evaluations += 1
                summ = self._override(w.summary())
                if summ.key() != self.summaries[q].key():
                    nxt |= callers.get(q, set())
                    nxt.add(q) if q in callers.get(q, set()) else None
                self.summaries[q] = summ
                self.details[q] = w
            dirty = nxt
        self.rounds = rounds

    def summary(self, q: str) -> HeapSummary:
        return self.summaries[self.prog.func(q).qname]

    # -- context sensitivity for constant flags: f(x, remove_mean=True) analyses f with `if remove_mean:` forced
    def forced_ifs(self, q: str, consts: Tuple[Tuple[str, object], ...]) -> Dict[int, str]:
        fi = self.prog.functions[q]
        cmap = dict(consts)
        force: Dict[int, str] = {}
        assigned = {n.id for n in ast.walk(fi.node) if isinstance(n, ast.Name) and isinstance(n.ctx, ast.Store)}
        for n in ast.walk(fi.node):
            if not isinstance(n, ast.If):
                continue
            v = _const_test(n.test, cmap, assigned)
            if v is True:
                force[id(n)] = 'body'
            elif v is False:
                force[id(n)] = 'orelse'
        return force

    def specialised(self, q: str, consts: Tuple[Tuple[str, object], ...]) -> HeapSummary:
        if not consts:
            return self.summaries[q]
        key = (q, consts)
        cache = self.__dict__.setdefault('_spec', {})
        gen = self.__dict__.setdefault('_spec_gen', {})
        # summaries of callees may still be growing: recompute when the base summary changed
        base_key = self.summaries[q].key()
        if key in cache and gen.get(key) == base_key:
            return cache[key]
        busy = self.__dict__.setdefault('_spec_busy', set())
        if key in busy or len(busy) > 6:
            return self.summaries[q]
        force = self.forced_ifs(q, consts)
        if not force:
            return self.summaries[q]
        busy.add(key)
        try:
            w = HeapWalker(self, self.prog.functions[q], force=force)
            w.run()
            cache[key] = self._override(w.summary())
            gen[key] = base_key
        finally:
            busy.discard(key)
        return cache[key]


def _const_test(t: ast.expr, cmap: Dict[str, object], assigned: Set[str]):
    """value of an if-test under known constant parameters (True / False / None = unknown)"""
    if isinstance(t, ast.Name) and t.id in cmap and t.id not in assigned:
        return bool(cmap[t.id])
    if isinstance(t, ast.UnaryOp) and isinstance(t.op, ast.Not):
        v = _const_test(t.operand, cmap, assigned)
        return None if v is None else (not v)
    if isinstance(t, ast.Compare) and len(t.ops) == 1 and isinstance(t.left, ast.Name) and t.left.id in cmap \
            and t.left.id not in assigned and isinstance(t.comparators[0], ast.Constant):
        c = t.comparators[0].value
        v = cmap[t.left.id]
        if isinstance(t.ops[0], ast.Is):
            return v is c
        if isinstance(t.ops[0], ast.IsNot):
            return v is not c
        if isinstance(t.ops[0], ast.Eq) and isinstance(v, (bool, int, str, type(None))):
            return v == c
        if isinstance(t.ops[0], ast.NotEq) and isinstance(v, (bool, int, str, type(None))):
            return v != c
    if isinstance(t, ast.BoolOp):
        vals = [_const_test(x, cmap, assigned) for x in t.values]
        if isinstance(t.op, ast.And):
            if any(v is False for v in vals):
                return False
            if all(v is True for v in vals):
                return True
        else:
            if any(v is True for v in vals):
                return True
            if all(v is False for v in vals):
                return False
    return None


class HeapWalker(FuncWalker):
    def __init__(self, heng: HeapEngine, f: FuncInfo, force: Optional[Dict[int, str]] = None):
        super().__init__(heng.dep, f, data_only=True, force=force)
        self.heng = heng
        self.writes: Dict[Tuple[str, str, str], Tuple[int, str]] = {}
        self.ret_locs: Set[str] = set()
        self.ret_comps_l: List[Optional[List[Locs]]] = []
        self.call_pts: Dict[int, Locs] = {}
        self.call_comps: Dict[int, List[Locs]] = {}
        self.alloc_class: Dict[str, str] = {}
        self.exit_heaps: List[Dict[Tuple[str, str], Locs]] = []

    # ------------------------------------------------------------------ setup
    def h_init(self, st: _State):
        for p in self.params:
            st.pts[p] = frozenset({'P:' + p})
        a = self.f.node.args
        if a.vararg:
            st.pts[a.vararg.arg] = frozenset({'P:' + a.vararg.arg, 'P:' + a.vararg.arg + '.*'})
        if a.kwarg:
            st.pts[a.kwarg.arg] = frozenset({'P:' + a.kwarg.arg})

    def fresh(self, node, label='') -> str:
        # one site per syntactic node: nodes that share a position (statements expanded by the inlining pre-pass all carry the
        # position of the call they replace) are told apart by a serial number in order of first use (deterministic)
        sites = self.__dict__.setdefault('_sites', {})
        used = self.__dict__.setdefault('_site_names', {})
        k = id(node)
        if k not in sites:
            base = 'A:%s:%d:%d' % (self.f.qname, getattr(node, 'lineno', 0), getattr(node, 'col_offset', 0))
            n = used.get(base, 0)
            used[base] = n + 1
            sites[k] = base if n == 0 else '%s~%d' % (base, n)
        return sites[k]

    # ----------------------------------------------------------- index kinds
    def idx_kind(self, idx: ast.expr, st: _State, depth=0) -> str:
        """'basic' (view), 'fancy' (copy), 'key' (container element), 'unknown'"""
        if isinstance(idx, ast.Slice):
            return 'basic'
        if isinstance(idx, ast.Attribute) and idx.attr == 'newaxis':
            return 'basic'
        if isinstance(idx, ast.Constant):
            if idx.value is None or idx.value is Ellipsis or isinstance(idx.value, (int, bool)):
                return 'basic'
            if isinstance(idx.value, str):
                return 'key'
            return 'unknown'
        if isinstance(idx, ast.UnaryOp) and isinstance(idx.op, ast.USub):
            return self.idx_kind(idx.operand, st, depth)
        if isinstance(idx, ast.UnaryOp) and isinstance(idx.op, ast.Invert):
            return 'fancy'
        if isinstance(idx, ast.Tuple):
            kinds = [self.idx_kind(e, st, depth) for e in idx.elts]
            if 'fancy' in kinds:
                return 'fancy'
            if all(k == 'basic' for k in kinds):
                return 'basic'
            return 'unknown'
        if isinstance(idx, (ast.List, ast.ListComp, ast.Compare, ast.BoolOp)):
            return 'fancy'
        if isinstance(idx, ast.BinOp):
            if isinstance(idx.op, (ast.BitAnd, ast.BitOr, ast.BitXor)):
                return 'fancy'
            l, r = self.idx_kind(idx.left, st, depth), self.idx_kind(idx.right, st, depth)
            if l == 'basic' and r == 'basic':
                return 'basic'
            if 'fancy' in (l, r):
                return 'fancy'
            return 'unknown'
        if isinstance(idx, ast.Call):
            nm = idx.func.attr if isinstance(idx.func, ast.Attribute) else (idx.func.id if isinstance(idx.func, ast.Name) else '')
            if nm in FANCY_PRODUCERS:
                return 'fancy'
            if nm in ('int', 'len'):
                return 'basic'
            if nm in ('str',):
                return 'key'
            if nm == 'slice':
                return 'basic'
            return 'unknown'
        if isinstance(idx, ast.JoinedStr):
            return 'key'
        if isinstance(idx, ast.Name) and depth < 6:
            kinds = set()
            for d in st.defs.get(idx.id, ()):
                dr = self.defrecs[d]
                if dr.kind == 'param':
                    dv = self.f.default_of(idx.id)
                    kinds.add('key' if isinstance(dv, ast.Constant) and isinstance(dv.value, str) else 'unknown')
                    continue
                if dr.kind == 'for' and isinstance(dr.node, ast.For):
                    kinds.add(self._loop_var_kind(dr.node, idx.id, st))
                elif dr.kind in ('assign',) and isinstance(dr.node, ast.Assign) and isinstance(dr.node.targets[0], ast.Name):
                    kinds.add(self._value_kind(dr.node.value, st, depth + 1))
                elif dr.kind == 'assign' and isinstance(dr.node, ast.Assign):
                    # tuple unpack from np.where(...) / np.triu_indices
                    v = dr.node.value
                    if isinstance(v, ast.Call):
                        nm = v.func.attr if isinstance(v.func, ast.Attribute) else (v.func.id if isinstance(v.func, ast.Name) else '')
                        kinds.add('fancy' if nm in FANCY_PRODUCERS else 'unknown')
                    else:
                        kinds.add('unknown')
                else:
                    kinds.add('unknown')
            if len(kinds) == 1:
                return kinds.pop()
            return 'unknown'
        return 'unknown'

    def _loop_var_kind(self, lp: ast.For, var: str, st) -> str:
        it, tgt = lp.iter, lp.target
        if isinstance(it, ast.Call) and isinstance(it.func, ast.Name):
            if it.func.id == 'range' and isinstance(tgt, ast.Name):
                return 'basic'
            if it.func.id == 'enumerate' and isinstance(tgt, ast.Tuple) and isinstance(tgt.elts[0], ast.Name) \
                    and tgt.elts[0].id == var:
                return 'basic'
        if isinstance(it, ast.Call) and isinstance(it.func, ast.Attribute) and it.func.attr in ('keys', 'items'):
            if isinstance(tgt, ast.Name) or (isinstance(tgt, ast.Tuple) and isinstance(tgt.elts[0], ast.Name)
                                             and tgt.elts[0].id == var):
                return 'key'
        if isinstance(it, ast.Call) and isinstance(it.func, ast.Attribute) and it.func.attr == 'arange':
            return 'basic'
        return 'unknown'

    def _value_kind(self, v: ast.expr, st, depth) -> str:
        """kind of an index whose value is the expression v"""
        if isinstance(v, ast.Constant):
            return self.idx_kind(v, st, depth)
        if isinstance(v, (ast.List, ast.ListComp, ast.Compare, ast.Tuple)):
            return 'fancy' if not isinstance(v, ast.Tuple) else self.idx_kind(v, st, depth)
        if isinstance(v, ast.Call):
            nm = v.func.attr if isinstance(v.func, ast.Attribute) else (v.func.id if isinstance(v.func, ast.Name) else '')
            if nm in FANCY_PRODUCERS:
                return 'fancy'
            if nm in ('int', 'len', 'argmax', 'argmin'):
                return 'basic'
            return 'unknown'
        if isinstance(v, ast.Subscript):
            # element of an index array: np.where(x)[0] is an array; arr[i] is an int - undecidable here
            inner = self._value_kind(v.value, st, depth)
            if inner == 'fancy' and isinstance(v.slice, ast.Constant) and isinstance(v.value, ast.Call):
                return 'fancy'
            return 'unknown'
        if isinstance(v, ast.BinOp):
            if isinstance(v.op, (ast.BitAnd, ast.BitOr)):
                return 'fancy'
            return 'unknown'
        if isinstance(v, ast.UnaryOp) and isinstance(v.op, ast.Invert):
            return 'fancy'
        if isinstance(v, ast.Name):
            return self.idx_kind(v, st, depth)
        return 'unknown'

    # ----------------------------------------------------------------- reads
    def pt(self, e: Optional[ast.expr], st: _State) -> Locs:
        if e is None:
            return NO
        if isinstance(e, ast.Name):
            return st.pts.get(e.id, NO)
        if isinstance(e, ast.Attribute):
            if e.attr in SCALAR_ATTRS:
                return NO
            base = self.pt(e.value, st)
            if e.attr in VIEW_ATTRS:
                return base
            out = set()
            for l in base:
                key = (l, e.attr)
                if key in st.heap:
                    out |= st.heap[key]
                    if is_param_loc(l):
                        out.add(add_field(l, e.attr))
                elif is_param_loc(l):
                    out.add(add_field(l, e.attr))
                elif (l, '<shallow>') in st.heap:
                    out |= self._field_of(l, e.attr, st)
            return frozenset(out)
        if isinstance(e, ast.Subscript):
            base = self.pt(e.value, st)
            if not base:
                return NO
            k = self.idx_kind(e.slice, st)
            if isinstance(e.value, ast.Attribute) and e.value.attr in DICT_FIELDS:
                k = 'key'
            if k == 'basic':
                return base | frozenset(add_elem(l) for l in base)
            if k == 'key':
                return frozenset(add_elem(l) for l in base)
            return NO
        if isinstance(e, ast.Call):
            return self.call_pts.get(id(e), NO)
        if isinstance(e, ast.IfExp):
            return self.pt(e.body, st) | self.pt(e.orelse, st)
        if isinstance(e, ast.BoolOp):
            out = NO
            for v in e.values:
                out |= self.pt(v, st)
            return out
        if isinstance(e, (ast.Tuple, ast.List, ast.Set)):
            # a display is a fresh container holding its items: items are reachable as elements
            return frozenset({self._display_loc(e, st)})
        if isinstance(e, ast.Dict):
            return frozenset({self._display_loc(e, st)})
        if isinstance(e, ast.Starred):
            return self.pt(e.value, st)
        if isinstance(e, ast.NamedExpr):
            return self.pt(e.value, st)
        # arithmetic, comparisons, comprehensions, constants, f-strings: fresh values
        return NO

    def _display_loc(self, e, st) -> str:
        a = self.fresh(e)
        items = []
        if isinstance(e, ast.Dict):
            items = [v for v in e.values if v is not None] + [k for k in e.keys if k is None]
        else:
            items = list(e.elts)
        inner = set()
        for i, it in enumerate(items):
            v = self.pt(it, st)
            inner |= v
            if isinstance(e, ast.Tuple) and not any(isinstance(x, ast.Starred) for x in e.elts):
                # components of a tuple display are remembered one by one: `t = (a, b); x, y = t` binds x to a and y to b
                st.heap[(a, '#%d' % i)] = v
        if isinstance(e, ast.Tuple) and not any(isinstance(x, ast.Starred) for x in e.elts):
            st.heap[(a, '#n')] = frozenset({'#%d' % len(items)})
        if inner:
            key = (a, '*')
            st.heap[key] = st.heap.get(key, NO) | frozenset(inner)
        return a

    def elems(self, locs: Locs, st: _State) -> Locs:
        out = set()
        for l in locs:
            key = (l, '*')
            if key in st.heap:
                out |= st.heap[key]
            if is_param_loc(l) or key not in st.heap:
                if is_param_loc(l):
                    out.add(add_elem(l))
        return frozenset(out)

    # ---------------------------------------------------------------- writes
    def write(self, locs: Locs, kind: str, key: str, node, origin=None):
        for l in locs:
            k = (l, kind, key)
            if k not in self.writes:
                self.writes[k] = origin or (self.f.qname, getattr(node, 'lineno', 0),
                                            ast.unparse(node)[:100] if isinstance(node, ast.AST) else '')

    def store_field(self, st: _State, base: Locs, fld: str, val: Locs, strong: bool):
        for l in base:
            key = (l, fld)
            if strong and len(base) == 1:
                st.heap[key] = val
            else:
                st.heap[key] = st.heap.get(key, NO) | val

    # ------------------------------------------------------------------ hooks
    def h_bind(self, target, rhs, st: _State, node, kind):
        val = self.pt(rhs, st) if rhs is not None else NO
        self._assign(target, val, rhs, st, node)

    def _assign(self, target, val: Locs, rhs, st: _State, node):
        if isinstance(target, ast.Name):
            st.pts[target.id] = val
        elif isinstance(target, (ast.Tuple, ast.List)):
            comps = None
            if isinstance(rhs, ast.Call) and id(rhs) in self.call_comps and len(self.call_comps[id(rhs)]) == len(target.elts):
                comps = self.call_comps[id(rhs)]
            elif isinstance(rhs, (ast.Tuple, ast.List)) and len(rhs.elts) == len(target.elts):
                comps = [self.pt(x, st) for x in rhs.elts]
            if comps is None and val and all((l, '#n') in st.heap and st.heap[(l, '#n')] == frozenset({'#%d' % len(target.elts)}) for l in val) \
                    and not any(isinstance(t, ast.Starred) for t in target.elts):
                # every value that reaches here is a tuple display of this arity: unpack component-wise
                comps = [frozenset().union(*[st.heap.get((l, '#%d' % i), NO) for l in val]) for i in range(len(target.elts))]
            for i, t in enumerate(target.elts):
                if isinstance(t, ast.Starred):
                    t = t.value
                if comps is not None:
                    self._assign(t, comps[i], None, st, node)
                else:
                    # unpacking an unknown sequence: elements of it
                    self._assign(t, self.elems(val, st) | (val if isinstance(rhs, ast.Call) and rhs is not None and not val else NO),
                                 None, st, node)
        elif isinstance(target, ast.Attribute):
            base = self.pt(target.value, st)
            self.write(base, 'field', target.attr, node)
            self.store_field(st, base, target.attr, val, strong=True)
        elif isinstance(target, ast.Subscript):
            base = self.pt(target.value, st)
            k = self.idx_kind(target.slice, st)
            key = target.slice.value if isinstance(target.slice, ast.Constant) and isinstance(target.slice.value, str) else ''
            self.write(base, 'item', key, node)
            if val:
                self.store_field(st, base, '*', val, strong=False)
                if isinstance(target.value, ast.Attribute) and target.value.attr in DICT_FIELDS:
                    # an entry of a descriptor dict of an object: recorded on the owning object(s) as well, so that the entry
                    # survives the collapse of fresh sub-containers onto their owner (see summary())
                    for owner in self.pt(target.value.value, st):
                        self.store_field(st, frozenset({owner}), DELEM, val, strong=False)
                    self.store_field(st, base, DELEM, val, strong=False)
        elif isinstance(target, ast.Starred):
            self._assign(target.value, val, None, st, node)

    def h_aug(self, s: ast.AugAssign, st: _State):
        t = s.target
        if isinstance(t, ast.Name):
            self.write(st.pts.get(t.id, NO), 'item', '', s)
        elif isinstance(t, ast.Subscript):
            key = t.slice.value if isinstance(t.slice, ast.Constant) and isinstance(t.slice.value, str) else ''
            self.write(self.pt(t.value, st), 'item', key, s)
        elif isinstance(t, ast.Attribute):
            base = self.pt(t.value, st)
            self.write(base, 'field', t.attr, s)

    def h_for(self, target, iter_expr, st: _State):
        def assign_all(t, v):
            if isinstance(t, ast.Name):
                st.pts[t.id] = v
            elif isinstance(t, (ast.Tuple, ast.List)):
                for x in t.elts:
                    assign_all(x, v)
        it = iter_expr
        if isinstance(it, ast.Call) and isinstance(it.func, ast.Name) and it.func.id == 'enumerate' and it.args \
                and isinstance(target, ast.Tuple) and len(target.elts) == 2:
            assign_all(target.elts[0], NO)
            base = self.pt(it.args[0], st)
            assign_all(target.elts[1], self.elems(base, st) | base)
            return
        if isinstance(it, ast.Call) and isinstance(it.func, ast.Name) and it.func.id == 'zip' \
                and isinstance(target, ast.Tuple) and len(target.elts) == len(it.args):
            for t, a in zip(target.elts, it.args):
                base = self.pt(a, st)
                assign_all(t, self.elems(base, st) | base)
            return
        if isinstance(it, ast.Call) and isinstance(it.func, ast.Name) and it.func.id == 'range':
            assign_all(target, NO)
            return
        if isinstance(it, ast.Call) and isinstance(it.func, ast.Attribute) and it.func.attr == 'items' \
                and isinstance(target, ast.Tuple) and len(target.elts) == 2:
            assign_all(target.elts[0], NO)
            assign_all(target.elts[1], self.elems(self.pt(it.func.value, st), st))
            return
        if isinstance(it, ast.Call) and isinstance(it.func, ast.Attribute) and it.func.attr == 'keys':
            assign_all(target, NO)
            return
        base = self.pt(it, st)
        # iterating an array yields views of it (rows), iterating a container yields its elements
        assign_all(target, self.elems(base, st) | base)

    def h_return(self, s: ast.Return, st: _State):
        v = s.value
        locs = self.pt(v, st)
        self.ret_locs |= set(locs)
        comps = None
        if isinstance(v, ast.Tuple):
            comps = [self.pt(x, st) for x in v.elts]
        elif isinstance(v, ast.Call) and id(v) in self.call_comps:
            comps = self.call_comps[id(v)]
        self.ret_comps_l.append(comps)
        self.exit_heaps.append(dict(st.heap))

    def _note_exit(self, st: _State):
        super()._note_exit(st)
        self.exit_heaps.append(dict(st.heap))

    # ------------------------------------------------------------------ calls
    def h_call(self, e: ast.Call, cr, st: _State, bound_recv: bool):
        fn = e.func
        res: Set[str] = set()
        comps = None
        if cr.callees:
            all_comps = []
            for q in cr.callees:
                r, c = self._apply(q, e, cr, st, bound_recv)
                res |= r
                all_comps.append(c)
            if all(c is not None for c in all_comps) and len({len(c) for c in all_comps}) == 1:
                n = len(all_comps[0])
                comps = [frozenset().union(*[c[i] for c in all_comps]) for i in range(n)]
        else:
            res |= self._external(e, cr, st)
        self.call_pts[id(e)] = frozenset(res)
        if comps is not None:
            self.call_comps[id(e)] = comps

    def _actual_map(self, fi: FuncInfo, e: ast.Call, bound_recv: bool, st: _State) -> Dict[str, Locs]:
        pos = list(fi.pos_params)
        m: Dict[str, Locs] = {}
        if bound_recv and fi.cls and not fi.is_static and pos:
            if isinstance(e.func, ast.Attribute):
                m[pos[0]] = self.pt(e.func.value, st)
            pos = pos[1:]
        i = 0
        star = NO
        for a in e.args:
            if isinstance(a, ast.Starred):
                star |= self.elems(self.pt(a.value, st), st)
                continue
            if i < len(pos):
                m[pos[i]] = m.get(pos[i], NO) | self.pt(a, st)
            elif fi.vararg:
                m[fi.vararg] = m.get(fi.vararg, NO) | self.pt(a, st)
            i += 1
        allp = set(fi.pos_params) | set(fi.kwonly)
        for kw in e.keywords:
            if kw.arg is None:
                star |= self.elems(self.pt(kw.value, st), st)
            elif kw.arg in allp:
                m[kw.arg] = m.get(kw.arg, NO) | self.pt(kw.value, st)
            elif fi.kwarg:
                m[fi.kwarg] = m.get(fi.kwarg, NO) | self.pt(kw.value, st)
        if star:
            for p in fi.params:
                m[p] = m.get(p, NO) | star
        return m

    def _field_of(self, a: str, fld: str, st: _State, depth=0) -> Locs:
        """locations stored in field `fld` of location a, resolved through the current heap (fresh objects whose fields were
        set from caller-visible objects, shallow copies)"""
        key = (a, fld)
        out: Set[str] = set()
        if key in st.heap:
            out |= st.heap[key]
            if is_param_loc(a):
                out.add(add_field(a, fld))
            return frozenset(out)
        sh = st.heap.get((a, '<shallow>'))
        if sh and depth < 3 and fld != '*':
            for o in sh:
                out |= self._field_of(o, fld, st, depth + 1)
            return frozenset(out)
        return frozenset({add_field(a, fld)})

    def _subst(self, locs, amap: Dict[str, Locs], fresh_site: str, callee_vararg=None, st: Optional[_State] = None) -> Locs:
        out = set()
        for l in locs:
            if l == FRESH:
                out.add(fresh_site)
            elif l.startswith('FRESH|'):
                out.add(norm_loc(fresh_site + '|' + l[6:]))
            elif is_param_loc(l):
                p = param_of(l)
                suffix = l[2 + len(p):]
                for a in amap.get(p, NO):
                    if suffix:
                        comps = [c for c in suffix.split('.') if c]
                        if st is not None and a.startswith('A:') and '|' not in a and comps and comps[0] != '*':
                            # field of a locally known object: follow the heap instead of inventing an access path
                            for t in self._field_of(a, comps[0], st):
                                out.add(t if len(comps) == 1 else add_elem(t))
                        elif a.startswith('A:'):
                            out.add(norm_loc(a + ('.' if '|' in a else '|') + suffix.lstrip('.')))
                        else:
                            out.add(norm_loc(a + suffix))
                    else:
                        out.add(a)
            elif l.startswith('G:'):
                out.add(l)
        return frozenset(out)

    def _apply(self, q: str, e: ast.Call, cr, st: _State, bound_recv: bool):
        fi = self.prog.functions[q]
        site = self.fresh(e)
        is_ctor = fi.name == '__init__' and self._is_ctor_call(e)
        summ = self.heng.specialised(q, self._const_args(fi, e, is_ctor or bound_recv))
        amap = self._actual_map(fi, e, bound_recv and not is_ctor, st)
        if is_ctor:
            selfp = fi.pos_params[0]
            amap = self._actual_map(fi, e, False, st)
            # positional args bind after self
            pos = fi.pos_params[1:]
            amap = {}
            i = 0
            for a in e.args:
                if isinstance(a, ast.Starred):
                    continue
                if i < len(pos):
                    amap[pos[i]] = self.pt(a, st)
                i += 1
            for kw in e.keywords:
                if kw.arg:
                    amap[kw.arg] = amap.get(kw.arg, NO) | self.pt(kw.value, st)
            amap[selfp] = frozenset({site})
            r = self.prog.resolve_expr_static(self.mod, e.func, self.f)
            if r and r.startswith('class:'):
                self.alloc_class[site] = r[6:]
        # effects: stores into parameter-reachable objects
        for (l, fld), val in summ.stores.items():
            targets = self._subst([l], amap, site, st=None if is_ctor else st)
            v = self._subst(val, amap, site)
            # element / entry stores never remove the other elements: weak
            self.store_field(st, targets, fld, v, strong=is_ctor and len(targets) == 1 and fld not in ('*', DELEM))
        for (l, kind, key) in summ.writes:
            targets = self._subst([l], amap, site, st=None if is_ctor else st)
            if is_ctor:
                targets = frozenset(t for t in targets if t != site and not t.startswith(site + '|'))
            self.write(targets, kind, key, e, origin=summ.write_sites.get((l, kind, key)))
        if is_ctor:
            return {site}, None
        ret = set(self._subst(summ.ret, amap, site))
        for fld, val in summ.ret_fields.items():
            v = self._subst(val, amap, site)
            key = (site, fld)
            st.heap[key] = st.heap.get(key, NO) | v
        comps = None
        if summ.ret_comps is not None:
            comps = [self._subst(c, amap, site) for c in summ.ret_comps]
        return ret, comps

    def _const_args(self, fi: FuncInfo, e: ast.Call, skip_first: bool) -> Tuple[Tuple[str, object], ...]:
        pos = list(fi.pos_params)
        if skip_first and fi.cls and not fi.is_static and pos:
            pos = pos[1:]
        out = {}
        given = set()
        for i, a in enumerate(e.args):
            if isinstance(a, ast.Starred):
                return ()
            if i < len(pos):
                given.add(pos[i])
                if isinstance(a, ast.Constant) and isinstance(a.value, (bool, type(None), str)):
                    out[pos[i]] = a.value
        for kw in e.keywords:
            if kw.arg is None:
                return ()
            given.add(kw.arg)
            if isinstance(kw.value, ast.Constant) and isinstance(kw.value.value, (bool, type(None), str)):
                out[kw.arg] = kw.value.value
        # parameters left at a constant default
        for p in fi.params:
            if p not in given:
                d = fi.default_of(p)
                if isinstance(d, ast.Constant) and isinstance(d.value, (bool, type(None), str)):
                    out[p] = d.value
        return tuple(sorted(out.items(), key=lambda kv: kv[0]))

    def _external(self, e: ast.Call, cr, st: _State) -> Locs:
        fn = e.func
        nm = fn.attr if isinstance(fn, ast.Attribute) else (fn.id if isinstance(fn, ast.Name) else '')
        site = self.fresh(e)
        ext = _canon_ext(cr.ext) if cr.ext else None
        is_module_func = ext is not None and not (isinstance(fn, ast.Attribute) and root_name(fn) in st.pts)
        out: Set[str] = set()
        arg0 = self.pt(e.args[0], st) if e.args and not isinstance(e.args[0], ast.Starred) else NO
        # out= keyword
        for kw in e.keywords:
            if kw.arg == 'out':
                self.write(self.pt(kw.value, st), 'item', '', e)
                out |= self.pt(kw.value, st)
        if is_module_func or isinstance(fn, ast.Name):
            if ext in MUTATING_FUNCS:
                k = MUTATING_FUNCS[ext]
                if k < len(e.args):
                    self.write(self.pt(e.args[k], st), 'item', '', e)
                return frozenset(out)
            if nm in VIEW_FUNCS:
                return frozenset(out) | arg0
            if nm in DEEP_FRESH_FUNCS:
                return frozenset({site})
            if nm in SHALLOW_COPY_FUNCS and (isinstance(fn, ast.Name) or ext in ('copy.copy',)):
                inner = self.elems(arg0, st)
                if nm == 'dict':
                    # dict([(k, v), ...]) / dict(zip(ks, vs)): the entries are the members of the pairs; dict(k=v): the values
                    inner = inner | self.elems(inner, st)
                    for kw in e.keywords:
                        inner = inner | self.pt(kw.value, st)
                if inner:
                    st.heap[(site, '*')] = st.heap.get((site, '*'), NO) | inner
                if nm == 'copy' and arg0:
                    # copy.copy(obj): a new object whose attributes are the SAME objects as the original's
                    st.heap[(site, '<shallow>')] = st.heap.get((site, '<shallow>'), NO) | arg0
                return frozenset({site})
            if nm in ('enumerate', 'zip', 'iter', 'filter', 'map'):
                res = set()
                for a in e.args:
                    if not isinstance(a, ast.Starred):
                        res |= self.pt(a, st)
                return frozenset(res)
            if nm in ('getattr',) and len(e.args) >= 2 and isinstance(e.args[1], ast.Constant):
                return self.pt(ast.Attribute(value=e.args[0], attr=str(e.args[1].value), ctx=ast.Load()), st)
            if nm == 'isinstance' or nm == 'len':
                return NO
            # callable held in a variable / parameter (fitter[j](...), func(v1, v2), fun(x)): unknown effects
            if isinstance(fn, ast.Name) and any(is_param_loc(l) and '.' not in l for l in st.pts.get(fn.id, NO)):
                # a function supplied by the caller may hand back (a view of) what it was given
                res = {site}
                for a in e.args:
                    if not isinstance(a, ast.Starred):
                        res |= self.pt(a, st)
                return frozenset(res)
            return frozenset({site}) if ext else NO
        # method call on an object
        recv = self.pt(fn.value, st) if isinstance(fn, ast.Attribute) else NO
        if nm in MUTATING_METHODS:
            self.write(recv, 'item', '', e)
            vals = set()
            # keys / positions are not stored values: d.setdefault(key, default), d.pop(key[, default]), l.insert(pos, value)
            stored_args = e.args[1:] if nm in ('setdefault', 'pop', 'insert') else e.args
            for a in stored_args:
                if not isinstance(a, ast.Starred):
                    vals |= self.pt(a, st)
            if nm in ('update', 'extend'):
                vals = set(self.elems(frozenset(vals), st))
            if vals:
                self.store_field(st, recv, '*', frozenset(vals), strong=False)
            if nm in ('pop', 'popitem', 'setdefault'):
                return self.elems(recv, st) | frozenset(vals)
            return NO
        if nm in VIEW_FUNCS or nm in ('reshape', 'ravel', 'squeeze', 'transpose', 'swapaxes', 'view'):
            return recv
        if nm in ELEM_METHODS:
            return self.elems(recv, st)
        if nm in KEY_METHODS or nm in FRESH_METHODS:
            if nm == 'copy':
                inner = self.elems(recv, st)
                if inner:
                    st.heap[(site, '*')] = st.heap.get((site, '*'), NO) | inner
                return frozenset({site})
            return NO
        return NO

    # --------------------------------------------------------------- summary
    def summary(self) -> HeapSummary:
        s = HeapSummary(self.f.qname)
        mine = 'A:%s:' % self.f.qname

        def export(l: str) -> Optional[str]:
            if is_param_loc(l) or l.startswith('G:'):
                return l
            if l.startswith('A:'):
                head, _, rest = l.partition('|')
                return FRESH + ('|' + rest if rest else '')
            return None
        ret = set()
        for l in self.ret_locs:
            x = export(l)
            if x:
                ret.add(x)
        s.ret = frozenset(ret)
        # fields of fresh returned objects
        final_heap: Dict[Tuple[str, str], Set[str]] = {}
        for h in self.exit_heaps:
            for k, v in h.items():
                final_heap.setdefault(k, set()).update(v)
        for l in self.ret_locs:
            if l.startswith('A:') and '|' not in l:
                for (hl, fld), val in final_heap.items():
                    if hl == l and fld != '*':
                        ex = {export(x) for x in val}
                        ex.discard(None)
                        if ex:
                            s.ret_fields[fld] = s.ret_fields.get(fld, NO) | frozenset(ex)
                # entries of the descriptor dicts of the returned object: through the dict allocation, or recorded on the owner
                de = set(final_heap.get((l, DELEM), ()))
                for fld in DICT_FIELDS:
                    for x in final_heap.get((l, fld), ()):
                        if x.startswith('A:') and x != l:
                            de |= set(final_heap.get((x, '*'), ())) | set(final_heap.get((x, DELEM), ()))
                ex = {export(x) for x in de}
                ex.discard(None)
                ex.discard(FRESH)
                if ex:
                    s.ret_fields[DELEM] = s.ret_fields.get(DELEM, NO) | frozenset(ex)
                if l in self.alloc_class:
                    s.alloc_class[FRESH] = self.alloc_class[l]
        comps = [c for c in self.ret_comps_l if c is not None]
        if comps and len(comps) == len([c for c in self.ret_comps_l]) and len({len(c) for c in comps}) == 1:
            n = len(comps[0])
            s.ret_comps = []
            for i in range(n):
                acc = set()
                for c in comps:
                    for l in c[i]:
                        x = export(l)
                        if x:
                            acc.add(x)
                s.ret_comps.append(frozenset(acc))
        w = set()
        for (l, kind, key), site in self.writes.items():
            if is_param_loc(l) or l.startswith('G:'):
                w.add((l, kind, key))
                s.write_sites[(l, kind, key)] = site
        s.writes = frozenset(w)
        for (hl, fld), val in final_heap.items():
            if is_param_loc(hl):
                ex = {export(x) for x in val}
                ex.discard(None)
                # a store of the object into itself is no effect
                if ex:
                    s.stores[(hl, fld)] = frozenset(ex)
        return s
