"""Object inlining (pre-pass, before helper inlining).

A refactoring that turns the body of an anchored function into a small private class (`_Rescaler(dissim, method).run()`, a
`@dataclass` with methods, an alternative constructor) moves every construct a rule looks for into methods and every local variable
into `self.<field>`.  For module-level classes that are NOT in the frozen table (contracts/functions.json, key `<classes>`) and whose
instances do not escape, this pass undoes that - scalar replacement of the aggregate:

        v = _X(a, b)            ->   __X1___init__(a, b)                 (helper; body of __init__ with self.f -> __o1_f)
        v.m(c)                  ->   __X1_m(c)                           (helper; body of m, self.f -> __o1_f, self.m2(..) -> __X1_m2(..))
        v.f                     ->   __o1_f
        _X(a, b).m(c)           ->   __X1___init__(a, b) ; __X1_m(c)
        v = _X.make(a)          ->   classmethod `make` becomes a helper whose `cls(..)` is `_X(..)`; it is inlined first and the
                                     constructor call it contained is then treated as above (second round)

The synthetic helpers are handed to the ordinary helper inliner (sa/inline.py), which expands them at their call sites.  The pass
gives up on an object (leaves the code untouched: rules then see an opaque call - undecided, never an alarm) when the instance
escapes (passed as an argument, returned, stored, compared), when the class has base classes / properties / dunder methods other
than __init__ and __post_init__, or when a used method cannot be normalised to a single exit."""
from __future__ import annotations
import ast
import copy
from typing import Dict, List, Optional, Set, Tuple

OBJ_PREFIX = '__o'


def _decos(n) -> Set[str]:
    return {ast.unparse(d).split('(')[0].split('.')[-1] for d in n.decorator_list}


class ClassModel:
    def __init__(self, node: ast.ClassDef):
        self.node = node
        self.ok = True
        self.is_dataclass = 'dataclass' in _decos(node)
        self.methods: Dict[str, ast.FunctionDef] = {}
        self.kinds: Dict[str, str] = {}
        self.fields: List[Tuple[str, Optional[ast.expr]]] = []     # dataclass fields in order
        self.consts: List[Tuple[str, ast.expr]] = []               # class-level constants
        self.is_namedtuple = len(node.bases) == 1 and ast.unparse(node.bases[0]) in ('NamedTuple', 'typing.NamedTuple')
        if (node.bases and not self.is_namedtuple) or node.keywords or (set(_decos(node)) - {'dataclass'}):
            self.ok = False
        for st in node.body:
            if isinstance(st, ast.Expr) and isinstance(st.value, ast.Constant):
                continue
            if isinstance(st, ast.Pass):
                continue
            if isinstance(st, ast.FunctionDef):
                d = _decos(st)
                if d - {'staticmethod', 'classmethod', 'property'}:
                    self.ok = False
                if st.name.startswith('__') and st.name.endswith('__') and st.name not in ('__init__', '__post_init__'):
                    self.ok = False
                self.methods[st.name] = st
                self.kinds[st.name] = 'static' if 'staticmethod' in d else 'class' if 'classmethod' in d else 'prop' if 'property' in d else 'inst'
            elif isinstance(st, ast.AnnAssign) and isinstance(st.target, ast.Name):
                if self.is_dataclass or self.is_namedtuple:
                    dflt = st.value
                    if isinstance(dflt, ast.Call) and ast.unparse(dflt.func).endswith('field'):
                        kw = {k.arg: k.value for k in dflt.keywords}
                        if 'default' in kw:
                            dflt = kw['default']
                        elif 'default_factory' in kw:
                            dflt = ast.Call(func=kw['default_factory'], args=[], keywords=[])
                        else:
                            dflt = None
                    self.fields.append((st.target.id, dflt))
                elif st.value is not None:
                    self.consts.append((st.target.id, st.value))
            elif isinstance(st, ast.Assign) and len(st.targets) == 1 and isinstance(st.targets[0], ast.Name):
                self.consts.append((st.targets[0].id, st.value))
            else:
                self.ok = False

    def fluent(self, name: str) -> bool:
        """every `return` of the instance method is `return self` (method chaining)"""
        m = self.methods.get(name)
        if m is None or self.kinds.get(name) != 'inst' or not m.args.args:
            return False
        me = m.args.args[0].arg
        rets = [n for n in ast.walk(m) if isinstance(n, ast.Return)]
        return bool(rets) and all(isinstance(r.value, ast.Name) and r.value.id == me for r in rets)

    def init_def(self) -> Optional[ast.FunctionDef]:
        """the constructor as a function with `self` first (synthesised for dataclasses)"""
        if '__init__' in self.methods:
            return self.methods['__init__']
        args = [ast.arg(arg='self')]
        defaults = []
        body: List[ast.stmt] = []
        for name, dflt in self.fields:
            args.append(ast.arg(arg=name))
            if dflt is not None:
                defaults.append(dflt)
            elif defaults:
                return None
            body.append(ast.Assign(targets=[ast.Attribute(value=ast.Name(id='self', ctx=ast.Load()), attr=name, ctx=ast.Store())],
                                   value=ast.Name(id=name, ctx=ast.Load())))
        if '__post_init__' in self.methods:
            body.append(ast.Expr(value=ast.Call(func=ast.Attribute(value=ast.Name(id='self', ctx=ast.Load()), attr='__post_init__',
                                                                   ctx=ast.Load()), args=[], keywords=[])))
        if not body:
            body = [ast.Pass()]
        fn = ast.FunctionDef(name='__init__', args=ast.arguments(posonlyargs=[], args=args, vararg=None, kwonlyargs=[], kw_defaults=[],
                                                                   kwarg=None, defaults=defaults),
                             body=body, decorator_list=[], returns=None, type_comment=None)
        fn.lineno = self.node.lineno
        fn.col_offset = 0
        return ast.fix_missing_locations(fn)


class _SelfRewriter(ast.NodeTransformer):
    """method body -> helper body: self.f -> __oK_f, self.m(..) / cls.m(..) / _X.m(..) -> __XK_m(..); flags an escaping `self`"""

    def __init__(self, cm: ClassModel, k: str, selfname: Optional[str], clsname: Optional[str]):
        self.cm, self.k, self.selfname, self.clsname = cm, k, selfname, clsname
        self.escaped = False
        self.used_methods: Set[str] = set()

    def _is_recv(self, e):
        return isinstance(e, ast.Name) and ((self.selfname and e.id == self.selfname) or (self.clsname and e.id == self.clsname)
                                            or e.id == self.cm.node.name)

    def visit_Call(self, node: ast.Call):
        f = node.func
        if isinstance(f, ast.Attribute) and self._is_recv(f.value) and f.attr in self.cm.methods:
            kind = self.cm.kinds[f.attr]
            via_class = f.value.id != self.selfname
            if kind == 'inst' and via_class:
                self.escaped = True
                return node
            self.used_methods.add(f.attr)
            new = ast.Call(func=ast.Name(id=f'__X{self.k}_{f.attr}', ctx=ast.Load()),
                           args=[self.visit(a) for a in node.args],
                           keywords=[ast.keyword(arg=kw.arg, value=self.visit(kw.value)) for kw in node.keywords])
            return ast.copy_location(new, node)
        if isinstance(f, ast.Name) and self.clsname and f.id == self.clsname:
            # cls(..) in a classmethod: the class itself
            node = ast.copy_location(ast.Call(func=ast.Name(id=self.cm.node.name, ctx=ast.Load()), args=node.args, keywords=node.keywords), node)
        return self.generic_visit(node)

    def visit_Attribute(self, node: ast.Attribute):
        if isinstance(node.value, ast.Name) and self.selfname and node.value.id == self.selfname:
            if self.cm.kinds.get(node.attr) == 'prop' and isinstance(node.ctx, ast.Load):
                self.used_methods.add(node.attr)
                return ast.copy_location(ast.Call(func=ast.Name(id=f'__X{self.k}_{node.attr}', ctx=ast.Load()), args=[], keywords=[]), node)
            return ast.copy_location(ast.Name(id=f'{OBJ_PREFIX}{self.k}_{node.attr}', ctx=node.ctx), node)
        return self.generic_visit(node)

    def visit_Name(self, node: ast.Name):
        if self.selfname and node.id == self.selfname:
            self.escaped = True
        return node


def _method_helper(cm: ClassModel, name: str, k: str):
    """(helper FunctionDef, methods it calls) or None"""
    m = cm.init_def() if name == '__init__' else cm.methods.get(name)
    if m is None:
        return None
    kind = cm.kinds.get(name, 'inst')
    fn = copy.deepcopy(m)
    a = fn.args
    if a.vararg or a.kwarg or a.posonlyargs:
        return None
    if cm.fluent(name):
        for r in ast.walk(fn):
            if isinstance(r, ast.Return):
                r.value = None
    selfname = clsname = None
    if kind in ('inst', 'prop'):
        if not a.args:
            return None
        selfname = a.args[0].arg
        a.args = a.args[1:]
    elif kind == 'class':
        if not a.args:
            return None
        clsname = a.args[0].arg
        a.args = a.args[1:]
    rw = _SelfRewriter(cm, k, selfname, clsname)
    body = []
    if name == '__init__':
        for cname, cval in cm.consts:
            body.append(ast.Assign(targets=[ast.Name(id=f'{OBJ_PREFIX}{k}_{cname}', ctx=ast.Store())], value=copy.deepcopy(cval)))
    for st in fn.body:
        body.append(rw.visit(st))
    if rw.escaped:
        return None
    fn.body = body or [ast.Pass()]
    fn.name = f'__X{k}_{name}'
    fn.decorator_list = []
    ast.fix_missing_locations(fn)
    return fn, rw.used_methods


class ObjectInliner:
    def __init__(self, classes: Dict[str, ClassModel]):
        self.classes = classes
        self.counter = 0
        self.helpers: Dict[str, ast.FunctionDef] = {}
        self.tmp_cls: Dict[str, ClassModel] = {}
        self.expanded: Dict[int, Set[Tuple[str, str]]] = {}     # per function: (class, method) pairs already expanded (recursion guard)
        self.done = 0

    # -- helpers for one object ------------------------------------------------------------------------------------------
    def _helpers_for(self, cm: ClassModel, k: str, roots: Set[str]) -> Optional[Dict[str, ast.FunctionDef]]:
        out: Dict[str, ast.FunctionDef] = {}
        todo = list(roots)
        while todo:
            m = todo.pop()
            if f'__X{k}_{m}' in out:
                continue
            r = _method_helper(cm, m, k)
            if r is None:
                return None
            fn, used = r
            out[fn.name] = fn
            todo += [u for u in used if f'__X{k}_{u}' not in out]
            if len(out) > 40:
                return None
        return out

    def rewrite_function(self, fn: ast.FunctionDef) -> bool:
        """one round over fn; True when something was rewritten"""
        changed = False
        # (b) _X(args).m(args2)  ->  v = _X(args); v.m(args2)     (as a local temporary, then handled as (a))
        for holder in [n for n in ast.walk(fn) if hasattr(n, 'body') and isinstance(getattr(n, 'body'), list)]:
            for fld in ('body', 'orelse', 'finalbody'):
                blk = getattr(holder, fld, None)
                if not isinstance(blk, list):
                    continue
                new_blk = []
                for st in blk:
                    if isinstance(st, (ast.FunctionDef, ast.ClassDef)):
                        new_blk.append(st)
                        continue
                    for c in self._header_calls(st):
                        f = c.func
                        if not isinstance(f, ast.Attribute):
                            continue
                        flat = self._flatten(f.value, st)
                        if flat is None:
                            continue
                        pre, nm, cm_ = flat
                        if f.attr not in cm_.methods or (not pre and isinstance(f.value, ast.Name)):
                            continue
                        new_blk += pre
                        f.value = ast.copy_location(ast.Name(id=nm, ctx=ast.Load()), f.value)
                        changed = True
                    new_blk.append(st)
                setattr(holder, fld, new_blk)
        # record constructors taking one unpacked tuple: v = _X(*e) -> t0, .., tn = e; v = _X(t0, .., tn)
        for holder in [n for n in ast.walk(fn) if hasattr(n, 'body') and isinstance(getattr(n, 'body'), list)]:
            for fld in ('body', 'orelse', 'finalbody'):
                blk = getattr(holder, fld, None)
                if not isinstance(blk, list):
                    continue
                new_blk = []
                for st in blk:
                    c = st.value if isinstance(st, ast.Assign) and isinstance(st.value, ast.Call) else None
                    if c is not None and isinstance(c.func, ast.Name) and c.func.id in self.classes \
                            and (self.classes[c.func.id].is_namedtuple or self.classes[c.func.id].is_dataclass) \
                            and len(c.args) == 1 and isinstance(c.args[0], ast.Starred) and not c.keywords \
                            and not isinstance(c.args[0].value, (ast.Tuple, ast.List)):
                        self.counter += 1
                        names = [f'__u{self.counter}_{f}' for f, _ in self.classes[c.func.id].fields]
                        unpack = ast.Assign(targets=[ast.Tuple(elts=[ast.Name(id=x, ctx=ast.Store()) for x in names], ctx=ast.Store())],
                                            value=c.args[0].value)
                        ast.copy_location(unpack, st)
                        c.args = [ast.Name(id=x, ctx=ast.Load()) for x in names]
                        new_blk.append(unpack)
                        changed = True
                    new_blk.append(st)
                setattr(holder, fld, new_blk)
        if changed:
            ast.fix_missing_locations(fn)
        # (a) v = _X(args)
        cands: Dict[str, Tuple[ast.Assign, str]] = {}
        more_stores: Dict[str, List[ast.Assign]] = {}
        changed = self._version_rebound_records(fn) or changed
        stores: Dict[str, int] = {}
        for n in ast.walk(fn):
            if isinstance(n, ast.Name) and isinstance(n.ctx, (ast.Store, ast.Del)):
                stores[n.id] = stores.get(n.id, 0) + 1
        ctor_stores: Dict[str, List[ast.Assign]] = {}
        for n in ast.walk(fn):
            if isinstance(n, ast.Assign) and len(n.targets) == 1 and isinstance(n.targets[0], ast.Name) and isinstance(n.value, ast.Call) \
                    and isinstance(n.value.func, ast.Name) and n.value.func.id in self.classes:
                ctor_stores.setdefault(n.targets[0].id, []).append(n)
        for v, asgs in ctor_stores.items():
            # every store to v builds an object of ONE class (one store, or one per arm of a branch): v is that object, its fields
            # are ordinary variables with one definition per store
            if stores.get(v) == len(asgs) and len({a.value.func.id for a in asgs}) == 1 \
                    and not any(a.arg == v for a in fn.args.args + fn.args.kwonlyargs):
                cands[v] = (asgs[0], asgs[0].value.func.id)
                more_stores[v] = asgs[1:]
        for v, (asg, cname) in cands.items():
            cm = self.classes[cname]
            # every other use of v is v.attr or v.m(..)
            uses_ok, used_methods, parents = True, {'__init__'}, {}
            tuple_uses, index_uses = [], []
            for p in ast.walk(fn):
                for ch in ast.iter_child_nodes(p):
                    parents[id(ch)] = p
            for n in ast.walk(fn):
                if isinstance(n, ast.Name) and n.id == v and n is not asg.targets[0] \
                        and not any(n is a_.targets[0] for a_ in more_stores.get(v, [])):
                    p = parents.get(id(n))
                    if cm.is_namedtuple and isinstance(p, ast.Assign) and p.value is n and isinstance(p.targets[0], (ast.Tuple, ast.List)) \
                            and len(p.targets[0].elts) == len(cm.fields) and not any(isinstance(x, ast.Starred) for x in p.targets[0].elts):
                        tuple_uses.append(p)
                        continue
                    if cm.is_namedtuple and isinstance(p, ast.Subscript) and p.value is n and isinstance(p.slice, ast.Constant) \
                            and isinstance(p.slice.value, int) and -len(cm.fields) <= p.slice.value < len(cm.fields) and isinstance(p.ctx, ast.Load):
                        index_uses.append(p)
                        continue
                    if not (isinstance(p, ast.Attribute) and p.value is n):
                        uses_ok = False
                        break
                    if p.attr in cm.methods:
                        pp = parents.get(id(p))
                        if cm.kinds[p.attr] == 'prop':
                            if not isinstance(p.ctx, ast.Load):
                                uses_ok = False
                                break
                            used_methods.add(p.attr)
                            continue
                        if not (isinstance(pp, ast.Call) and pp.func is p) or cm.kinds[p.attr] == 'class':
                            uses_ok = False
                            break
                        used_methods.add(p.attr)
            if not uses_ok:
                continue
            # nested function bodies must not mention v (closures over the object)
            if any(isinstance(n, (ast.Lambda, ast.FunctionDef)) and n is not fn and any(isinstance(x, ast.Name) and x.id == v for x in ast.walk(n))
                   for n in ast.walk(fn)):
                continue
            # recursion guard: a constructor call that comes out of the expansion of method (C, m) carries that pair as ancestry; an
            # object built there that uses (C, m) again is a recursion and is left as a call
            anc = frozenset().union(*[getattr(a_.value, '_anc', frozenset()) for a_ in [asg] + more_stores.get(v, [])])
            if any((cname, m) in anc for m in used_methods if m != '__init__'):
                continue
            self.counter += 1
            k = str(self.counter)
            hs = self._helpers_for(cm, k, used_methods)
            if hs is None:
                continue
            for hname, hf in hs.items():
                tag = anc | {(cname, hname[len(f'__X{k}_'):])}
                for c_ in ast.walk(hf):
                    if isinstance(c_, ast.Call) and isinstance(c_.func, ast.Name) and c_.func.id in self.classes:
                        c_._anc = tag
            self.helpers.update(hs)
            # rewrite the uses
            class RW(ast.NodeTransformer):
                def visit_Call(s, node):
                    node = s.generic_visit(node)
                    f = node.func
                    if isinstance(f, ast.Attribute) and isinstance(f.value, ast.Name) and f.value.id == v and f.attr in cm.methods:
                        return ast.copy_location(ast.Call(func=ast.Name(id=f'__X{k}_{f.attr}', ctx=ast.Load()), args=node.args,
                                                          keywords=node.keywords), node)
                    return node

                def visit_Attribute(s, node):
                    if isinstance(node.value, ast.Name) and node.value.id == v and cm.kinds.get(node.attr) == 'prop':
                        return ast.copy_location(ast.Call(func=ast.Name(id=f'__X{k}_{node.attr}', ctx=ast.Load()), args=[], keywords=[]), node)
                    if isinstance(node.value, ast.Name) and node.value.id == v and node.attr not in cm.methods:
                        return ast.copy_location(ast.Name(id=f'{OBJ_PREFIX}{k}_{node.attr}', ctx=node.ctx), node)
                    return s.generic_visit(node)
            for p in tuple_uses:
                p.value = ast.copy_location(ast.Tuple(elts=[ast.Name(id=f'{OBJ_PREFIX}{k}_{fn_}', ctx=ast.Load()) for fn_, _ in cm.fields],
                                                      ctx=ast.Load()), p.value)
            for p in index_uses:
                fld = cm.fields[p.slice.value][0]
                self._replace_expr(fn, p, ast.copy_location(ast.Name(id=f'{OBJ_PREFIX}{k}_{fld}', ctx=ast.Load()), p))
            RW().visit(fn)
            for a_ in [asg] + more_stores.get(v, []):
                ctor = a_.value
                new_ctor = ast.Expr(value=ast.Call(func=ast.Name(id=f'__X{k}___init__', ctx=ast.Load()), args=ctor.args, keywords=ctor.keywords))
                ast.copy_location(new_ctor, a_)
                ast.copy_location(new_ctor.value, ctor)
                self._replace_stmt(fn, a_, new_ctor)
            ast.fix_missing_locations(fn)
            self.done += 1
            changed = True
        # (c) _X.make(args) with make a classmethod / staticmethod: a plain helper (its `cls(..)` is `_X(..)`)
        for n in ast.walk(fn):
            if isinstance(n, ast.Call) and isinstance(n.func, ast.Attribute) and isinstance(n.func.value, ast.Name) \
                    and n.func.value.id in self.classes:
                cm = self.classes[n.func.value.id]
                m = n.func.attr
                if m in cm.methods and cm.kinds[m] in ('class', 'static'):
                    name = f'__XS_{cm.node.name}_{m}'
                    if name not in self.helpers:
                        r = _method_helper(cm, m, 'S_' + cm.node.name)
                        if r is None or r[1]:
                            continue
                        r[0].name = name
                        self.helpers[name] = r[0]
                    n.func = ast.copy_location(ast.Name(id=name, ctx=ast.Load()), n.func)
                    changed = True
        return changed

    def _flatten(self, recv, at):
        """receiver expression `_X(a).m1(b).m2(c)` (m1, m2 fluent) -> ([t = _X(a); t.m1(b); t.m2(c)], 't', class model)"""
        if isinstance(recv, ast.Call) and isinstance(recv.func, ast.Name) and recv.func.id in self.classes:
            self.counter += 1
            tmp = f'__t{self.counter}'
            asg = ast.Assign(targets=[ast.Name(id=tmp, ctx=ast.Store())], value=recv, type_comment=None)
            ast.copy_location(asg, at)
            ast.fix_missing_locations(asg)
            self.tmp_cls[tmp] = self.classes[recv.func.id]
            return [asg], tmp, self.classes[recv.func.id]
        if isinstance(recv, ast.Name) and recv.id in self.tmp_cls:
            return [], recv.id, self.tmp_cls[recv.id]
        if isinstance(recv, ast.Call) and isinstance(recv.func, ast.Attribute):
            inner = self._flatten(recv.func.value, at)
            if inner is None:
                return None
            pre, nm, cm_ = inner
            if not cm_.fluent(recv.func.attr):
                return None
            call = ast.Expr(value=ast.Call(func=ast.Attribute(value=ast.Name(id=nm, ctx=ast.Load()), attr=recv.func.attr, ctx=ast.Load()),
                                           args=recv.args, keywords=recv.keywords))
            ast.copy_location(call, at)
            ast.fix_missing_locations(call)
            return pre + [call], nm, cm_
        return None

    @staticmethod
    def _header_calls(st):
        exprs = []
        if isinstance(st, (ast.Assign, ast.AnnAssign, ast.AugAssign, ast.Expr, ast.Return)) and getattr(st, 'value', None) is not None:
            exprs.append(st.value)
        elif isinstance(st, ast.If):
            exprs.append(st.test)
        out = []

        def walk(e):
            if isinstance(e, (ast.ListComp, ast.SetComp, ast.DictComp, ast.GeneratorExp, ast.Lambda, ast.BoolOp, ast.IfExp)):
                return
            for ch in ast.iter_child_nodes(e):
                if isinstance(ch, ast.expr):
                    walk(ch)
            if isinstance(e, ast.Call):
                out.append(e)
        for e in exprs:
            walk(e)
        return out

    @staticmethod
    def _replace_expr(root, old, new):
        for p in ast.walk(root):
            for fld, val in ast.iter_fields(p):
                if val is old:
                    setattr(p, fld, new)
                    return
                if isinstance(val, list):
                    for i, x in enumerate(val):
                        if x is old:
                            val[i] = new
                            return

    def _version_rebound_records(self, fn) -> bool:
        """`v = _X(..); ...; v = <expr reading v>` in one block (the record is replaced by one derived from it: `v = v.with_(..)`):
        the first binding and the reads up to the rebinding get a name of their own, so that each record is a single-assignment
        local.  Only for straight-line code: no statement in between may store v in a nested block."""
        changed = False
        for holder in [n for n in ast.walk(fn) if isinstance(getattr(n, 'body', None), list)]:
            for fld in ('body', 'orelse', 'finalbody'):
                blk = getattr(holder, fld, None)
                if not isinstance(blk, list):
                    continue
                i = 0
                while i < len(blk):
                    st = blk[i]
                    i += 1
                    if not (isinstance(st, ast.Assign) and len(st.targets) == 1 and isinstance(st.targets[0], ast.Name)
                            and isinstance(st.value, ast.Call) and isinstance(st.value.func, ast.Name) and st.value.func.id in self.classes):
                        continue
                    v = st.targets[0].id
                    j = None
                    for k2 in range(i, len(blk)):
                        s2 = blk[k2]
                        stores_v = [x for x in ast.walk(s2) if isinstance(x, ast.Name) and x.id == v and isinstance(x.ctx, (ast.Store, ast.Del))]
                        if not stores_v:
                            continue
                        if isinstance(s2, ast.Assign) and len(s2.targets) == 1 and isinstance(s2.targets[0], ast.Name) and len(stores_v) == 1 \
                                and any(isinstance(x, ast.Name) and x.id == v and isinstance(x.ctx, ast.Load) for x in ast.walk(s2.value)):
                            j = k2
                        break
                    if j is None:
                        continue
                    if any(isinstance(x, (ast.Lambda, ast.FunctionDef)) for s2 in blk[i - 1:j + 1] for x in ast.walk(s2)):
                        continue
                    self.counter += 1
                    nv = f'{v}__s{self.counter}'
                    st.targets[0].id = nv
                    for s2 in blk[i:j]:
                        for x in ast.walk(s2):
                            if isinstance(x, ast.Name) and x.id == v:
                                x.id = nv
                    for x in ast.walk(blk[j].value):
                        if isinstance(x, ast.Name) and x.id == v:
                            x.id = nv
                    changed = True
        return changed

    def finalize(self, fn) -> bool:
        """after the last round: NamedTuple constructor calls that were not bound to a local, non-escaping object"""
        return self._tuples_for_escaping_records(fn)

    def _tuples_for_escaping_records(self, fn) -> bool:
        """a NamedTuple instance that leaves the function (returned, passed on, yielded) is, for the analysis, the tuple of its
        fields: `_Rec(a, b=c)` -> `(a, c)` in field order (defaults filled in)"""
        changed = False
        for c in [x for x in ast.walk(fn) if isinstance(x, ast.Call) and isinstance(x.func, ast.Name) and x.func.id in self.classes
                  and self.classes[x.func.id].is_namedtuple]:
            cm = self.classes[c.func.id]
            names = [f for f, _ in cm.fields]
            if any(isinstance(a, ast.Starred) for a in c.args) or any(k.arg is None for k in c.keywords) or len(c.args) > len(names):
                continue
            vals = dict(zip(names, c.args))
            ok = True
            for kw in c.keywords:
                if kw.arg not in names or kw.arg in vals:
                    ok = False
                vals[kw.arg] = kw.value
            for f, d in cm.fields:
                if f not in vals:
                    if d is None:
                        ok = False
                    else:
                        vals[f] = copy.deepcopy(d)
            if not ok:
                continue
            self._replace_expr(fn, c, ast.copy_location(ast.Tuple(elts=[vals[f] for f in names], ctx=ast.Load()), c))
            changed = True
        if changed:
            ast.fix_missing_locations(fn)
        return changed

    @staticmethod
    def _replace_stmt(root, old, new):
        for p in ast.walk(root):
            for fld in ('body', 'orelse', 'finalbody'):
                blk = getattr(p, fld, None)
                if isinstance(blk, list):
                    for i, x in enumerate(blk):
                        if x is old:
                            blk[i] = new
                            return


def new_private_classes(tree: ast.Module, known: Set[str]) -> Dict[str, ClassModel]:
    out = {}
    for n in tree.body:
        if isinstance(n, ast.ClassDef) and n.name not in known:
            cm = ClassModel(n)
            if cm.ok:
                out[n.name] = cm
    return out
