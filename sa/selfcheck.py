"""setup-time smoke test: positive controls of the engines (embedded samples that must be recognised)."""
import sys


def main():
    from .controls import run_controls
    n, bad = run_controls()
    if bad:
        for b in bad:
            print('CONTROL-FAILED', b)
        return 2
    print(f'sa.selfcheck: {n} positive controls ok')
    return 0


if __name__ == '__main__':
    sys.exit(main())
