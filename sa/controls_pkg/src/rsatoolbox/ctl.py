"""Positive controls: tiny functions that each violate exactly one rule.  Never imported, only parsed."""
from collections.abc import Iterable
import numpy as np


def helper(x, scale=1, flag=False):
    if flag:
        return x * scale - 1
    return x * scale


def dispatcher(data, scale=1, flag=False, noise=None):
    if isinstance(data, Iterable):
        out = []
        for i, d in enumerate(data):
            if noise is None:
                out.append(dispatcher(d, scale=scale))
            elif isinstance(noise, np.ndarray):
                out.append(dispatcher(d, scale=scale, noise=noise))
            else:
                out.append(dispatcher(d, scale=2, noise=noise[i]))
        res = out
    else:
        res = helper(data, scale, flag)
    return res


def last_only(folds, data):
    for f in folds:
        r = data[f] * 2
    return r


def accumulates(folds, data):
    acc = []
    total = 0
    for f in folds:
        r = data[f] * 2
        acc.append(r)
        total = total + r
    return acc, total


def bad_call(x):
    return helper(x, k=3)


def dead(x):
    y = np.dot(x, x)
    y = np.sum(x)
    return y
