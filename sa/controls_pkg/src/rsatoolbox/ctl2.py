"""Positive controls for the sweeps, the order typing and the rank idiom.  Never imported, only parsed."""
import numpy as np
from scipy.stats import rankdata


def callee(x, descriptor='index', k=1):
    """Args:
        descriptor (str): which one
    """
    return x[descriptor] * k


def drops_default(x, descriptor='index'):
    """Args:
        descriptor (str): forwarded
    """
    return callee(x)


def keeps_default(x, descriptor='index'):
    return callee(x, descriptor)


def ignored_option(x, weighting='number'):
    if weighting == 'equal':
        w = 0
    else:
        w = 1
    return x * 2


def unused_undocumented(x, verbose=False):
    return x * 2


def unique_inverse_bad(array):
    u, indices, inverse = np.unique(array, return_index=True, return_inverse=True)
    temp = indices.argsort()
    return u[temp], temp[inverse]


def unique_inverse_ok(array):
    u, indices, inverse = np.unique(array, return_index=True, return_inverse=True)
    temp = indices.argsort()
    return u[temp], np.argsort(temp)[inverse]


def mixes_orders(values, means_src):
    uniq, inv_first = unique_inverse_ok(values)
    _, inv_sorted = np.unique(values, return_inverse=True)
    means = np.zeros((len(uniq), 3))
    for i, _ in enumerate(uniq):
        means[i] = np.mean(means_src[inv_first == i], axis=0)
    return means[inv_sorted]


def ordinal_ranks(v):
    order = np.argsort(v)
    r = np.empty(order.size)
    r[order] = np.arange(1, order.size + 1)
    return r


def average_ranks(v):
    return rankdata(v)


def putmask_compacted(a, b):
    sel = a.sum(axis=1) > 0
    vals = a[sel] @ b.T
    out = np.zeros((a.shape[0], b.shape[0]))
    np.putmask(out, np.outer(sel, np.ones(b.shape[0], bool)), vals)
    return out


def counts_like_labels(labels, n):
    out = np.zeros_like(labels)
    for v in np.unique(labels):
        out[labels == v] = np.arange(n)
    return out


def values_like_labels(labels, order):
    out = np.empty_like(labels)
    for i, j in enumerate(order):
        out[i] = labels[j]
    return out


def normalise_in_place(a, b):
    prod = np.einsum('ij,kj->ik', a, b)
    prod /= np.sqrt(np.einsum('ij,ij->i', a, a)).reshape(-1, 1)
    return prod


def normalise_float(a, b):
    prod = -0.5 * np.einsum('ij,kj->ik', a, b)
    prod /= np.sqrt(np.einsum('ij,ij->i', a, a)).reshape(-1, 1)
    return prod


def scale_copy(x):
    out = x.copy()
    for i in range(out.shape[0]):
        out[i] = (out[i] - out[i].min()) / (out[i].max() - out[i].min())
    return out


def clip_copy(x):
    out = x.copy()
    out[out < 0] = 0
    return out


def positions_unsorted(all_labels, labels):
    return np.searchsorted(all_labels, labels)


def positions_sorted(all_labels, labels):
    ref = np.unique(all_labels)
    return np.searchsorted(ref, labels)


def leaky_work_array(n, score):
    theta = np.zeros(n)
    best = []
    for i in range(n - 1):
        theta[i] = 1.0
        theta[i + 1] = -1.0
        best.append(score(theta))
    return best


def accumulator_only(n, score):
    out = np.zeros(n)
    for i in range(n):
        out[i] = score(i)
    return out


def select_within_tolerance(labels, wanted, data):
    keep = np.isclose(labels, wanted)
    return data[keep]


def sanity_within_tolerance(x):
    if np.allclose(x, 0):
        raise ValueError('all zero')
    return x / x.sum()


def store_into_copy(a, rows, cols, v):
    mask = rows > 0
    a[mask][:, cols] = v
    return a


def store_into_view(a, k, v):
    a[k][1:3] = v
    return a


def condensed_remapped(idx, n, values, out):
    row, col = np.triu_indices(len(idx), 1)
    row, col = idx[row], idx[col]
    pos = row * n - row * (row + 1) // 2 + col - row - 1
    out[pos] = values
    return out


def condensed_ordered(n, values, out):
    row, col = np.triu_indices(n, 1)
    pos = n * row - (row * (row + 1)) / 2 + (col - row - 1)
    out[pos.astype(int)] = values
    return out


# ---- LOOP-CARRY
def carried_selection(datasets, noise, work):
    out = []
    for i, ds in enumerate(datasets):
        if not isinstance(noise, float):
            noise = noise[i]
        out.append(work(ds, noise))
    return out


def carried_counter_only(datasets, work):
    out = []
    k = 0
    total = 0.0
    for ds in datasets:
        out.append(work(ds, k))
        k = k + 1
        total = total + ds.sum()
    return out, total


# ---- LOOP-SHADOW
def shadowed_collection(folds, models, fitters, fit):
    res = []
    for fold in folds:
        for model, fitters in zip(models, fitters):
            res.append(fit(fitters, model, fold))
    return res


def fresh_names(folds, models, fitters, fit):
    res = []
    for fold in folds:
        for model, fitter in zip(models, fitters):
            res.append(fit(fitter, model, fold))
    return res


# ---- RUNLEN
def runs_without_closing_sentinel(x):
    change = x[1:] != x[:-1]
    starts = np.flatnonzero(np.r_[True, change])
    return np.diff(starts)


def runs_with_both_sentinels(x):
    obs = np.r_[True, x[1:] != x[:-1], True]
    return np.diff(np.nonzero(obs)[0])


# ---- HALF-FILLED
def half_filled_unordered(n, labels, all_labels, values, out):
    position = np.zeros((n, n), dtype=int)
    position[np.triu_indices(n, 1)] = np.arange(n * (n - 1) // 2)
    pidx = [all_labels.index(x) for x in labels]
    target = position[np.ix_(pidx, pidx)][np.triu_indices(len(pidx), 1)]
    out[target] = values
    return out


def half_filled_sorted(n, mask, values, out):
    position = np.zeros((n, n), dtype=int)
    position[np.triu_indices(n, 1)] = np.arange(n * (n - 1) // 2)
    keep = np.flatnonzero(mask)
    target = position[np.ix_(keep, keep)][np.triu_indices(len(keep), 1)]
    out[target] = values
    return out


# ---- MASK-WEIGHT
def group_means_by_weights(x, inverse, n_groups):
    member = inverse[np.newaxis, :] == np.arange(n_groups)[:, np.newaxis]
    counts = member.sum(axis=1)
    return (member.astype(float) @ x) / counts[:, np.newaxis]


def group_means_by_selection(x, inverse, n_groups):
    out = np.empty((n_groups, x.shape[1]))
    for k in range(n_groups):
        out[k] = x[inverse == k].mean(axis=0)
    return out


# ---- TRI
def ldl_factor_as_triangular(E, b):
    import scipy.linalg as sl
    L_E, D_E, _ = sl.ldl(E)
    D_E = np.sqrt(D_E)
    E_chol = L_E @ D_E
    return sl.solve_triangular(E_chol, b, lower=True)


def cholesky_factor_as_triangular(E, b):
    import scipy.linalg as sl
    c = np.linalg.cholesky(E)
    return sl.solve_triangular(c, b, lower=True)


# ---- LOSSY-GUARD
def discard_on_diagonal_only(x, sigma_k=None):
    if sigma_k is not None:
        variances = np.diag(sigma_k) if sigma_k.ndim >= 2 else sigma_k
        if np.all(variances == variances[0]):
            sigma_k = None
    return x if sigma_k is None else x @ sigma_k


def discard_on_whole_test(x, sigma_k=None):
    if sigma_k is not None and np.all(sigma_k == np.eye(len(sigma_k)) * sigma_k[0, 0]):
        sigma_k = None
    return x if sigma_k is None else x @ sigma_k


# ---- STALE-DEFAULT
def flag_before_default(ds, method, cv_descriptor=None):
    crossval = 0 if cv_descriptor is None else 1
    if method == 'cv':
        if cv_descriptor is None:
            cv_descriptor = 'index'
    codes = np.unique(ds[cv_descriptor], return_inverse=True)[1]
    return kernel(ds, codes, crossval)


def flag_after_default(ds, method, cv_descriptor=None):
    if method == 'cv':
        if cv_descriptor is None:
            cv_descriptor = 'index'
    crossval = 0 if cv_descriptor is None else 1
    codes = np.unique(ds[cv_descriptor], return_inverse=True)[1]
    return kernel(ds, codes, crossval)


def kernel(ds, codes, crossval):
    return ds, codes, crossval


# ---- NAME-KEY
def memo_by_name(models, theta, samples, score):
    predictions = {m.name: m.predict(theta[j]) for j, m in enumerate(models)}
    return [[score(predictions[m.name], s) for m in models] for s in samples]


def memo_by_position(models, theta, samples, score):
    predictions = [m.predict(theta[j]) for j, m in enumerate(models)]
    return [[score(predictions[j], s) for j, m in enumerate(models)] for s in samples]


# ---- LATE-BIND
def closures_called_after_loop(n, minimise, loss):
    todo = []
    for i_pair in range(n):
        def loss_opt(w):
            return loss(i_pair, w)
        todo.append(loss_opt)
    return [minimise(fn) for fn in todo]


def closures_called_in_loop(n, minimise, loss):
    out = []
    for i_pair in range(n):
        def loss_opt(w):
            return loss(i_pair, w)
        out.append(minimise(loss_opt))
    return out


# ---- OR-FALSY
def table_with_falsy_entry(weighting):
    return {'equal': 0, 'number': 1}.get(weighting) or 1


def table_without_falsy_entry(weighting):
    return {'equal': 1, 'number': 2}.get(weighting) or 2
