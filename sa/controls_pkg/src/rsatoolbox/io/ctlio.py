"""Positive control for the strip() misuse rule.  Never imported, only parsed."""


def find_entity(entity, segment):
    prefix = f'{entity}-'
    if segment.startswith(prefix):
        return segment.lstrip(prefix)
    return None


def tidy(line):
    return line.strip(' \n')
