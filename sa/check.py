"""CLI: python -m sa.check <Cnn> [--tier quick|thorough] [--root /repo] [--replay file]

exit 0: every decided obligation holds (known findings are printed as KNOWN-FINDING lines)
exit 1: a violation not listed in known_findings.json (VIOLATION property=<id> replay=<path>)
exit 2: ANALYSIS-ERROR - the analysis could not be carried out soundly (vanished anchor, parse failure,
        instance count below the hand-confirmed floor, internal error). Never a silent pass.
"""
from __future__ import annotations
import argparse
import importlib
import json
import os
import sys
import time
import traceback

from .model import Program, AnalysisError
from .report import (Obligations, load_known, write_evidence, write_replay, VIOLATED, DISCHARGED, UNDECIDED,
                     NOTE, VERIF)

PROPS = ['C%02d' % i for i in range(1, 21)]


class Ctx:
    def __init__(self, root: str, tier: str):
        self.root = root
        self.tier = tier
        self.prog = Program(root)
        self._dep = None
        self._heap = None
        self._pyx = None

    @property
    def dep(self):
        if self._dep is None:
            from .flow import DepEngine
            self._dep = DepEngine(self.prog)
            self.prog._dep_engine = self._dep      # lets binding helpers expand **kwargs through reaching definitions
        return self._dep

    @property
    def heap(self):
        if self._heap is None:
            from .heap import HeapEngine
            self._heap = HeapEngine(self.prog)
        return self._heap

    @property
    def pyx(self):
        if self._pyx is None:
            from .pyx import load_pyx
            self._pyx = load_pyx(self.prog)
        return self._pyx


def run_property(prop: str, root: str, tier: str, seed: int, evidence_dir=None, quiet=False, only_key=None):
    t0 = time.time()
    mod = importlib.import_module('sa.props.' + prop.lower())
    ctx = Ctx(root, tier)
    obs = Obligations(prop)
    obs.analysed['tree_digest'] = ctx.prog.digest[:16]
    obs.analysed['modules_parsed'] = len(ctx.prog.modules)
    obs.analysed['functions_indexed'] = len(ctx.prog.functions)
    mod.run(ctx, obs)
    if ctx._dep is not None:
        obs.analysed['dependence_summaries'] = ctx._dep.evaluations
        obs.analysed['dependence_rounds'] = ctx._dep.rounds
    extra = {}
    if tier == 'thorough':
        from .thorough import sweep, selftest_summary
        extra.update(sweep(ctx, obs, prop))
        if hasattr(mod, 'thorough'):
            extra.update(mod.thorough(ctx, obs) or {})
        if os.environ.get('SA_NO_SELFTEST') != '1':
            extra.update(selftest_summary(prop, root, seed))
    floor_errors = []
    floor = getattr(mod, 'FLOOR', 1)
    # floors guard against a rule that no longer MATCHES any site (vanished anchors -> vacuous pass).  An instance that was found
    # but could not be decided (undecided: the idiom changed) still counts as matched - it is reported as undecided, not hidden.
    from .report import UNDECIDED
    n_decided = sum(1 for o in obs.items if o.verdict in (DISCHARGED, VIOLATED, UNDECIDED))
    if n_decided < floor:
        floor_errors.append(f'{prop}: only {n_decided} obligations instantiated, floor is {floor} '
                            f'(rule instances vanished - the check would pass vacuously)')
    rule_floors = getattr(mod, 'RULE_FLOORS', {})
    for rule, fl in rule_floors.items():
        n = sum(1 for o in obs.items if o.rule == rule and o.verdict in (DISCHARGED, VIOLATED, UNDECIDED))
        if n < fl:
            floor_errors.append(f'{prop}: rule {rule} matched {n} instances, floor is {fl}')
    for key, fl in getattr(mod, 'ANALYSED_FLOORS', {}).items():
        if int(obs.analysed.get(key, 0)) < fl:
            floor_errors.append(f'{prop}: analysed[{key}] = {obs.analysed.get(key, 0)}, floor is {fl}')
    known, fixed = load_known()
    known_hits, new_viol = [], []
    for o in obs.items:
        if o.verdict != VIOLATED:
            continue
        if only_key is not None and o.key() != only_key:
            continue
        if o.key() in known or _moved_known(o, known):
            known_hits.append(o)
        else:
            new_viol.append(o)
    # a definite violation is reported even when instance counts dropped (the edit that broke the clause may also
    # have removed sibling instances); without any violation a count below the hand-confirmed floor is an analysis
    # error (exit 2), never a silent pass
    if floor_errors and not new_viol:
        raise AnalysisError('; '.join(floor_errors))
    wall = time.time() - t0
    write_evidence(prop, tier, seed, obs, known_hits, new_viol, wall,
                   getattr(mod, 'EXPLANATION', ''), getattr(mod, 'ASSUMPTIONS', []), extra, evidence_dir)
    return obs, known_hits, new_viol, wall


def _is_new_function(q: str) -> bool:
    """q is a module-level function or a method of a class that does not exist in the pinned tree (contracts/functions.json)"""
    from .inline import frozen_functions
    fr = frozen_functions()
    parts = q.split('.')
    # module.function | module.Class.method | module.function.nested - only when the module itself is in the table
    for cut in (1, 2):
        if len(parts) > cut:
            mod = '.'.join(parts[:-cut])
            if mod in fr and not mod.startswith('<'):
                rest = parts[-cut:]
                if cut == 1:
                    return rest[0] not in fr[mod]
                return rest[0] not in fr.get('<classes>', {}).get(mod, []) and rest[0] not in fr[mod]
    return False


def _moved_known(o, known) -> bool:
    """A recorded finding whose construct now sits in a NEW private helper / class (a refactoring moved the statement): still the
    same finding, identified by property, rule and construct; anything in a function of the pinned tree is matched exactly."""
    if not _is_new_function(o.func):
        return False
    return any(k[0] == o.prop and k[1] == o.rule and k[3] == o.construct for k in known)


def main(argv=None):
    ap = argparse.ArgumentParser()
    ap.add_argument('prop')
    ap.add_argument('--tier', default=os.environ.get('VERIF_TIER', 'quick'), choices=['quick', 'thorough'])
    ap.add_argument('--root', default='/repo')
    ap.add_argument('--replay', default=None)
    ap.add_argument('--evidence-dir', default=None)
    ap.add_argument('--verbose', '-v', action='store_true')
    a = ap.parse_args(argv)
    seed = int(os.environ.get('VERIF_SEED', '0') or 0)
    prop = a.prop.upper()
    only_key = None
    if a.replay:
        with open(a.replay) as fh:
            r = json.load(fh)
        prop = r['property']
        only_key = (r['property'], r['rule'], r['function'], r['construct'])
    if prop not in PROPS:
        print(f'ANALYSIS-ERROR unknown property {prop}')
        return 2
    try:
        obs, known_hits, new_viol, wall = run_property(prop, a.root, a.tier, seed, a.evidence_dir,
                                                       only_key=only_key)
    except AnalysisError as e:
        print(f'ANALYSIS-ERROR property={prop} {e}')
        return 2
    except Exception:
        traceback.print_exc()
        print(f'ANALYSIS-ERROR property={prop} internal error (see traceback)')
        return 2
    nd = obs.count(DISCHARGED)
    print(f'{prop} tier={a.tier} root={a.root}: {len(obs.items)} obligations, {nd} discharged, '
          f'{obs.count(UNDECIDED)} undecided, {len(known_hits)} known findings, {len(new_viol)} new violations, '
          f'{obs.count(NOTE)} notes [{wall:.1f}s]')
    if a.verbose:
        for o in obs.items:
            print(f'  [{o.verdict:10s}] {o.rule:14s} {o.func} :: {o.construct}  {o.where}  {o.detail[:160]}')
    else:
        for o in obs.items:
            if o.verdict == NOTE:
                print(f'NOTE: property={prop} {o.line()} {o.where} {o.detail[:200]}')
    for o in known_hits:
        print(f'KNOWN-FINDING: property={prop} {o.line()} [{o.where}] {o.detail[:300]}')
    for o in new_viol:
        path = write_replay(o, a.root)
        print(f'VIOLATION property={prop} replay={path}')
        print(f'  rule={o.rule} site={o.func} at {o.where}\n  construct: {o.construct}\n  {o.detail}')
    return 1 if new_viol else 0


if __name__ == '__main__':
    sys.exit(main())
