"""Positive controls: every rule whose expected count on a healthy tree is zero must fire on an embedded sample."""
import os
from .report import Obligations, VIOLATED

HERE = os.path.dirname(os.path.abspath(__file__))


def run_controls():
    from .check import Ctx
    from .rules.common import fwd_list, par_chain, acc_named, sig_conformance, dead_stores
    ctx = Ctx(os.path.join(HERE, 'controls_pkg'), 'quick')
    bad = []
    n = 0

    def expect(name, obs, rule, construct_part, want=True):
        nonlocal n
        n += 1
        hit = any(o.verdict == VIOLATED and o.rule == rule and construct_part in o.construct for o in obs.items)
        if hit != want:
            bad.append(f'{name}: rule {rule} {"did not fire" if want else "fired"} on `{construct_part}`')

    o = Obligations('CTL')
    fwd_list(ctx, o, 'ctl.dispatcher', {'noise'})
    expect('fwd-list', o, 'FWD-list', 'option flag reaches')
    expect('fwd-list-ok', o, 'FWD-list', 'option scale reaches', want=False)
    expect('fwd-rec', o, 'FWD-list/rec', 'forwards flag')
    o = Obligations('CTL')
    par_chain(ctx, o, 'ctl.dispatcher', 'noise')
    expect('par', o, 'PAR', 'agree on `scale`')
    o = Obligations('CTL')
    acc_named(ctx, o, 'ctl.last_only')
    expect('acc', o, 'ACC', '`r`')
    o = Obligations('CTL')
    acc_named(ctx, o, 'ctl.accumulates')
    expect('acc-ok', o, 'ACC', '`r`', want=False)
    expect('acc-ok2', o, 'ACC', '`total`', want=False)
    o = Obligations('CTL')
    sig_conformance(ctx, o, ['ctl.'])
    expect('sig', o, 'SIG', 'ctl.helper')
    o = Obligations('CTL')
    dead_stores(ctx, o, 'ctl.dead')
    expect('dead', o, 'DEAD', '`y`')
    from .rules import sweeps, order, ranks
    o = Obligations('CTL')
    sweeps.fwd_default(ctx, o, ['ctl2.'])
    expect('fwd-default', o, 'FWD-default', '`descriptor` reaches ctl2.callee')
    if any(x.verdict == VIOLATED and x.func == 'ctl2.keeps_default' for x in o.items):
        bad.append('fwd-default fired on a call that forwards the parameter')
    n += 1
    o = Obligations('CTL')
    sweeps.par_live(ctx, o, ['ctl2.'])
    expect('par-live', o, 'PAR-live', 'parameter `weighting`')
    expect('par-live-undocumented', o, 'PAR-live', 'parameter `verbose`', want=False)
    o = Obligations('CTL')
    order.report(ctx, o, ['ctl2.'])
    expect('ord-ret', o, 'ORD-RET', 'values returned together')
    expect('ord-index', o, 'ORD-INDEX', 'means[inv_sorted]')
    if any(x.verdict == VIOLATED and x.func == 'ctl2.unique_inverse_ok' for x in o.items):
        bad.append('ORD fired on the correct inverse-permutation idiom')
    n += 1
    o = Obligations('CTL')
    ranks.tie_averaged(ctx, o, 'ctl2.ordinal_ranks')
    expect('rank-ordinal', o, 'RANK', 'tie-averaged')
    o = Obligations('CTL')
    ranks.tie_averaged(ctx, o, 'ctl2.average_ranks')
    expect('rank-average', o, 'RANK', 'tie-averaged', want=False)
    from .props.c20 import strip_misuse
    o = Obligations('CTL')
    strip_misuse(ctx, o)
    expect('strip-prefix', o, 'API', 'segment.lstrip(prefix)')
    expect('strip-charset', o, 'API', "line.strip(' \\n')", want=False)
    o = Obligations('CTL')
    sweeps.dtype_inherit(ctx, o, ['ctl2.'])
    expect('dtype-counter', o, 'DTYPE', 'buffer `out` typed like `labels`')
    expect('dtype-copy-quotient', o, 'DTYPE', 'buffer `out` typed like `x`')
    if any(x.verdict == VIOLATED and x.func == 'ctl2.clip_copy' for x in o.items):
        bad.append('DTYPE fired on a copy that only receives constants')
    if any(x.verdict == VIOLATED and x.func == 'ctl2.values_like_labels' for x in o.items):
        bad.append('DTYPE fired on a buffer that only receives elements of its source')
    n += 1
    o = Obligations('CTL')
    sweeps.inplace_division(ctx, o, ['ctl2.'])
    expect('inplace-div', o, 'INPLACE-DIV', 'prod /= ')
    if any(x.verdict == VIOLATED and x.func == 'ctl2.normalise_float' for x in o.items):
        bad.append('INPLACE-DIV fired on a float target')
    n += 1
    o = Obligations('CTL')
    sweeps.sorted_argument(ctx, o, ['ctl2.'])
    expect('sorted-arg', o, 'SORTED-ARG', 'np.searchsorted(all_labels')
    expect('sorted-arg-ok', o, 'SORTED-ARG', 'np.searchsorted(ref', want=False)
    o = Obligations('CTL')
    sweeps.loop_state(ctx, o, ['ctl2.'])
    expect('loop-state', o, 'LOOP-STATE', '`theta` does not carry')
    expect('loop-state-acc', o, 'LOOP-STATE', '`out` does not carry', want=False)
    from .props.c03 import putmask_values
    o = Obligations('CTL')
    putmask_values(ctx, o, prefix='ctl2.')
    expect('putmask', o, 'API', 'np.putmask(out')
    o = Obligations('CTL')
    sweeps.tolerance_selection(ctx, o, ['ctl2.'])
    expect('tol-select', o, 'TOL', 'matched by equality')
    if any(x.verdict == VIOLATED and x.func == 'ctl2.sanity_within_tolerance' for x in o.items):
        bad.append('TOL fired on a tolerance test that only feeds a decision')
    n += 1
    o = Obligations('CTL')
    sweeps.lost_store(ctx, o, ['ctl2.'])
    expect('lost-store', o, 'LOST-STORE', 'a store reaches the array')
    if any(x.verdict == VIOLATED and x.func == 'ctl2.store_into_view' for x in o.items):
        bad.append('LOST-STORE fired on a store through a view')
    n += 1
    from .rules.condensed import condensed_index
    o = Obligations('CTL')
    condensed_index(ctx, o, ['ctl2.'], sweeps._in_scope)
    expect('condensed', o, 'CONDENSED', 'is used for ordered pairs')
    if any(x.verdict == VIOLATED and x.func == 'ctl2.condensed_ordered' for x in o.items):
        bad.append('CONDENSED fired on pairs taken straight from triu_indices')
    n += 1
    from .rules.condensed import half_filled_lookup
    for name, fn, rule, part, bad_fn, ok_fn in (
            ('loop-carry', sweeps.loop_carry, 'LOOP-CARRY', 'computes each item from that item alone', 'ctl2.carried_selection', 'ctl2.carried_counter_only'),
            ('loop-shadow', sweeps.loop_shadow, 'LOOP-SHADOW', 'is not replaced by one of its elements', 'ctl2.shadowed_collection', 'ctl2.fresh_names'),
            ('runlen', sweeps.run_lengths, 'RUNLEN', 'sentinel at both ends', 'ctl2.runs_without_closing_sentinel', 'ctl2.runs_with_both_sentinels'),
            ('mask-weight', sweeps.mask_as_weight, 'MASK-WEIGHT', 'rows selected for the group', 'ctl2.group_means_by_weights', 'ctl2.group_means_by_selection'),
            ('tri', sweeps.triangular_solve, 'TRI', 'triangular by construction', 'ctl2.ldl_factor_as_triangular', 'ctl2.cholesky_factor_as_triangular'),
            ('half-filled', lambda c, o_, p: half_filled_lookup(c, o_, p, sweeps._in_scope), 'HALF-FILLED', 'uses ascending indices only',
             'ctl2.half_filled_unordered', 'ctl2.half_filled_sorted'),
            ('lossy-guard', sweeps.lossy_guard, 'LOSSY-GUARD', 'is only discarded on a test that looks at all of it', 'ctl2.discard_on_diagonal_only',
             'ctl2.discard_on_whole_test'),
            ('stale-default', sweeps.stale_default, 'STALE-DEFAULT', 'says whether the', 'ctl2.flag_before_default', 'ctl2.flag_after_default'),
            ('name-key', sweeps.name_keyed_memo, 'NAME-KEY', 'has one entry per item', 'ctl2.memo_by_name', 'ctl2.memo_by_position'),
            ('or-falsy', sweeps.or_default_on_table, 'OR-FALSY', 'every entry of the table can be returned', 'ctl2.table_with_falsy_entry',
             'ctl2.table_without_falsy_entry'),
            ('late-bind', sweeps.late_binding, 'LATE-BIND', 'does not outlive the iteration', 'ctl2.closures_called_after_loop',
             'ctl2.closures_called_in_loop')):
        o = Obligations('CTL')
        fn(ctx, o, ['ctl2.'])
        n += 2
        if not any(x.verdict == VIOLATED and x.rule == rule and x.func == bad_fn and part in x.construct for x in o.items):
            bad.append(f'{name}: rule {rule} did not fire on {bad_fn}')
        if any(x.verdict == VIOLATED and x.rule == rule and x.func == ok_fn for x in o.items):
            bad.append(f'{name}: rule {rule} fired on the correct twin {ok_fn}')
    for extra in _extra_controls:
        extra(ctx, expect)
    return n, bad


_extra_controls = []
