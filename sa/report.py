"""Obligations, known-findings matching, evidence and replay files."""
from __future__ import annotations
import json
import os
import time
from dataclasses import dataclass, field, asdict
from typing import Dict, List, Optional

VERIF = os.path.dirname(os.path.dirname(os.path.abspath(__file__)))

DISCHARGED, VIOLATED, UNDECIDED, NOTE = 'discharged', 'violated', 'undecided', 'note'


@dataclass
class Ob:
    prop: str
    rule: str          # rule template id (FWD, ACC, PURE ...) optionally with a clause suffix
    func: str          # qualified function (site)
    construct: str     # normalised construct / instance key (stable under reformatting and line moves)
    verdict: str
    detail: str = ''
    where: str = ''    # file:line (diagnostic only - never part of the key)

    def key(self):
        return (self.prop, self.rule, self.func, self.construct)

    def line(self):
        return f'{self.rule} {self.func} :: {self.construct}'


class Obligations:
    def __init__(self, prop: str):
        self.prop = prop
        self.items: List[Ob] = []
        self.analysed: Dict[str, object] = {}
        self.exceptions: List[str] = []

    def add(self, rule, func, construct, verdict, detail='', where=''):
        ob = Ob(self.prop, rule, func, construct, verdict, detail, where)
        self.items.append(ob)
        return ob

    def ok(self, rule, func, construct, detail='', where=''):
        return self.add(rule, func, construct, DISCHARGED, detail, where)

    def bad(self, rule, func, construct, detail='', where=''):
        return self.add(rule, func, construct, VIOLATED, detail, where)

    def unk(self, rule, func, construct, detail='', where=''):
        return self.add(rule, func, construct, UNDECIDED, detail, where)

    def note(self, rule, func, construct, detail='', where=''):
        return self.add(rule, func, construct, NOTE, detail, where)

    def check(self, cond, rule, func, construct, detail_bad='', detail_ok='', where=''):
        if cond:
            return self.ok(rule, func, construct, detail_ok, where)
        return self.bad(rule, func, construct, detail_bad, where)

    def soft(self, cond, rule, func, construct, detail_bad='', detail_ok='', where=''):
        """pattern-based obligation: a match discharges it, a mismatch is only `undecided` - the pattern is one way of
        writing the construct, so its absence is no proof of a defect (never an alarm from a frozen fragment)"""
        if cond:
            return self.ok(rule, func, construct, detail_ok, where)
        return self.unk(rule, func, construct, 'pattern not recognised: ' + detail_bad, where)

    def count(self, verdict):
        return sum(1 for o in self.items if o.verdict == verdict)


def load_known(path: Optional[str] = None):
    path = path or os.path.join(VERIF, 'known_findings.json')
    if not os.path.exists(path):
        return {}, []
    with open(path) as fh:
        data = json.load(fh)
    known = {}
    for f in data.get('findings', []):
        known[(f['property'], f['rule'], f['function'], f['construct'])] = f
    return known, data.get('fixed', [])


def write_replay(ob: Ob, root: str) -> str:
    d = os.path.join(VERIF, 'replay')
    os.makedirs(d, exist_ok=True)
    import hashlib
    h = hashlib.sha1('|'.join(ob.key()).encode()).hexdigest()[:12]
    path = os.path.join(d, f'{ob.prop}_{ob.rule.replace("/", "_")}_{h}.json')
    with open(path, 'w') as fh:
        json.dump({'property': ob.prop, 'rule': ob.rule, 'function': ob.func, 'construct': ob.construct,
                   'detail': ob.detail, 'where': ob.where, 'root': root,
                   'replay_cmd': f'cd /verif && /venv/bin/python -m sa.check {ob.prop} --replay {path}'},
                  fh, indent=1)
    return path


def write_evidence(prop: str, tier: str, seed: int, obs: Obligations, known_hits: List[Ob], new_viol: List[Ob],
                   wall: float, explanation: str, assumptions: List[str], extra: Optional[dict] = None,
                   evidence_dir: Optional[str] = None):
    d = evidence_dir or os.path.join(VERIF, 'evidence')
    os.makedirs(d, exist_ok=True)
    items = obs.items
    decided = [o for o in items if o.verdict in (DISCHARGED, VIOLATED)]
    distinct = len({o.key() for o in decided})
    samples = []
    seen_rules = set()
    for o in items:
        if o.rule in seen_rules and len(samples) >= 12:
            continue
        if o.rule not in seen_rules or len(samples) < 6:
            seen_rules.add(o.rule)
            samples.append({'rule': o.rule, 'site': o.func, 'construct': o.construct, 'verdict': o.verdict,
                            'detail': o.detail[:400], 'where': o.where})
        if len(samples) >= 24:
            break
    per_rule: Dict[str, Dict[str, int]] = {}
    for o in items:
        per_rule.setdefault(o.rule, {}).setdefault(o.verdict, 0)
        per_rule[o.rule][o.verdict] += 1
    cov = {
        'explanation': explanation,
        'evaluations': len(items),
        'distinct_nontrivial': distinct,
        'rule': 'one evaluation = one obligation (rule instance at a named construct of /repo) evaluated on this run; '
                'distinct_nontrivial counts distinct (rule, function, construct) keys that were decided '
                '(discharged or violated); undecided and informational notes are not counted',
        'obligations': len([o for o in items if o.verdict != NOTE]),
        'discharged': obs.count(DISCHARGED),
        'undecided': obs.count(UNDECIDED),
        'violated_known': len(known_hits),
        'violated_new': len(new_viol),
        'notes': obs.count(NOTE),
        'per_rule': per_rule,
        'samples': samples,
        'analysed': obs.analysed,
        'exceptions_in_force': obs.exceptions,
        'checker_cmd': f'/venv/bin/python -m sa.check {prop} --tier {tier}',
        'trusted_base': ['python ast', 'sa/ tables of numpy view/copy + mutator semantics', 'callee resolution (sa/model.py)'],
        'known_findings': [o.line() for o in known_hits],
        'all_obligations': [{'rule': o.rule, 'site': o.func, 'construct': o.construct, 'verdict': o.verdict}
                            for o in items][:400],
    }
    if extra:
        cov.update(extra)
    ev = {
        'property_id': prop,
        'tier': tier,
        'seed': seed,
        'level': 'other',
        'coverage': cov,
        'assumptions': assumptions,
        'wall_s': round(wall, 3),
        'violations': len(new_viol),
    }
    path = os.path.join(d, f'{prop}.json')
    with open(path, 'w') as fh:
        json.dump(ev, fh, indent=1, sort_keys=False)
    return path
