"""Static analysis of rsatoolbox for properties C01-C20 (see /verif/DESIGN.md).

Nothing from rsatoolbox is imported or executed by this package; every verdict
is computed from the source files under <root>/src/rsatoolbox on each run.
"""
