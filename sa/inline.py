"""Helper inlining (pre-pass on the parsed modules).

The rules are anchored in the functions of the pinned tree (frozen in contracts/functions.json).  When a later change EXTRACTS part
of such a function into a new private helper of the same module, the construct a rule looks for moves out of its anchor.  This
pre-pass undoes exactly that: every module-level function that is NOT in the frozen table, and that is a single-exit helper
(plain parameters, no yield, one `return` as its last statement or none), is inlined at its call sites in the same module:

        x = _helper(a, k=b)          ->        __h1_p = a ; __h1_q = b ; <body with locals renamed __h1_*> ; x = <return expr>

Inlined statements keep the line number of the calling statement.  Helpers with early returns, generators, varargs, or calls
inside comprehensions / lambdas / while-tests are left alone (the rules then see an opaque call: undecided, never an alarm).
The helper definitions stay in the module and are analysed like any other function."""
from __future__ import annotations
import ast
import copy
import json
import os
from typing import Dict, List, Optional, Set, Tuple

_HERE = os.path.dirname(os.path.dirname(os.path.abspath(__file__)))
_FROZEN: Optional[Dict[str, List[str]]] = None
DEFAULTED: List = []      # (helper, parameters left at their default, line, call node) of the last expansion - consumed by the caller


def frozen_functions() -> Dict[str, List[str]]:
    global _FROZEN
    if _FROZEN is None:
        p = os.path.join(_HERE, 'contracts', 'functions.json')
        _FROZEN = json.load(open(p)) if os.path.exists(p) else {}
    return _FROZEN


def _simple_generator(fn: ast.FunctionDef) -> bool:
    """<statements>; for T in IT: <statements>; yield E      (one yield, last statement of the only top-level loop)"""
    a = fn.args
    if a.vararg or a.kwarg or a.posonlyargs:
        return False
    body = list(fn.body)
    if body and isinstance(body[0], ast.Expr) and isinstance(body[0].value, ast.Constant) and isinstance(body[0].value.value, str):
        body = body[1:]
    if not body or not isinstance(body[-1], ast.For) or body[-1].orelse:
        return False
    lp = body[-1]
    ys = [n for n in ast.walk(fn) if isinstance(n, (ast.Yield, ast.YieldFrom))]
    if len(ys) != 1 or not isinstance(ys[0], ast.Yield) or ys[0].value is None:
        return False
    last = lp.body[-1]
    if not (isinstance(last, ast.Expr) and last.value is ys[0]):
        return False
    if any(isinstance(n, (ast.Return, ast.Global, ast.Nonlocal, ast.FunctionDef, ast.Lambda, ast.Break, ast.Continue)) and n is not fn
           for n in ast.walk(fn)):
        return False
    return True


def _contains_return(stmts) -> bool:
    return any(isinstance(n, ast.Return) for s in stmts for n in ast.walk(s))


def _always_returns(stmts) -> bool:
    for s in stmts:
        if isinstance(s, (ast.Return, ast.Raise)):
            return True
        if isinstance(s, ast.If) and s.orelse and _always_returns(s.body) and _always_returns(s.orelse):
            return True
    return False


def _to_single_exit(stmts, rname='__ret'):
    """rewrite guard-clause style early returns (returns only in `if` tails, never inside loops / try / with) into assignments to
    `rname` on every path; returns the new statement list or None when the shape is not supported"""
    out = []
    for i, s in enumerate(stmts):
        if isinstance(s, ast.Return):
            val = s.value if s.value is not None else ast.Constant(value=None)
            return out + [ast.copy_location(ast.Assign(targets=[ast.Name(id=rname, ctx=ast.Store())], value=val), s)]
        if isinstance(s, ast.If) and _contains_return([s]):
            body_c = _to_single_exit(s.body, rname) if _contains_return(s.body) else list(s.body)
            else_c = _to_single_exit(s.orelse, rname) if _contains_return(s.orelse) else list(s.orelse)
            if body_c is None or else_c is None:
                return None
            rest = _to_single_exit(stmts[i + 1:], rname)
            if rest is None:
                return None
            b_ret, e_ret = _always_returns(s.body), _always_returns(s.orelse)
            if _contains_return(s.body) and not b_ret:
                return None
            if _contains_return(s.orelse) and not e_ret:
                return None
            if b_ret and e_ret:
                new = ast.If(test=s.test, body=body_c, orelse=else_c)
            elif b_ret:
                new = ast.If(test=s.test, body=body_c, orelse=else_c + rest)
            else:
                new = ast.If(test=s.test, body=body_c + rest, orelse=else_c)
            return out + [ast.copy_location(new, s)]
        if _contains_return([s]):
            return None          # a return inside a loop / try / with
        out.append(s)
    # fell off the end: returns None
    return out + [ast.Assign(targets=[ast.Name(id=rname, ctx=ast.Store())], value=ast.Constant(value=None))]


def _normalised_helper(fn: ast.FunctionDef) -> Optional[ast.FunctionDef]:
    """fn itself when it is single-exit, a rewritten copy when its early returns can be folded, else None"""
    if _single_exit(fn):
        return fn
    a = fn.args
    if a.vararg or a.kwarg or a.posonlyargs:
        return None
    for n in ast.walk(fn):
        if isinstance(n, (ast.Yield, ast.YieldFrom, ast.Global, ast.Nonlocal, ast.AsyncFunctionDef)):
            return None
        if isinstance(n, (ast.FunctionDef, ast.Lambda)) and n is not fn:
            return None
    body = list(fn.body)
    doc = []
    if body and isinstance(body[0], ast.Expr) and isinstance(body[0].value, ast.Constant) and isinstance(body[0].value.value, str):
        doc, body = body[:1], body[1:]
    conv = _to_single_exit(copy.deepcopy(body))
    if conv is None:
        return None
    new = copy.deepcopy(fn)
    new.body = doc + conv + [ast.Return(value=ast.Name(id='__ret', ctx=ast.Load()))]
    ast.fix_missing_locations(new)
    return new


def _single_exit(fn: ast.FunctionDef) -> bool:
    a = fn.args
    if a.vararg or a.kwarg or a.posonlyargs:
        return False
    rets = [n for n in ast.walk(fn) if isinstance(n, ast.Return)]
    for n in ast.walk(fn):
        if isinstance(n, (ast.Yield, ast.YieldFrom, ast.Global, ast.Nonlocal, ast.AsyncFunctionDef)):
            return False
        if isinstance(n, (ast.FunctionDef, ast.Lambda)) and n is not fn:
            return False
    if len(rets) > 1:
        return False
    if rets and fn.body[-1] is not rets[0]:
        return False
    return True


class _Rename(ast.NodeTransformer):
    def __init__(self, mapping):
        self.m = mapping

    def visit_Name(self, node):
        if node.id in self.m:
            return ast.copy_location(ast.Name(id=self.m[node.id], ctx=node.ctx), node)
        return node


def _locals_of(fn: ast.FunctionDef) -> Set[str]:
    out = {a.arg for a in fn.args.args + fn.args.kwonlyargs}
    for n in ast.walk(fn):
        if isinstance(n, ast.Name) and isinstance(n.ctx, (ast.Store, ast.Del)):
            out.add(n.id)
    return out


def _split_tuple_result(body, ret: ast.Name):
    """A folded multi-exit helper leaves `__ret = (a, b)` in every arm and returns `__ret`.  When every definition of the result
    variable is a tuple display of one arity, the components get their own variables: `__ret_0 = a; __ret_1 = b`, result
    `(__ret_0, __ret_1)` - so that `x, y = <result>` binds x to the a's and y to the b's instead of to "some element"."""
    name = ret.id
    defs = [n for st in body for n in ast.walk(st) if isinstance(n, ast.Assign) and len(n.targets) == 1
            and isinstance(n.targets[0], ast.Name) and n.targets[0].id == name]
    other_stores = [n for st in body for n in ast.walk(st) if isinstance(n, ast.Name) and n.id == name and isinstance(n.ctx, ast.Store)]
    loads = [n for st in body for n in ast.walk(st) if isinstance(n, ast.Name) and n.id == name and isinstance(n.ctx, ast.Load)]
    if not defs or len(other_stores) != len(defs) or loads:
        return body, ret
    if not all(isinstance(d.value, ast.Tuple) and not any(isinstance(x, ast.Starred) for x in d.value.elts) for d in defs):
        return body, ret
    arity = {len(d.value.elts) for d in defs}
    if len(arity) != 1 or next(iter(arity)) < 2:
        return body, ret
    n = next(iter(arity))

    class Split(ast.NodeTransformer):
        def visit_Assign(self, node):
            if node in defs:
                out = []
                for i, e in enumerate(node.value.elts):
                    a = ast.Assign(targets=[ast.Name(id=f'{name}_{i}', ctx=ast.Store())], value=e, type_comment=None)
                    out.append(ast.copy_location(a, node))
                return out
            return node

    def run(stmts):
        out = []
        for st in stmts:
            r = Split().visit(st)
            out += r if isinstance(r, list) else [r]
        return out
    body = run(body)
    for st in body:
        ast.fix_missing_locations(st)
    new_ret = ast.Tuple(elts=[ast.Name(id=f'{name}_{i}', ctx=ast.Load()) for i in range(n)], ctx=ast.Load())
    return body, ast.copy_location(new_ret, ret)


def _is_callable_literal(e) -> bool:
    if isinstance(e, ast.Lambda):
        a = e.args
        return not (a.vararg or a.kwarg or a.kwonlyargs or a.defaults or a.posonlyargs)
    if isinstance(e, ast.Call) and ast.unparse(e.func) in ('partial', 'functools.partial') and e.args \
            and not any(isinstance(x, ast.Starred) for x in e.args) and all(k.arg for k in e.keywords):
        return True
    return False


def _only_called(helper: ast.FunctionDef, p: str) -> bool:
    called = {id(c.func) for c in ast.walk(helper) if isinstance(c, ast.Call) and isinstance(c.func, ast.Name) and c.func.id == p}
    return bool(called) and all(id(n) in called for n in ast.walk(helper) if isinstance(n, ast.Name) and n.id == p)


class _BetaReduce(ast.NodeTransformer):
    """f(args) with f bound to `lambda a, b: E` -> E[a := arg0, b := arg1];  f bound to partial(g, x, k=y) -> g(x, args, k=y)"""

    def __init__(self, callables):
        self.c = callables
        self.failed = False

    def visit_Call(self, node):
        node = self.generic_visit(node)
        if isinstance(node.func, ast.Name) and node.func.id in self.c:
            f = self.c[node.func.id]
            if isinstance(f, ast.Lambda):
                params = [a.arg for a in f.args.args]
                if node.keywords or len(node.args) != len(params) or any(isinstance(x, ast.Starred) for x in node.args):
                    self.failed = True
                    return node
                body = copy.deepcopy(f.body)
                sub = dict(zip(params, node.args))
                # an argument expression is duplicated only when it is a plain name / constant
                for pname, arg in sub.items():
                    uses = sum(1 for n in ast.walk(body) if isinstance(n, ast.Name) and n.id == pname)
                    if uses > 1 and not isinstance(arg, (ast.Name, ast.Constant)):
                        self.failed = True
                        return node

                class S(ast.NodeTransformer):
                    def visit_Name(s_, n):
                        if n.id in sub and isinstance(n.ctx, ast.Load):
                            return ast.copy_location(copy.deepcopy(sub[n.id]), n)
                        return n
                return ast.copy_location(S().visit(body), node)
            # functools.partial(g, *fixed, **fixedkw)
            g = f.args[0]
            new = ast.Call(func=copy.deepcopy(g), args=[copy.deepcopy(x) for x in f.args[1:]] + node.args,
                           keywords=[copy.deepcopy(k) for k in f.keywords] + node.keywords)
            return ast.copy_location(new, node)
        return node


def _is_literal_pack(e) -> bool:
    if isinstance(e, ast.Constant) and e.value is None:
        return True
    return isinstance(e, ast.Tuple) and bool(e.elts) and all(isinstance(x, (ast.Name, ast.Constant)) for x in e.elts)


class _LiteralFolder(ast.NodeTransformer):
    """uses of a parameter that is bound to None / a tuple display: `*p` -> the elements, `p[i]` -> element i, `p is (not) None` -> a
    constant, `if <constant>` -> the live branch"""

    def __init__(self, lit):
        self.lit = lit
        self.failed = False

    def _lit(self, e):
        return self.lit.get(e.id) if isinstance(e, ast.Name) else None

    def visit_Call(self, node):
        new_args = []
        for a in node.args:
            v = self._lit(a.value) if isinstance(a, ast.Starred) else None
            if isinstance(v, ast.Tuple):
                new_args += [copy.deepcopy(x) for x in v.elts]
            else:
                new_args.append(a)
        node.args = new_args
        return self.generic_visit(node)

    def visit_Subscript(self, node):
        v = self._lit(node.value)
        if isinstance(v, ast.Tuple) and isinstance(node.slice, ast.Constant) and isinstance(node.slice.value, int) \
                and -len(v.elts) <= node.slice.value < len(v.elts) and isinstance(node.ctx, ast.Load):
            return ast.copy_location(copy.deepcopy(v.elts[node.slice.value]), node)
        return self.generic_visit(node)

    def visit_Compare(self, node):
        v = self._lit(node.left)
        if v is not None and len(node.ops) == 1 and isinstance(node.ops[0], (ast.Is, ast.IsNot)) \
                and isinstance(node.comparators[0], ast.Constant) and node.comparators[0].value is None:
            is_none = isinstance(v, ast.Constant)
            return ast.copy_location(ast.Constant(value=is_none == isinstance(node.ops[0], ast.Is)), node)
        return self.generic_visit(node)

    def visit_If(self, node):
        node.test = self.visit(node.test)
        if isinstance(node.test, ast.Constant) and isinstance(node.test.value, bool):
            live = node.body if node.test.value else node.orelse
            out = []
            for st in live:
                r = self.visit(st)
                out += r if isinstance(r, list) else [r]
            return out or [ast.copy_location(ast.Pass(), node)]
        node.body = self._stmts(node.body)
        node.orelse = self._stmts(node.orelse)
        return node

    def _stmts(self, stmts):
        out = []
        for st in stmts:
            r = self.visit(st)
            out += r if isinstance(r, list) else [r]
        return out


def _fold_literals(body, literal):
    f = _LiteralFolder(literal)
    out = []
    for st in body:
        r = f.visit(st)
        out += r if isinstance(r, list) else [r]
    return out


def _expand(call: ast.Call, helper: ast.FunctionDef, tag: str, at: ast.stmt):
    """statements to insert before `at`, and the expression that replaces the call (None for procedures); None if the actuals do
    not bind"""
    params = [a.arg for a in helper.args.args]
    defaults = helper.args.defaults
    dmap = {p: d for p, d in zip(params[len(params) - len(defaults):], defaults)}
    for a, d in zip(helper.args.kwonlyargs, helper.args.kw_defaults):
        if d is not None:
            dmap[a.arg] = d
    bound: Dict[str, ast.expr] = {}
    if any(isinstance(x, ast.Starred) for x in call.args) or any(k.arg is None for k in call.keywords):
        return None
    if len(call.args) > len(params):
        return None
    for p, x in zip(params, call.args):
        bound[p] = x
    allp = params + [a.arg for a in helper.args.kwonlyargs]
    for k in call.keywords:
        if k.arg not in allp or k.arg in bound:
            return None
        bound[k.arg] = k.value
    defaulted = []
    for p in allp:
        if p not in bound:
            if p not in dmap:
                return None
            bound[p] = copy.deepcopy(dmap[p])
            defaulted.append(p)
    DEFAULTED.append((helper.name, tuple(defaulted), at.lineno, call))
    # fields of an inlined object (sa/objinline.py) are shared by all its methods: never renamed per call
    mapping = {n: f'__{tag}_{n}' for n in _locals_of(helper) if not n.startswith('__o')}
    stored = {n.id for n in ast.walk(helper) if isinstance(n, ast.Name) and isinstance(n.ctx, (ast.Store, ast.Del))}
    pre: List[ast.stmt] = []
    literal: Dict[str, ast.expr] = {}
    callables: Dict[str, ast.expr] = {}
    for p in allp:
        if isinstance(bound[p], ast.Name) and p not in stored:
            # a parameter that is only read and receives a plain variable: use the caller's variable itself (no alias)
            mapping[p] = bound[p].id
            continue
        if p not in stored and _is_callable_literal(bound[p]) and _only_called(helper, p):
            # a lambda / functools.partial handed to a parameter that is only ever called: beta-reduced below
            callables[mapping[p]] = bound[p]
            continue
        if p not in stored and _is_literal_pack(bound[p]):
            # None / a tuple of plain variables and constants handed to a read-only parameter (`restrict=(descriptor, idx)` used as
            # `*restrict`, `restrict is not None`): substituted and folded below, so that the pieces stay visible
            literal[mapping[p]] = bound[p]
        st = ast.Assign(targets=[ast.Name(id=mapping[p], ctx=ast.Store())], value=bound[p])
        pre.append(st)
    body = copy.deepcopy(helper.body)
    if body and isinstance(body[0], ast.Expr) and isinstance(body[0].value, ast.Constant) and isinstance(body[0].value.value, str):
        body = body[1:]
    ret_expr = None
    if body and isinstance(body[-1], ast.Return):
        ret_expr = body[-1].value
        body = body[:-1]
    rn = _Rename(mapping)
    body = [rn.visit(s) for s in body]
    if ret_expr is not None:
        ret_expr = rn.visit(copy.deepcopy(ret_expr))
    if callables:
        br = _BetaReduce(callables)
        body = [br.visit(s) for s in body]
        if ret_expr is not None:
            ret_expr = br.visit(ret_expr)
        if br.failed:
            DEFAULTED.pop()
            return None
    if literal:
        body = _fold_literals(body, literal)
        if ret_expr is not None:
            ret_expr = _LiteralFolder(literal).visit(ret_expr)
        pre = [st for st in pre if not (isinstance(st, ast.Assign) and isinstance(st.targets[0], ast.Name) and st.targets[0].id in literal
                                        and not any(isinstance(n, ast.Name) and n.id == st.targets[0].id
                                                    for b in body + ([ret_expr] if ret_expr is not None else []) for n in ast.walk(b)))]
    if ret_expr is None:
        ret_expr = ast.Constant(value=None)
    elif isinstance(ret_expr, ast.Name):
        body, ret_expr = _split_tuple_result(body, ret_expr)
    out = pre + body
    for s in out:
        for n in ast.walk(s):
            if hasattr(n, 'lineno') or isinstance(n, (ast.expr, ast.stmt)):
                n.lineno = at.lineno
                n.col_offset = at.col_offset
                n.end_lineno = getattr(at, 'end_lineno', at.lineno)
                n.end_col_offset = getattr(at, 'end_col_offset', at.col_offset)
    for n in ast.walk(ret_expr):
        n.lineno = at.lineno
        n.col_offset = call.col_offset
        n.end_lineno = getattr(at, 'end_lineno', at.lineno)
        n.end_col_offset = call.end_col_offset
    return out, ret_expr


class _Inliner:
    def __init__(self, helpers: Dict[str, ast.FunctionDef], generators: Optional[Dict[str, ast.FunctionDef]] = None):
        self.helpers = helpers
        self.generators = generators or {}
        self.counter = 0
        self.done = 0
        self.defaulted: List = []
        self.method_helpers: Dict[str, ast.FunctionDef] = {}     # new methods of the class whose method is being processed
        self.self_name: Optional[str] = None

    def _calls_in_stmt_header(self, s: ast.stmt):
        """helper calls that are evaluated exactly once when statement s is executed (not inside comprehensions, lambdas, nested
        bodies, or loop tests)"""
        exprs: List[ast.expr] = []
        if isinstance(s, (ast.Assign, ast.AnnAssign, ast.AugAssign, ast.Expr, ast.Return)):
            if getattr(s, 'value', None) is not None:
                exprs.append(s.value)
        elif isinstance(s, ast.If):
            exprs.append(s.test)
        elif isinstance(s, ast.For):
            exprs.append(s.iter)
        elif isinstance(s, ast.With):
            exprs += [i.context_expr for i in s.items]
        elif isinstance(s, (ast.Raise,)):
            if s.exc is not None:
                exprs.append(s.exc)
        out = []

        def walk(e):
            if isinstance(e, (ast.ListComp, ast.SetComp, ast.DictComp, ast.GeneratorExp, ast.Lambda)):
                return
            if isinstance(e, (ast.BoolOp, ast.IfExp)):
                # short-circuit / conditional evaluation: only the first operand is certainly evaluated
                first = e.values[0] if isinstance(e, ast.BoolOp) else e.test
                walk(first)
                return
            for ch in ast.iter_child_nodes(e):
                if isinstance(ch, ast.expr):
                    walk(ch)
            if isinstance(e, ast.Call) and isinstance(e.func, ast.Name) and e.func.id in self.helpers:
                out.append(e)
            elif isinstance(e, ast.Call) and self._method_helper_of(e) is not None:
                out.append(e)
        for e in exprs:
            walk(e)
        return out

    def _method_helper_of(self, e: ast.Call):
        """`self.m(..)` with m a NEW method of the class being processed: the helper (self is its first parameter)"""
        f = e.func
        if isinstance(f, ast.Attribute) and isinstance(f.value, ast.Name) and f.value.id == self.self_name \
                and f.attr in self.method_helpers:
            return self.method_helpers[f.attr]
        return None

    def _header_exprs(self, s: ast.stmt):
        exprs: List[ast.expr] = []
        if isinstance(s, (ast.Assign, ast.AnnAssign, ast.AugAssign, ast.Expr, ast.Return)):
            if getattr(s, 'value', None) is not None:
                exprs.append(s.value)
        elif isinstance(s, ast.If):
            exprs.append(s.test)
        elif isinstance(s, ast.For):
            exprs.append(s.iter)
        return exprs

    def _hoist_comprehensions(self, s: ast.stmt, owner: str):
        """<stmt with [h(..) for T in IT if C]>   ->   __cN = []; for T' in IT: if C': __cN.append(h(..)') ; <stmt with __cN>
        for list comprehensions / generator expressions with one `for` whose element calls a helper that would be inlined at
        statement level.  The comprehension's target is renamed (it does not leak in the original)."""
        out: List[ast.stmt] = []
        comps = []

        def walk(e, top):
            if isinstance(e, (ast.ListComp, ast.GeneratorExp)) and top:
                comps.append(e)
                return
            if isinstance(e, (ast.ListComp, ast.SetComp, ast.DictComp, ast.GeneratorExp, ast.Lambda)):
                return
            if isinstance(e, (ast.BoolOp, ast.IfExp)):
                walk(e.values[0] if isinstance(e, ast.BoolOp) else e.test, top)
                return
            for ch in ast.iter_child_nodes(e):
                if isinstance(ch, ast.expr):
                    walk(ch, top)
        for e in self._header_exprs(s):
            walk(e, True)
        for comp in comps:
            if len(comp.generators) != 1 or comp.generators[0].is_async:
                continue
            names = {c.func.id for c in ast.walk(comp.elt) if isinstance(c, ast.Call) and isinstance(c.func, ast.Name)}
            hs = [n for n in names if n in self.helpers and self.helpers[n].name != owner]
            if not hs or any(isinstance(n, (ast.ListComp, ast.SetComp, ast.DictComp, ast.GeneratorExp, ast.Lambda))
                             for n in ast.walk(comp.elt)):
                continue
            g = comp.generators[0]
            self.counter += 1
            acc = f'__c{self.counter}'
            tnames = sorted({n.id for n in ast.walk(g.target) if isinstance(n, ast.Name)})
            ren = _Rename({n: f'{acc}_{n}' for n in tnames})
            target = ren.visit(copy.deepcopy(g.target))
            elt = ren.visit(copy.deepcopy(comp.elt))
            conds = [ren.visit(copy.deepcopy(c)) for c in g.ifs]
            app = ast.Expr(value=ast.Call(func=ast.Attribute(value=ast.Name(id=acc, ctx=ast.Load()), attr='append', ctx=ast.Load()),
                                          args=[elt], keywords=[]))
            inner: List[ast.stmt] = [app]
            for c in reversed(conds):
                inner = [ast.If(test=c, body=inner, orelse=[])]
            loop = ast.For(target=target, iter=copy.deepcopy(g.iter), body=inner, orelse=[], type_comment=None)
            init = ast.Assign(targets=[ast.Name(id=acc, ctx=ast.Store())], value=ast.List(elts=[], ctx=ast.Load()), type_comment=None)
            for n in (init, loop):
                for x in ast.walk(n):
                    x.lineno = s.lineno
                    x.col_offset = getattr(comp, 'col_offset', 0)
                    x.end_lineno = getattr(s, 'end_lineno', s.lineno)
                    x.end_col_offset = getattr(comp, 'end_col_offset', 0)
            for t in ast.walk(loop.target):
                if isinstance(t, (ast.Name, ast.Tuple, ast.List, ast.Starred)):
                    t.ctx = ast.Store()
            out += self.block([init, loop], owner)
            nm = ast.Name(id=acc, ctx=ast.Load())
            ast.copy_location(nm, comp)
            _replace(s, comp, nm)
            self.done += 1
        return out

    def _fuse_generator(self, s: ast.For, owner: str):
        """for T in gen(args): B   ->   <gen prologue>; for T' in IT': <gen loop body>; T = <yielded>; B"""
        c = s.iter
        if not (isinstance(c, ast.Call) and isinstance(c.func, ast.Name) and c.func.id in self.generators) or s.orelse:
            return None
        g = self.generators[c.func.id]
        if g.name == owner:
            return None
        self.counter += 1
        tag = f'g{self.counter}'
        fake = copy.deepcopy(g)
        body = list(fake.body)
        if body and isinstance(body[0], ast.Expr) and isinstance(body[0].value, ast.Constant) and isinstance(body[0].value.value, str):
            body = body[1:]
        lp = body[-1]
        yielded = lp.body[-1].value.value
        lp.body = lp.body[:-1]
        # reuse _expand's binding logic through a synthetic single-exit function: prologue + loop, returning nothing
        fake.body = body
        ex = _expand(c, fake, tag, s)
        if ex is None:
            return None
        pre, _ = ex
        DEFAULTED.pop()
        new_loop = pre[-1]
        mapping_loop = new_loop
        # the yielded expression with the same renaming: expand again with a return of the yielded value
        fake2 = copy.deepcopy(g)
        b2 = list(fake2.body)
        if b2 and isinstance(b2[0], ast.Expr) and isinstance(b2[0].value, ast.Constant) and isinstance(b2[0].value.value, str):
            b2 = b2[1:]
        fake2.body = [ast.Return(value=copy.deepcopy(b2[-1].body[-1].value.value))]
        # locals of the whole generator must be renamed identically: give fake2 the same set of locals by keeping dummy stores
        fake2.body = [ast.Assign(targets=[ast.Name(id=n, ctx=ast.Store())], value=ast.Constant(value=None)) for n in sorted(_locals_of(g))
                      if n not in {a.arg for a in g.args.args + g.args.kwonlyargs}] + fake2.body
        ex2 = _expand(c, fake2, tag, s)
        if ex2 is None:
            return None
        DEFAULTED.pop()
        _, yexpr = ex2
        bind = ast.Assign(targets=[copy.deepcopy(s.target)], value=yexpr)
        for t in ast.walk(bind.targets[0]):
            if isinstance(t, (ast.Name, ast.Tuple, ast.List, ast.Starred)):
                t.ctx = ast.Store()
        ast.copy_location(bind, s)
        mapping_loop.body = list(mapping_loop.body) + [bind] + list(s.body)
        ast.fix_missing_locations(mapping_loop)
        self.done += 1
        return pre

    def block(self, body: List[ast.stmt], owner: str) -> List[ast.stmt]:
        new: List[ast.stmt] = []
        for s in body:
            if isinstance(s, ast.For) and self.generators:
                fused = self._fuse_generator(s, owner)
                if fused is not None:
                    new += self.block(fused, owner)
                    continue
            # nested blocks first
            for fld in ('body', 'orelse', 'finalbody'):
                if hasattr(s, fld) and isinstance(getattr(s, fld), list) and not isinstance(s, (ast.FunctionDef, ast.ClassDef)):
                    setattr(s, fld, self.block(getattr(s, fld), owner))
            if isinstance(s, ast.Try):
                for h in s.handlers:
                    h.body = self.block(h.body, owner)
            hoisted = self._hoist_comprehensions(s, owner)
            if hoisted:
                new += hoisted
            calls = self._calls_in_stmt_header(s)
            for c in calls:
                mh = self._method_helper_of(c) if not isinstance(c.func, ast.Name) else None
                if mh is not None:
                    if mh.name == owner:
                        continue
                    # bind the receiver as the first argument
                    c2 = ast.Call(func=ast.Name(id=mh.name, ctx=ast.Load()), args=[ast.Name(id=self.self_name, ctx=ast.Load())] + c.args,
                                  keywords=c.keywords)
                    ast.copy_location(c2, c)
                    ast.fix_missing_locations(c2)
                    self.counter += 1
                    ex = _expand(c2, mh, f'h{self.counter}', s)
                    h = mh
                else:
                    h = self.helpers.get(c.func.id)
                    if h is None or h.name == owner:
                        continue
                    self.counter += 1
                    ex = _expand(c, h, f'h{self.counter}', s)
                if ex is None:
                    continue
                pre, ret = ex
                hname, dflt, line, _ = DEFAULTED.pop()
                if dflt:
                    self.defaulted.append((owner, hname, dflt, line, ast.unparse(c)[:120]))
                # helpers may call helpers: inline inside the expanded body as well (bounded by the counter)
                if self.counter < 400:
                    pre = self.block(pre, h.name)
                new += pre
                _replace(s, c, ret)
                self.done += 1
            if isinstance(s, ast.Expr) and isinstance(s.value, ast.Constant) and s.value.value is None and calls:
                continue          # a procedure call that has been expanded: nothing is left of the statement
            new.append(s)
        return new


def _replace(root: ast.AST, old: ast.AST, new: ast.AST):
    for parent in ast.walk(root):
        for fld, val in ast.iter_fields(parent):
            if val is old:
                setattr(parent, fld, new)
                return
            if isinstance(val, list):
                for i, x in enumerate(val):
                    if x is old:
                        val[i] = new
                        return


def _expose_fields(fn: ast.FunctionDef, obj_helpers: Dict[str, ast.FunctionDef]):
    """A call to a method of an inlined object that could not be expanded (a call in a `while` test, a method with several exits that
    cannot be folded) stays behind as a call to a synthetic name.  Its reads of the object's fields are made explicit as keyword
    arguments, so that dependence rules see what the call consumes instead of an opaque call that ignores the object's state."""
    def fields_read(name, seen):
        if name in seen or name not in obj_helpers:
            return set()
        seen.add(name)
        out = set()
        for n in ast.walk(obj_helpers[name]):
            if isinstance(n, ast.Name) and n.id.startswith('__o') and isinstance(n.ctx, ast.Load):
                out.add(n.id)
            if isinstance(n, ast.Call) and isinstance(n.func, ast.Name) and n.func.id.startswith('__X'):
                out |= fields_read(n.func.id, seen)
        return out
    for c in ast.walk(fn):
        if isinstance(c, ast.Call) and isinstance(c.func, ast.Name) and c.func.id in obj_helpers:
            have = {k.arg for k in c.keywords}
            for fld in sorted(fields_read(c.func.id, set())):
                if fld not in have:
                    c.keywords.append(ast.keyword(arg=fld, value=ast.Name(id=fld, ctx=ast.Load())))
    ast.fix_missing_locations(fn)


def _rebinds_free_names(inner: ast.FunctionDef, outer: ast.FunctionDef) -> bool:
    """a closure that declares nonlocal / global names writes to the enclosing scope: not a pure helper"""
    return any(isinstance(n, (ast.Nonlocal, ast.Global)) for n in ast.walk(inner))


class _Idioms(ast.NodeTransformer):
    """spellings of one operation brought to the form the rules know:  np.take(a, i) / a.take(i) -> a[i]  (axis=0 -> a[i],
    axis=1 -> a[:, i]);  np.take_along_axis is left alone (a different operation)"""

    def visit_Call(self, node):
        node = self.generic_visit(node)
        f = node.func
        is_np = isinstance(f, ast.Attribute) and f.attr == 'take' and isinstance(f.value, ast.Name) and f.value.id in ('np', 'numpy')
        is_m = isinstance(f, ast.Attribute) and f.attr == 'take' and not is_np
        if not (is_np or is_m):
            return node
        args = list(node.args)
        kw = {k.arg: k.value for k in node.keywords}
        if set(kw) - {'axis', 'indices'} or any(isinstance(a, ast.Starred) for a in args):
            return node
        arr = args.pop(0) if is_np and args else (f.value if is_m else None)
        idx = args.pop(0) if args else kw.get('indices')
        axis = args.pop(0) if args else kw.get('axis')
        if arr is None or idx is None or args:
            return node
        if axis is None or (isinstance(axis, ast.Constant) and axis.value in (0, None)):
            sl = idx
        elif isinstance(axis, ast.Constant) and axis.value == 1:
            sl = ast.Tuple(elts=[ast.Slice(lower=None, upper=None, step=None), idx], ctx=ast.Load())
        else:
            return node
        return ast.copy_location(ast.Subscript(value=arr, slice=sl, ctx=ast.Load()), node)


def inline_new_helpers(tree: ast.Module, module: str) -> int:
    """returns the number of call sites expanded"""
    for n in tree.body:
        if isinstance(n, (ast.FunctionDef, ast.ClassDef)):
            _Idioms().visit(n)
    ast.fix_missing_locations(tree)
    frozen = frozen_functions()
    if module not in frozen:
        return 0                      # a new module: nothing is anchored in it
    known = set(frozen[module])
    helpers = {}
    for n in tree.body:
        if isinstance(n, ast.FunctionDef) and n.name not in known:
            h = _normalised_helper(n)
            if h is not None:
                helpers[n.name] = h
    generators = {n.name: n for n in tree.body if isinstance(n, ast.FunctionDef) and n.name not in known and _simple_generator(n)}
    inl = _Inliner(helpers, generators)
    nested_known = {x.split(':', 1)[1] for x in frozen.get('<nested>', []) if x.startswith(module + ':')}
    from .objinline import ObjectInliner, new_private_classes
    obj = None
    classes = new_private_classes(tree, set(frozen.get('<classes>', {}).get(module, [])))
    if classes:
        obj = ObjectInliner(classes)

    def process(fn: ast.FunctionDef):
        # new local closures (nested defs that are not in the frozen table) are helpers for the body of `fn` only
        local = {}
        for st in fn.body:
            if isinstance(st, ast.FunctionDef) and f'{fn.name}.{st.name}' not in nested_known:
                h = _normalised_helper(st)
                if h is not None and not _rebinds_free_names(st, fn):
                    local[st.name] = h
        saved = inl.helpers
        if local:
            inl.helpers = {**saved, **local}
        for _round in range(3):
            if obj is not None and obj.rewrite_function(fn):
                # methods of inlined objects become helpers (when they can be brought to a single exit)
                for hn, hf in obj.helpers.items():
                    if hn not in inl.helpers:
                        nh = _normalised_helper(hf)
                        if nh is not None:
                            inl.helpers[hn] = nh
                            saved.setdefault(hn, nh)
            before = inl.done
            fn.body = inl.block(fn.body, fn.name)
            if inl.done == before or obj is None:
                break
        inl.helpers = saved
        if obj is not None:
            _expose_fields(fn, obj.helpers)

    targets = []
    frozen_methods = frozen.get('<methods>', {}).get(module, {})
    new_methods_of: Dict[int, Tuple[Dict[str, ast.FunctionDef], str]] = {}
    any_new_method = False
    for n in tree.body:
        if isinstance(n, ast.FunctionDef) and n.name not in helpers and n.name not in generators:
            targets.append(n)
        elif isinstance(n, ast.ClassDef) and n.name not in classes:
            known_m = set(frozen_methods.get(n.name, []))
            mh = {}
            if n.name in frozen_methods:
                for m in n.body:
                    if isinstance(m, ast.FunctionDef) and m.name not in known_m and not m.decorator_list and m.args.args:
                        h = _normalised_helper(m)
                        if h is not None:
                            mh[m.name] = h
                            any_new_method = True
            for m in n.body:
                if isinstance(m, ast.FunctionDef) and m.name not in mh:
                    targets.append(m)
                    if mh and m.args.args and not any(ast.unparse(d) in ('staticmethod', 'classmethod') for d in m.decorator_list):
                        new_methods_of[id(m)] = (mh, m.args.args[0].arg)
    if not helpers and not generators and not classes and not any_new_method \
            and not any(isinstance(st, ast.FunctionDef) for t in targets for st in t.body):
        return 0
    for t in targets:
        inl.method_helpers, inl.self_name = new_methods_of.get(id(t), ({}, None))
        process(t)
    inl.method_helpers, inl.self_name = {}, None
    ast.fix_missing_locations(tree)
    tree._inline_defaulted = inl.defaulted       # [(owner function, helper, params left at default, line, call text)]
    return inl.done


# ------------------------------------------------------------------------------------------------ across modules
_LOCALS_CACHE: Dict[int, Set[str]] = {}


def _locals_everywhere(tree) -> Set[str]:
    """every name stored anywhere in the module (a synthetic module-level import must not be shadowed by a local of some function)"""
    k = id(tree)
    if k not in _LOCALS_CACHE:
        _LOCALS_CACHE[k] = {n.id for n in ast.walk(tree) if isinstance(n, ast.Name) and isinstance(n.ctx, (ast.Store, ast.Del))} | \
            {a.arg for n in ast.walk(tree) if isinstance(n, ast.arguments) for a in n.args + n.kwonlyargs}
    return _LOCALS_CACHE[k]


def inline_across_modules(modules, abs_module, pkg: str) -> int:
    """New private helpers that live in ANOTHER module of the package (code moved to a util module, a new private module) are inlined
    at their call sites as well.  `from <pkg>.a.b import helper [as h]` where `helper` is a module-level function of a.b that does not
    exist in the pinned tree.  The helper's body refers to names of ITS module; each such name that the calling module does not bind to
    the same object is imported into the calling module under a synthetic alias (`from <pkg>.a.b import name as __xm_a_b_name`, or
    a copy of a.b's own import statement with that alias), so that the program model resolves the inlined body exactly as it
    resolved the helper.  Repeated (bounded) because an inlined body may call further new helpers of its home module."""
    frozen = frozen_functions()
    done = 0

    def top_bindings(tree):
        """name -> ('def', node) | ('import', stmt, alias) | ('assign', stmt)"""
        out = {}
        for st in tree.body:
            if isinstance(st, (ast.FunctionDef, ast.ClassDef)):
                out[st.name] = ('def', st)
            elif isinstance(st, ast.Import):
                for a in st.names:
                    out[a.asname or a.name.split('.')[0]] = ('import', st, a)
            elif isinstance(st, ast.ImportFrom):
                for a in st.names:
                    out[a.asname or a.name] = ('importfrom', st, a)
            elif isinstance(st, ast.Assign):
                for t in st.targets:
                    if isinstance(t, ast.Name):
                        out[t.id] = ('assign', st)
        return out

    def same_binding(b1, b2):
        if b1 is None or b2 is None or b1[0] != b2[0]:
            return False
        if b1[0] == 'import':
            return b1[2].name == b2[2].name
        if b1[0] == 'importfrom':
            return b1[1].module == b2[1].module and b1[1].level == b2[1].level and b1[2].name == b2[2].name
        return False

    for _round in range(3):
        changed = False
        for mname, mi in modules.items():
            tree = mi.tree
            mine = top_bindings(tree)
            helpers: Dict[str, ast.FunctionDef] = {}
            extra_imports: List[ast.stmt] = []
            for st in tree.body:
                if not isinstance(st, ast.ImportFrom):
                    continue
                home = abs_module(mi.name, mi.is_pkg, st.level, st.module)
                if not home.startswith(pkg):
                    continue
                hkey = home[len(pkg):].lstrip('.')
                hm = modules.get(hkey)
                if hm is None or hm is mi:
                    continue
                known = set(frozen.get(hkey, [])) if hkey in frozen else None
                theirs = top_bindings(hm.tree)
                for a in st.names:
                    b = theirs.get(a.name)
                    if b is None or b[0] != 'def' or not isinstance(b[1], ast.FunctionDef):
                        continue
                    if known is not None and a.name in known:
                        continue            # exists in the pinned tree: anchored where it is
                    h = _normalised_helper(b[1])
                    if h is None:
                        continue
                    h = copy.deepcopy(h)
                    local = _locals_of(h)
                    ren = {}
                    for n in ast.walk(h):
                        if isinstance(n, ast.Name) and isinstance(n.ctx, ast.Load) and n.id not in local and n.id in theirs \
                                and not same_binding(theirs[n.id], mine.get(n.id)):
                            # the helper's own name for it when the calling module has no binding of that name, an alias otherwise
                            alias = n.id if n.id not in mine and n.id not in _locals_everywhere(tree) \
                                else '__xm_' + hkey.replace('.', '_') + '__' + n.id
                            if n.id not in ren:
                                ren[n.id] = alias
                                mine[alias] = theirs[n.id]
                                tb = theirs[n.id]
                                asn = alias if alias != (tb[2].name if tb[0] != 'assign' and tb[0] != 'def' else n.id) else None
                                if tb[0] == 'import':
                                    imp = ast.Import(names=[ast.alias(name=tb[2].name, asname=alias if (tb[2].asname or alias != tb[2].name.split('.')[0]) else None)])
                                elif tb[0] == 'importfrom':
                                    src_mod = abs_module(hm.name, hm.is_pkg, tb[1].level, tb[1].module)
                                    imp = ast.ImportFrom(module=src_mod, names=[ast.alias(name=tb[2].name, asname=asn)], level=0)
                                else:
                                    imp = ast.ImportFrom(module=home, names=[ast.alias(name=n.id, asname=asn)], level=0)
                                extra_imports.append(imp)
                    if ren:
                        _Rename(ren).visit(h)
                    helpers[a.asname or a.name] = h
            if not helpers:
                continue
            inl = _Inliner(helpers, {})
            before = inl.done
            for n in tree.body:
                if isinstance(n, ast.FunctionDef):
                    n.body = inl.block(n.body, n.name)
                elif isinstance(n, ast.ClassDef):
                    for m in n.body:
                        if isinstance(m, ast.FunctionDef):
                            m.body = inl.block(m.body, m.name)
            if inl.done > before:
                have = {ast.dump(x) for x in tree.body if isinstance(x, (ast.Import, ast.ImportFrom))}
                pos = next((i for i, x in enumerate(tree.body) if not (isinstance(x, ast.Expr) and isinstance(x.value, ast.Constant))
                            and not (isinstance(x, ast.ImportFrom) and x.module == '__future__')), 0)
                for imp in extra_imports:
                    if ast.dump(imp) not in have:
                        have.add(ast.dump(imp))
                        tree.body.insert(pos, imp)
                ast.fix_missing_locations(tree)
                prev = getattr(tree, '_inline_defaulted', [])
                tree._inline_defaulted = prev + inl.defaulted
                done += inl.done - before
                changed = True
        if not changed:
            break
    return done
