"""Helper inlining (pre-pass on the parsed modules).

The rules are anchored in the functions of the pinned tree (frozen in contracts/functions.json).  When a later change EXTRACTS part
of such a function into a new private helper of the same module, the construct a rule looks for moves out of its anchor.  This
pre-pass undoes exactly that: every module-level function that is NOT in the frozen table, and that is a single-exit helper
(plain parameters, no yield, one `return` as its last statement or none), is inlined at its call sites in the same module:

        x = _helper(a, k=b)          ->        __h1_p = a ; __h1_q = b ; <body with locals renamed __h1_*> ; x = <return expr>

Inlined statements keep the line number of the calling statement.  Helpers with early returns, generators, varargs, or calls
inside comprehensions / lambdas / while-tests are left alone (the rules then see an opaque call: undecided, never an alarm).
The helper definitions stay in the module and are analysed like any other function."""
from __future__ import annotations
import ast
import copy
import json
import os
from typing import Dict, List, Optional, Set, Tuple

_HERE = os.path.dirname(os.path.dirname(os.path.abspath(__file__)))
_FROZEN: Optional[Dict[str, List[str]]] = None
DEFAULTED: List = []      # (helper, parameters left at their default, line, call node) of the last expansion - consumed by the caller


def frozen_functions() -> Dict[str, List[str]]:
    global _FROZEN
    if _FROZEN is None:
        p = os.path.join(_HERE, 'contracts', 'functions.json')
        _FROZEN = json.load(open(p)) if os.path.exists(p) else {}
    return _FROZEN


def _simple_generator(fn: ast.FunctionDef) -> bool:
    """a generator whose yields are all statements `yield E` (1..3 of them, anywhere in its loops and branches) and that has no
    return, break / continue, nested def or yield from: `for T in gen(..): B` is then the generator's body with every `yield E`
    replaced by `T = E; B`"""
    a = fn.args
    if a.vararg or a.kwarg or a.posonlyargs:
        return False
    ys = [n for n in ast.walk(fn) if isinstance(n, (ast.Yield, ast.YieldFrom))]
    if not 1 <= len(ys) <= 3 or any(not isinstance(y, ast.Yield) or y.value is None for y in ys):
        return False
    stmts = [n for n in ast.walk(fn) if isinstance(n, ast.Expr) and isinstance(n.value, ast.Yield)]
    if len(stmts) != len(ys):
        return False
    if any(isinstance(n, (ast.Return, ast.Global, ast.Nonlocal, ast.FunctionDef, ast.Lambda, ast.Break, ast.Continue, ast.Try, ast.With))
           and n is not fn for n in ast.walk(fn)):
        return False
    return True


def _contains_return(stmts) -> bool:
    return any(isinstance(n, ast.Return) for s in stmts for n in ast.walk(s))


def _always_returns(stmts) -> bool:
    for s in stmts:
        if isinstance(s, (ast.Return, ast.Raise)):
            return True
        if isinstance(s, ast.If) and s.orelse and _always_returns(s.body) and _always_returns(s.orelse):
            return True
    return False


def _to_single_exit(stmts, rname='__ret'):
    """rewrite guard-clause style early returns (returns only in `if` tails, never inside loops / try / with) into assignments to
    `rname` on every path; returns the new statement list or None when the shape is not supported"""
    out = []
    for i, s in enumerate(stmts):
        if isinstance(s, ast.Return):
            val = s.value if s.value is not None else ast.Constant(value=None)
            return out + [ast.copy_location(ast.Assign(targets=[ast.Name(id=rname, ctx=ast.Store())], value=val), s)]
        if isinstance(s, ast.If) and _contains_return([s]):
            body_c = _to_single_exit(s.body, rname) if _contains_return(s.body) else list(s.body)
            else_c = _to_single_exit(s.orelse, rname) if _contains_return(s.orelse) else list(s.orelse)
            if body_c is None or else_c is None:
                return None
            rest = _to_single_exit(stmts[i + 1:], rname)
            if rest is None:
                return None
            b_ret, e_ret = _always_returns(s.body), _always_returns(s.orelse)
            if _contains_return(s.body) and not b_ret:
                return None
            if _contains_return(s.orelse) and not e_ret:
                return None
            if b_ret and e_ret:
                new = ast.If(test=s.test, body=body_c, orelse=else_c)
            elif b_ret:
                new = ast.If(test=s.test, body=body_c, orelse=else_c + rest)
            else:
                new = ast.If(test=s.test, body=body_c + rest, orelse=else_c)
            return out + [ast.copy_location(new, s)]
        if _contains_return([s]):
            return None          # a return inside a loop / try / with
        out.append(s)
    # fell off the end: returns None
    return out + [ast.Assign(targets=[ast.Name(id=rname, ctx=ast.Store())], value=ast.Constant(value=None))]


def _normalised_helper(fn: ast.FunctionDef) -> Optional[ast.FunctionDef]:
    """fn itself when it is single-exit, a rewritten copy when its early returns can be folded, else None"""
    if _single_exit(fn):
        return fn
    a = fn.args
    if a.vararg or a.kwarg or a.posonlyargs:
        return None
    for n in ast.walk(fn):
        if isinstance(n, (ast.Yield, ast.YieldFrom, ast.Global, ast.Nonlocal, ast.AsyncFunctionDef)):
            return None
        if isinstance(n, ast.FunctionDef) and n is not fn:
            return None
    body = list(fn.body)
    doc = []
    if body and isinstance(body[0], ast.Expr) and isinstance(body[0].value, ast.Constant) and isinstance(body[0].value.value, str):
        doc, body = body[:1], body[1:]
    conv = _to_single_exit(copy.deepcopy(body))
    if conv is None:
        return None
    new = copy.deepcopy(fn)
    new.body = doc + conv + [ast.Return(value=ast.Name(id='__ret', ctx=ast.Load()))]
    ast.fix_missing_locations(new)
    return new


def _single_exit(fn: ast.FunctionDef) -> bool:
    a = fn.args
    if a.vararg or a.kwarg or a.posonlyargs:
        return False
    rets = [n for n in ast.walk(fn) if isinstance(n, ast.Return)]
    for n in ast.walk(fn):
        if isinstance(n, (ast.Yield, ast.YieldFrom, ast.Global, ast.Nonlocal, ast.AsyncFunctionDef)):
            return False
        if isinstance(n, ast.FunctionDef) and n is not fn:
            return False
    if len(rets) > 1:
        return False
    if rets and fn.body[-1] is not rets[0]:
        return False
    return True


class _Rename(ast.NodeTransformer):
    def __init__(self, mapping):
        self.m = mapping

    def visit_Name(self, node):
        if node.id in self.m:
            return ast.copy_location(ast.Name(id=self.m[node.id], ctx=node.ctx), node)
        return node

    def visit_arg(self, node):
        # parameters of lambdas inside the renamed code (the function's own parameters are bound, not renamed, by the caller)
        if node.arg in self.m:
            node.arg = self.m[node.arg]
        return node


def _locals_of(fn: ast.FunctionDef) -> Set[str]:
    out = {a.arg for a in fn.args.args + fn.args.kwonlyargs}
    for n in ast.walk(fn):
        if isinstance(n, ast.Name) and isinstance(n.ctx, (ast.Store, ast.Del)):
            out.add(n.id)
    return out


def _split_tuple_result(body, ret: ast.Name):
    """A folded multi-exit helper leaves `__ret = (a, b)` in every arm and returns `__ret`.  When every definition of the result
    variable is a tuple display of one arity, the components get their own variables: `__ret_0 = a; __ret_1 = b`, result
    `(__ret_0, __ret_1)` - so that `x, y = <result>` binds x to the a's and y to the b's instead of to "some element"."""
    name = ret.id
    defs = [n for st in body for n in ast.walk(st) if isinstance(n, ast.Assign) and len(n.targets) == 1
            and isinstance(n.targets[0], ast.Name) and n.targets[0].id == name]
    other_stores = [n for st in body for n in ast.walk(st) if isinstance(n, ast.Name) and n.id == name and isinstance(n.ctx, ast.Store)]
    loads = [n for st in body for n in ast.walk(st) if isinstance(n, ast.Name) and n.id == name and isinstance(n.ctx, ast.Load)]
    if not defs or len(other_stores) != len(defs) or loads:
        return body, ret
    if not all(isinstance(d.value, ast.Tuple) and not any(isinstance(x, ast.Starred) for x in d.value.elts) for d in defs):
        return body, ret
    arity = {len(d.value.elts) for d in defs}
    if len(arity) != 1 or next(iter(arity)) < 2:
        return body, ret
    n = next(iter(arity))

    class Split(ast.NodeTransformer):
        def visit_Assign(self, node):
            if node in defs:
                out = []
                for i, e in enumerate(node.value.elts):
                    a = ast.Assign(targets=[ast.Name(id=f'{name}_{i}', ctx=ast.Store())], value=e, type_comment=None)
                    out.append(ast.copy_location(a, node))
                return out
            return node

    def run(stmts):
        out = []
        for st in stmts:
            r = Split().visit(st)
            out += r if isinstance(r, list) else [r]
        return out
    body = run(body)
    for st in body:
        ast.fix_missing_locations(st)
    new_ret = ast.Tuple(elts=[ast.Name(id=f'{name}_{i}', ctx=ast.Load()) for i in range(n)], ctx=ast.Load())
    return body, ast.copy_location(new_ret, ret)


def _is_callable_literal(e) -> bool:
    if isinstance(e, ast.Lambda):
        a = e.args
        return not (a.vararg or a.kwarg or a.kwonlyargs or a.defaults or a.posonlyargs)
    if isinstance(e, ast.Call) and ast.unparse(e.func) in ('partial', 'functools.partial') and e.args \
            and not any(isinstance(x, ast.Starred) for x in e.args) and all(k.arg for k in e.keywords):
        return True
    return False


def _only_called(helper: ast.FunctionDef, p: str) -> bool:
    called = {id(c.func) for c in ast.walk(helper) if isinstance(c, ast.Call) and isinstance(c.func, ast.Name) and c.func.id == p}
    return bool(called) and all(id(n) in called for n in ast.walk(helper) if isinstance(n, ast.Name) and n.id == p)


class _BetaReduce(ast.NodeTransformer):
    """f(args) with f bound to `lambda a, b: E` -> E[a := arg0, b := arg1];  f bound to partial(g, x, k=y) -> g(x, args, k=y)"""

    def __init__(self, callables):
        self.c = callables
        self.failed = False

    def visit_Call(self, node):
        node = self.generic_visit(node)
        if isinstance(node.func, ast.Name) and node.func.id in self.c:
            f = self.c[node.func.id]
            if isinstance(f, ast.Lambda):
                params = [a.arg for a in f.args.args]
                if node.keywords or len(node.args) != len(params) or any(isinstance(x, ast.Starred) for x in node.args):
                    self.failed = True
                    return node
                body = copy.deepcopy(f.body)
                sub = dict(zip(params, node.args))
                # an argument expression is duplicated only when it is a plain name / constant
                for pname, arg in sub.items():
                    uses = sum(1 for n in ast.walk(body) if isinstance(n, ast.Name) and n.id == pname)
                    if uses > 1 and not isinstance(arg, (ast.Name, ast.Constant)):
                        self.failed = True
                        return node

                class S(ast.NodeTransformer):
                    def visit_Name(s_, n):
                        if n.id in sub and isinstance(n.ctx, ast.Load):
                            return ast.copy_location(copy.deepcopy(sub[n.id]), n)
                        return n
                return ast.copy_location(S().visit(body), node)
            # functools.partial(g, *fixed, **fixedkw)
            g = f.args[0]
            new = ast.Call(func=copy.deepcopy(g), args=[copy.deepcopy(x) for x in f.args[1:]] + node.args,
                           keywords=[copy.deepcopy(k) for k in f.keywords] + node.keywords)
            return ast.copy_location(new, node)
        return node


def _is_literal_pack(e) -> bool:
    if isinstance(e, ast.Constant) and e.value is None:
        return True
    return isinstance(e, ast.Tuple) and bool(e.elts) and all(isinstance(x, (ast.Name, ast.Constant)) for x in e.elts)


class _LiteralFolder(ast.NodeTransformer):
    """uses of a parameter that is bound to None / a tuple display: `*p` -> the elements, `p[i]` -> element i, `p is (not) None` -> a
    constant, `if <constant>` -> the live branch"""

    def __init__(self, lit):
        self.lit = lit
        self.failed = False

    def _lit(self, e):
        return self.lit.get(e.id) if isinstance(e, ast.Name) else None

    def visit_Call(self, node):
        new_args = []
        for a in node.args:
            v = self._lit(a.value) if isinstance(a, ast.Starred) else None
            if isinstance(v, ast.Tuple):
                new_args += [copy.deepcopy(x) for x in v.elts]
            else:
                new_args.append(a)
        node.args = new_args
        return self.generic_visit(node)

    def visit_Subscript(self, node):
        v = self._lit(node.value)
        if isinstance(v, ast.Tuple) and isinstance(node.slice, ast.Constant) and isinstance(node.slice.value, int) \
                and -len(v.elts) <= node.slice.value < len(v.elts) and isinstance(node.ctx, ast.Load):
            return ast.copy_location(copy.deepcopy(v.elts[node.slice.value]), node)
        return self.generic_visit(node)

    def visit_Compare(self, node):
        v = self._lit(node.left)
        if v is not None and len(node.ops) == 1 and isinstance(node.ops[0], (ast.Is, ast.IsNot)) \
                and isinstance(node.comparators[0], ast.Constant) and node.comparators[0].value is None:
            is_none = isinstance(v, ast.Constant)
            return ast.copy_location(ast.Constant(value=is_none == isinstance(node.ops[0], ast.Is)), node)
        return self.generic_visit(node)

    def visit_If(self, node):
        node.test = self.visit(node.test)
        if isinstance(node.test, ast.Constant) and isinstance(node.test.value, bool):
            live = node.body if node.test.value else node.orelse
            out = []
            for st in live:
                r = self.visit(st)
                out += r if isinstance(r, list) else [r]
            return out or [ast.copy_location(ast.Pass(), node)]
        node.body = self._stmts(node.body)
        node.orelse = self._stmts(node.orelse)
        return node

    def _stmts(self, stmts):
        out = []
        for st in stmts:
            r = self.visit(st)
            out += r if isinstance(r, list) else [r]
        return out


def _fold_literals(body, literal):
    f = _LiteralFolder(literal)
    out = []
    for st in body:
        r = f.visit(st)
        out += r if isinstance(r, list) else [r]
    return out


def _expand(call: ast.Call, helper: ast.FunctionDef, tag: str, at: ast.stmt):
    """statements to insert before `at`, and the expression that replaces the call (None for procedures); None if the actuals do
    not bind"""
    params = [a.arg for a in helper.args.args]
    defaults = helper.args.defaults
    dmap = {p: d for p, d in zip(params[len(params) - len(defaults):], defaults)}
    for a, d in zip(helper.args.kwonlyargs, helper.args.kw_defaults):
        if d is not None:
            dmap[a.arg] = d
    bound: Dict[str, ast.expr] = {}
    if any(isinstance(x, ast.Starred) for x in call.args) or any(k.arg is None for k in call.keywords):
        return None
    if len(call.args) > len(params):
        return None
    for p, x in zip(params, call.args):
        bound[p] = x
    allp = params + [a.arg for a in helper.args.kwonlyargs]
    for k in call.keywords:
        if k.arg not in allp or k.arg in bound:
            return None
        bound[k.arg] = k.value
    defaulted = []
    for p in allp:
        if p not in bound:
            if p not in dmap:
                return None
            bound[p] = copy.deepcopy(dmap[p])
            defaulted.append(p)
    DEFAULTED.append((helper.name, tuple(defaulted), at.lineno, call))
    # fields of an inlined object (sa/objinline.py) are shared by all its methods: never renamed per call
    mapping = {n: f'__{tag}_{n}' for n in _locals_of(helper) if not n.startswith('__o')}
    stored = {n.id for n in ast.walk(helper) if isinstance(n, ast.Name) and isinstance(n.ctx, (ast.Store, ast.Del))}
    pre: List[ast.stmt] = []
    literal: Dict[str, ast.expr] = {}
    callables: Dict[str, ast.expr] = {}
    for p in allp:
        if isinstance(bound[p], ast.Name) and p not in stored:
            # a parameter that is only read and receives a plain variable: use the caller's variable itself (no alias)
            mapping[p] = bound[p].id
            continue
        if p not in stored and _is_callable_literal(bound[p]) and _only_called(helper, p):
            # a lambda / functools.partial handed to a parameter that is only ever called: beta-reduced below
            callables[mapping[p]] = bound[p]
            continue
        if p not in stored and _is_literal_pack(bound[p]):
            # None / a tuple of plain variables and constants handed to a read-only parameter (`restrict=(descriptor, idx)` used as
            # `*restrict`, `restrict is not None`): substituted and folded below, so that the pieces stay visible
            literal[mapping[p]] = bound[p]
        st = ast.Assign(targets=[ast.Name(id=mapping[p], ctx=ast.Store())], value=bound[p])
        pre.append(st)
    body = copy.deepcopy(helper.body)
    if body and isinstance(body[0], ast.Expr) and isinstance(body[0].value, ast.Constant) and isinstance(body[0].value.value, str):
        body = body[1:]
    ret_expr = None
    if body and isinstance(body[-1], ast.Return):
        ret_expr = body[-1].value
        body = body[:-1]
    rn = _Rename(mapping)
    body = [rn.visit(s) for s in body]
    if ret_expr is not None:
        ret_expr = rn.visit(copy.deepcopy(ret_expr))
    if callables:
        br = _BetaReduce(callables)
        body = [br.visit(s) for s in body]
        if ret_expr is not None:
            ret_expr = br.visit(ret_expr)
        if br.failed:
            DEFAULTED.pop()
            return None
    if literal:
        body = _fold_literals(body, literal)
        if ret_expr is not None:
            ret_expr = _LiteralFolder(literal).visit(ret_expr)
        pre = [st for st in pre if not (isinstance(st, ast.Assign) and isinstance(st.targets[0], ast.Name) and st.targets[0].id in literal
                                        and not any(isinstance(n, ast.Name) and n.id == st.targets[0].id
                                                    for b in body + ([ret_expr] if ret_expr is not None else []) for n in ast.walk(b)))]
    if ret_expr is None:
        ret_expr = ast.Constant(value=None)
    elif isinstance(ret_expr, ast.Name):
        body, ret_expr = _split_tuple_result(body, ret_expr)
    out = pre + body
    for s in out:
        for n in ast.walk(s):
            if hasattr(n, 'lineno') or isinstance(n, (ast.expr, ast.stmt)):
                n.lineno = at.lineno
                n.col_offset = at.col_offset
                n.end_lineno = getattr(at, 'end_lineno', at.lineno)
                n.end_col_offset = getattr(at, 'end_col_offset', at.col_offset)
    for n in ast.walk(ret_expr):
        n.lineno = at.lineno
        n.col_offset = call.col_offset
        n.end_lineno = getattr(at, 'end_lineno', at.lineno)
        n.end_col_offset = call.end_col_offset
    return out, ret_expr


class _Inliner:
    def __init__(self, helpers: Dict[str, ast.FunctionDef], generators: Optional[Dict[str, ast.FunctionDef]] = None):
        self.helpers = helpers
        self.generators = generators or {}
        self.counter = 0
        self.done = 0
        self.defaulted: List = []
        self.method_helpers: Dict[str, ast.FunctionDef] = {}     # new methods of the class whose method is being processed
        self.self_name: Optional[str] = None

    def _calls_in_stmt_header(self, s: ast.stmt):
        """helper calls that are evaluated exactly once when statement s is executed (not inside comprehensions, lambdas, nested
        bodies, or loop tests)"""
        exprs: List[ast.expr] = []
        if isinstance(s, (ast.Assign, ast.AnnAssign, ast.AugAssign, ast.Expr, ast.Return)):
            if getattr(s, 'value', None) is not None:
                exprs.append(s.value)
        elif isinstance(s, ast.If):
            exprs.append(s.test)
        elif isinstance(s, ast.For):
            exprs.append(s.iter)
        elif isinstance(s, ast.With):
            exprs += [i.context_expr for i in s.items]
        elif isinstance(s, (ast.Raise,)):
            if s.exc is not None:
                exprs.append(s.exc)
        out = []

        def walk(e):
            if isinstance(e, (ast.ListComp, ast.SetComp, ast.DictComp, ast.GeneratorExp, ast.Lambda)):
                return
            if isinstance(e, (ast.BoolOp, ast.IfExp)):
                # short-circuit / conditional evaluation: only the first operand is certainly evaluated
                first = e.values[0] if isinstance(e, ast.BoolOp) else e.test
                walk(first)
                return
            for ch in ast.iter_child_nodes(e):
                if isinstance(ch, ast.expr):
                    walk(ch)
            if isinstance(e, ast.Call) and isinstance(e.func, ast.Name) and e.func.id in self.helpers:
                out.append(e)
            elif isinstance(e, ast.Call) and self._method_helper_of(e) is not None:
                out.append(e)
        for e in exprs:
            walk(e)
        return out

    def _method_helper_of(self, e: ast.Call):
        """`self.m(..)` with m a NEW method of the class being processed: the helper (self is its first parameter)"""
        f = e.func
        if isinstance(f, ast.Attribute) and isinstance(f.value, ast.Name) and f.value.id == self.self_name \
                and f.attr in self.method_helpers:
            return self.method_helpers[f.attr]
        return None

    def _header_exprs(self, s: ast.stmt):
        exprs: List[ast.expr] = []
        if isinstance(s, (ast.Assign, ast.AnnAssign, ast.AugAssign, ast.Expr, ast.Return)):
            if getattr(s, 'value', None) is not None:
                exprs.append(s.value)
        elif isinstance(s, ast.If):
            exprs.append(s.test)
        elif isinstance(s, ast.For):
            exprs.append(s.iter)
        return exprs

    def _hoist_comprehensions(self, s: ast.stmt, owner: str):
        """<stmt with [h(..) for T in IT if C]>   ->   __cN = []; for T' in IT: if C': __cN.append(h(..)') ; <stmt with __cN>
        for list comprehensions / generator expressions with one `for` whose element calls a helper that would be inlined at
        statement level.  The comprehension's target is renamed (it does not leak in the original)."""
        out: List[ast.stmt] = []
        comps = []

        def walk(e, top):
            if isinstance(e, (ast.ListComp, ast.GeneratorExp)) and top:
                comps.append(e)
                return
            if isinstance(e, (ast.ListComp, ast.SetComp, ast.DictComp, ast.GeneratorExp, ast.Lambda)):
                return
            if isinstance(e, (ast.BoolOp, ast.IfExp)):
                walk(e.values[0] if isinstance(e, ast.BoolOp) else e.test, top)
                return
            for ch in ast.iter_child_nodes(e):
                if isinstance(ch, ast.expr):
                    walk(ch, top)
        for e in self._header_exprs(s):
            walk(e, True)
        for comp in comps:
            if len(comp.generators) != 1 or comp.generators[0].is_async:
                continue
            names = {c.func.id for c in ast.walk(comp.elt) if isinstance(c, ast.Call) and isinstance(c.func, ast.Name)}
            hs = [n for n in names if n in self.helpers and self.helpers[n].name != owner]
            if not hs or any(isinstance(n, (ast.ListComp, ast.SetComp, ast.DictComp, ast.GeneratorExp, ast.Lambda))
                             for n in ast.walk(comp.elt)):
                continue
            g = comp.generators[0]
            self.counter += 1
            acc = f'__c{self.counter}'
            tnames = sorted({n.id for n in ast.walk(g.target) if isinstance(n, ast.Name)})
            ren = _Rename({n: f'{acc}_{n}' for n in tnames})
            target = ren.visit(copy.deepcopy(g.target))
            elt = ren.visit(copy.deepcopy(comp.elt))
            conds = [ren.visit(copy.deepcopy(c)) for c in g.ifs]
            app = ast.Expr(value=ast.Call(func=ast.Attribute(value=ast.Name(id=acc, ctx=ast.Load()), attr='append', ctx=ast.Load()),
                                          args=[elt], keywords=[]))
            inner: List[ast.stmt] = [app]
            for c in reversed(conds):
                inner = [ast.If(test=c, body=inner, orelse=[])]
            loop = ast.For(target=target, iter=copy.deepcopy(g.iter), body=inner, orelse=[], type_comment=None)
            init = ast.Assign(targets=[ast.Name(id=acc, ctx=ast.Store())], value=ast.List(elts=[], ctx=ast.Load()), type_comment=None)
            for n in (init, loop):
                for x in ast.walk(n):
                    x.lineno = s.lineno
                    x.col_offset = getattr(comp, 'col_offset', 0)
                    x.end_lineno = getattr(s, 'end_lineno', s.lineno)
                    x.end_col_offset = getattr(comp, 'end_col_offset', 0)
            for t in ast.walk(loop.target):
                if isinstance(t, (ast.Name, ast.Tuple, ast.List, ast.Starred)):
                    t.ctx = ast.Store()
            out += self.block([init, loop], owner)
            nm = ast.Name(id=acc, ctx=ast.Load())
            ast.copy_location(nm, comp)
            _replace(s, comp, nm)
            self.done += 1
        return out

    def _fuse_generator(self, s: ast.For, owner: str):
        """for T in gen(args): B   ->   the body of gen (parameters bound, locals renamed) with every `yield E` replaced by
        `T = E; B`.  B must not break / continue (that would leave the generator's loops, not the consumer's)."""
        c = s.iter
        if not (isinstance(c, ast.Call) and isinstance(c.func, ast.Name) and c.func.id in self.generators) or s.orelse:
            return None
        g = self.generators[c.func.id]
        if g.name == owner:
            return None
        if any(isinstance(x, (ast.Break, ast.Continue)) for st in s.body for x in ast.walk(st)):
            return None
        self.counter += 1
        tag = f'g{self.counter}'
        fake = copy.deepcopy(g)
        body = list(fake.body)
        if body and isinstance(body[0], ast.Expr) and isinstance(body[0].value, ast.Constant) and isinstance(body[0].value.value, str):
            body = body[1:]
        fake.body = body
        for n in ast.walk(fake):
            if isinstance(n, ast.Expr) and isinstance(n.value, ast.Yield):
                n.value = ast.copy_location(ast.Call(func=ast.Name(id='__yield__', ctx=ast.Load()), args=[n.value.value], keywords=[]), n.value)
        ex = _expand(c, fake, tag, s)
        if ex is None:
            return None
        pre, _ = ex
        DEFAULTED.pop()

        def weave(blk):
            out = []
            for st in blk:
                if isinstance(st, ast.Expr) and isinstance(st.value, ast.Call) and isinstance(st.value.func, ast.Name) \
                        and st.value.func.id == '__yield__':
                    bind = ast.Assign(targets=[copy.deepcopy(s.target)], value=st.value.args[0], type_comment=None)
                    for t in ast.walk(bind.targets[0]):
                        if isinstance(t, (ast.Name, ast.Tuple, ast.List, ast.Starred)):
                            t.ctx = ast.Store()
                    ast.copy_location(bind, s)
                    out.append(bind)
                    out += [copy.deepcopy(x) for x in s.body]
                    continue
                for fld in ('body', 'orelse', 'finalbody'):
                    sub = getattr(st, fld, None)
                    if isinstance(sub, list):
                        setattr(st, fld, weave(sub))
                out.append(st)
            return out
        pre = weave(pre)
        for st in pre:
            ast.fix_missing_locations(st)
        self.done += 1
        return pre

    def block(self, body: List[ast.stmt], owner: str) -> List[ast.stmt]:
        new: List[ast.stmt] = []
        for s in body:
            if isinstance(s, ast.For) and self.generators:
                fused = self._fuse_generator(s, owner)
                if fused is not None:
                    new += self.block(fused, owner)
                    continue
            # nested blocks first
            for fld in ('body', 'orelse', 'finalbody'):
                if hasattr(s, fld) and isinstance(getattr(s, fld), list) and not isinstance(s, (ast.FunctionDef, ast.ClassDef)):
                    setattr(s, fld, self.block(getattr(s, fld), owner))
            if isinstance(s, ast.Try):
                for h in s.handlers:
                    h.body = self.block(h.body, owner)
            hoisted = self._hoist_comprehensions(s, owner)
            if hoisted:
                new += hoisted
            calls = self._calls_in_stmt_header(s)
            for c in calls:
                mh = self._method_helper_of(c) if not isinstance(c.func, ast.Name) else None
                if mh is not None:
                    if mh.name == owner:
                        continue
                    # bind the receiver as the first argument
                    c2 = ast.Call(func=ast.Name(id=mh.name, ctx=ast.Load()), args=[ast.Name(id=self.self_name, ctx=ast.Load())] + c.args,
                                  keywords=c.keywords)
                    ast.copy_location(c2, c)
                    ast.fix_missing_locations(c2)
                    self.counter += 1
                    ex = _expand(c2, mh, f'h{self.counter}', s)
                    h = mh
                else:
                    h = self.helpers.get(c.func.id)
                    if h is None or h.name == owner:
                        continue
                    self.counter += 1
                    ex = _expand(c, h, f'h{self.counter}', s)
                if ex is None:
                    continue
                pre, ret = ex
                hname, dflt, line, _ = DEFAULTED.pop()
                if dflt:
                    self.defaulted.append((owner, hname, dflt, line, ast.unparse(c)[:120]))
                # helpers may call helpers: inline inside the expanded body as well (bounded by the counter)
                if self.counter < 400:
                    pre = self.block(pre, h.name)
                new += pre
                _replace(s, c, ret)
                self.done += 1
            if isinstance(s, ast.Expr) and isinstance(s.value, ast.Constant) and s.value.value is None and calls:
                continue          # a procedure call that has been expanded: nothing is left of the statement
            new.append(s)
        return new


def _replace(root: ast.AST, old: ast.AST, new: ast.AST):
    for parent in ast.walk(root):
        for fld, val in ast.iter_fields(parent):
            if val is old:
                setattr(parent, fld, new)
                return
            if isinstance(val, list):
                for i, x in enumerate(val):
                    if x is old:
                        val[i] = new
                        return


def _expose_fields(fn: ast.FunctionDef, obj_helpers: Dict[str, ast.FunctionDef]):
    """A call to a method of an inlined object that could not be expanded (a call in a `while` test, a method with several exits that
    cannot be folded) stays behind as a call to a synthetic name.  Its reads of the object's fields are made explicit as keyword
    arguments, so that dependence rules see what the call consumes instead of an opaque call that ignores the object's state."""
    def fields_read(name, seen):
        if name in seen or name not in obj_helpers:
            return set()
        seen.add(name)
        out = set()
        for n in ast.walk(obj_helpers[name]):
            if isinstance(n, ast.Name) and n.id.startswith('__o') and isinstance(n.ctx, ast.Load):
                out.add(n.id)
            if isinstance(n, ast.Call) and isinstance(n.func, ast.Name) and n.func.id.startswith('__X'):
                out |= fields_read(n.func.id, seen)
        return out
    for c in ast.walk(fn):
        if isinstance(c, ast.Call) and isinstance(c.func, ast.Name) and c.func.id in obj_helpers:
            have = {k.arg for k in c.keywords}
            for fld in sorted(fields_read(c.func.id, set())):
                if fld not in have:
                    c.keywords.append(ast.keyword(arg=fld, value=ast.Name(id=fld, ctx=ast.Load())))
    ast.fix_missing_locations(fn)


def _rebinds_free_names(inner: ast.FunctionDef, outer: ast.FunctionDef) -> bool:
    """a closure that declares nonlocal / global names writes to the enclosing scope: not a pure helper"""
    return any(isinstance(n, (ast.Nonlocal, ast.Global)) for n in ast.walk(inner))


class _Idioms(ast.NodeTransformer):
    """spellings of one operation brought to the form the rules know:  np.take(a, i) / a.take(i) -> a[i]  (axis=0 -> a[i],
    axis=1 -> a[:, i]);  np.take_along_axis is left alone (a different operation)"""

    def visit_Call(self, node):
        node = self.generic_visit(node)
        f = node.func
        is_np = isinstance(f, ast.Attribute) and f.attr == 'take' and isinstance(f.value, ast.Name) and f.value.id in ('np', 'numpy')
        is_m = isinstance(f, ast.Attribute) and f.attr == 'take' and not is_np
        if not (is_np or is_m):
            return node
        args = list(node.args)
        kw = {k.arg: k.value for k in node.keywords}
        if set(kw) - {'axis', 'indices'} or any(isinstance(a, ast.Starred) for a in args):
            return node
        arr = args.pop(0) if is_np and args else (f.value if is_m else None)
        idx = args.pop(0) if args else kw.get('indices')
        axis = args.pop(0) if args else kw.get('axis')
        if arr is None or idx is None or args:
            return node
        if axis is None or (isinstance(axis, ast.Constant) and axis.value in (0, None)):
            sl = idx
        elif isinstance(axis, ast.Constant) and axis.value == 1:
            sl = ast.Tuple(elts=[ast.Slice(lower=None, upper=None, step=None), idx], ctx=ast.Load())
        else:
            return node
        return ast.copy_location(ast.Subscript(value=arr, slice=sl, ctx=ast.Load()), node)


class _SubstConst(ast.NodeTransformer):
    def __init__(self, mapping):
        self.m = mapping          # name -> expression to substitute for Load occurrences

    def visit_Name(self, node):
        if isinstance(node.ctx, ast.Load) and node.id in self.m:
            return ast.copy_location(copy.deepcopy(self.m[node.id]), node)
        return node


_UNROLL_MAX = 6


def _unroll_literal_loops(fn: ast.FunctionDef) -> int:
    """`for T in X` / `for i, T in enumerate(X)` / `for T1, T2 in zip(X1, X2)` where every X is a tuple / list display of at most
    _UNROLL_MAX elements written in the loop header, or a local that is bound once to such a display and read only by this loop:
    the loop is unrolled.  Iteration k binds the loop targets to the k-th elements under names of their own (`v__k`; a plain-literal
    element or the enumerate index is substituted as a constant), so that records built in the display become single-assignment
    locals and constant keys / slots appear as constants.  Not done when the body has break / continue / else, when a target is
    read after the loop, or when a target is assigned inside the body."""
    done = 0
    stores: Dict[str, int] = {}
    loads: Dict[str, int] = {}
    for n in ast.walk(fn):
        if isinstance(n, ast.Name):
            d = stores if isinstance(n.ctx, (ast.Store, ast.Del)) else loads
            d[n.id] = d.get(n.id, 0) + 1
    params = {a.arg for a in fn.args.args + fn.args.kwonlyargs + fn.args.posonlyargs}
    single_defs = {}
    for n in ast.walk(fn):
        if isinstance(n, ast.Assign) and len(n.targets) == 1 and isinstance(n.targets[0], ast.Name) and isinstance(n.value, (ast.Tuple, ast.List)):
            v = n.targets[0].id
            if stores.get(v) == 1 and loads.get(v) == 1 and v not in params:
                single_defs[v] = n

    def display(e):
        if isinstance(e, (ast.Tuple, ast.List)) and isinstance(e.ctx, ast.Load):
            d = e
        elif isinstance(e, ast.Name) and e.id in single_defs:
            d = single_defs[e.id].value
        else:
            return None
        if not d.elts or len(d.elts) > _UNROLL_MAX or any(isinstance(x, ast.Starred) for x in d.elts):
            return None
        return d

    def unroll(loop: ast.For):
        if loop.orelse or any(isinstance(x, (ast.Break, ast.Continue, ast.Yield, ast.YieldFrom)) for st in loop.body for x in ast.walk(st)):
            return None
        it = loop.iter
        idx_target = None
        if isinstance(it, ast.Call) and isinstance(it.func, ast.Name) and it.func.id == 'enumerate' and len(it.args) == 1 and not it.keywords:
            if not (isinstance(loop.target, ast.Tuple) and len(loop.target.elts) == 2 and isinstance(loop.target.elts[0], ast.Name)):
                return None
            idx_target, tgt, it = loop.target.elts[0].id, loop.target.elts[1], it.args[0]
        else:
            tgt = loop.target
        if isinstance(it, ast.Call) and isinstance(it.func, ast.Name) and it.func.id == 'zip' and it.args and not it.keywords:
            ds = [display(a) for a in it.args]
            if any(d is None for d in ds) or len({len(d.elts) for d in ds}) != 1:
                return None
            if not (isinstance(tgt, ast.Tuple) and len(tgt.elts) == len(ds)):
                return None
            rows = [[d.elts[k] for d in ds] for k in range(len(ds[0].elts))]
            tgts = list(tgt.elts)
        else:
            d = display(it)
            if d is None:
                return None
            rows = [[e] for e in d.elts]
            tgts = [tgt]
        # flatten tuple targets against tuple elements: for a, b in ((x, y), (z, w))
        flat_t, flat_rows = [], [[] for _ in rows]
        for j, t in enumerate(tgts):
            if isinstance(t, ast.Name):
                flat_t.append(t.id)
                for k, r in enumerate(rows):
                    flat_rows[k].append(r[j])
            elif isinstance(t, ast.Tuple) and all(isinstance(x, ast.Name) for x in t.elts) \
                    and all(isinstance(r[j], (ast.Tuple, ast.List)) and len(r[j].elts) == len(t.elts)
                            and not any(isinstance(x, ast.Starred) for x in r[j].elts) for r in rows):
                flat_t += [x.id for x in t.elts]
                for k, r in enumerate(rows):
                    flat_rows[k] += list(r[j].elts)
            else:
                return None
        names = flat_t + ([idx_target] if idx_target else [])
        if len(set(names)) != len(names):
            return None
        inside_loads = {}
        body_stores = set()
        for st in loop.body:
            for x in ast.walk(st):
                if isinstance(x, ast.Name):
                    if isinstance(x.ctx, ast.Load):
                        inside_loads[x.id] = inside_loads.get(x.id, 0) + 1
                    else:
                        body_stores.add(x.id)
        for nm in names:
            if nm in body_stores or nm in params or loads.get(nm, 0) != inside_loads.get(nm, 0) or stores.get(nm, 0) != 1:
                return None
        temporaries = []
        seen_first: Dict[str, str] = {}
        for st in loop.body:
            if isinstance(st, ast.Assign) and len(st.targets) == 1 and isinstance(st.targets[0], ast.Name):
                for x in ast.walk(st.value):
                    if isinstance(x, ast.Name):
                        seen_first.setdefault(x.id, 'load')
                seen_first.setdefault(st.targets[0].id, 'store')
            else:
                for x in ast.walk(st):
                    if isinstance(x, ast.Name):
                        seen_first.setdefault(x.id, 'load' if isinstance(x.ctx, ast.Load) else 'nested-store')
        for nm, how in seen_first.items():
            if how == 'store' and nm not in params and nm not in names and loads.get(nm, 0) == inside_loads.get(nm, 0) \
                    and stores.get(nm, 0) == sum(1 for st in loop.body for x in ast.walk(st)
                                                 if isinstance(x, ast.Name) and x.id == nm and isinstance(x.ctx, ast.Store)):
                temporaries.append(nm)
        out = []
        for k, r in enumerate(flat_rows):
            ren, sub = {}, {}
            pre = []
            for nm, e in zip(flat_t, r):
                if _is_plain_literal(e) or isinstance(e, ast.Name):
                    sub[nm] = e
                else:
                    ren[nm] = f'{nm}__{k}'
                    a = ast.Assign(targets=[ast.Name(id=ren[nm], ctx=ast.Store())], value=copy.deepcopy(e), type_comment=None)
                    pre.append(ast.copy_location(a, loop))
            if idx_target:
                sub[idx_target] = ast.Constant(value=k)
            body = [copy.deepcopy(st) for st in loop.body]
            # a name whose first occurrence in the body is a top-level plain store and that is not read outside the loop is a
            # per-iteration temporary: it gets a name per iteration; other names assigned in the body keep theirs (loop-carried)
            for tmp in temporaries:
                ren[tmp] = f'{tmp}__{k}'
            for i, st in enumerate(body):
                if ren:
                    st = _Rename(ren).visit(st)
                if sub:
                    st = _SubstConst(sub).visit(st)
                body[i] = st
            out += pre + body
        for st in out:
            ast.fix_missing_locations(st)
        return out

    def walk_block(blk):
        nonlocal done
        new = []
        for st in blk:
            for fld in ('body', 'orelse', 'finalbody'):
                sub = getattr(st, fld, None)
                if isinstance(sub, list) and not isinstance(st, (ast.FunctionDef, ast.ClassDef, ast.Lambda)):
                    setattr(st, fld, walk_block(sub))
            for h in getattr(st, 'handlers', []) or []:
                h.body = walk_block(h.body)
            if isinstance(st, ast.For):
                u = unroll(st)
                if u is not None:
                    # a display bound to a local only for this loop is no longer read
                    if isinstance(st.iter, ast.Name):
                        dead.add(st.iter.id)
                    for a in getattr(st.iter, 'args', []) if isinstance(st.iter, ast.Call) else []:
                        for x in ast.walk(a):
                            if isinstance(x, ast.Name) and x.id in single_defs:
                                dead.add(x.id)
                    new += u
                    done += 1
                    continue
            new.append(st)
        return new

    dead: Set[str] = set()
    fn.body = walk_block(fn.body)
    if dead:
        class Drop(ast.NodeTransformer):
            def visit_Assign(s, node):
                if node in [single_defs[d] for d in dead if d in single_defs]:
                    return None
                return node
        Drop().visit(fn)
        for n in ast.walk(fn):
            for fld in ('body', 'orelse', 'finalbody'):
                b = getattr(n, fld, None)
                if isinstance(b, list) and not b and fld == 'body':
                    b.append(ast.Pass())
    if done:
        ast.fix_missing_locations(fn)
    return done


class _AttrFold(ast.NodeTransformer):
    """getattr(x, 'name') -> x.name;  setattr(x, 'name', v) as a statement -> x.name = v   (constant identifier names only)"""

    def visit_Call(self, node):
        node = self.generic_visit(node)
        if isinstance(node.func, ast.Name) and node.func.id == 'getattr' and len(node.args) == 2 and not node.keywords \
                and isinstance(node.args[1], ast.Constant) and isinstance(node.args[1].value, str) and node.args[1].value.isidentifier():
            return ast.copy_location(ast.Attribute(value=node.args[0], attr=node.args[1].value, ctx=ast.Load()), node)
        return node

    def visit_Expr(self, node):
        node = self.generic_visit(node)
        c = node.value
        if isinstance(c, ast.Call) and isinstance(c.func, ast.Name) and c.func.id == 'setattr' and len(c.args) == 3 and not c.keywords \
                and isinstance(c.args[1], ast.Constant) and isinstance(c.args[1].value, str) and c.args[1].value.isidentifier():
            return ast.copy_location(ast.Assign(targets=[ast.Attribute(value=c.args[0], attr=c.args[1].value, ctx=ast.Store())],
                                                value=c.args[2], type_comment=None), node)
        return node


class _MatchDesugar(ast.NodeTransformer):
    """`match subject: case P [if g]: body` -> an if / elif chain the engines understand:
         case str() / np.ndarray()        isinstance(subject, str)
         case None / True                  subject is None
         case 3 | 'a'                      subject == 3 or subject == 'a'
         case _                            else
         case P as name / capture name     test of P; `name = subject` first in the body
         sequence / mapping / sub-patterns an opaque test `__match__(subject)`; captured names are bound to the subject
    The subject is evaluated once into a temporary when it is not a plain name."""

    def __init__(self):
        self.n = 0

    def _test(self, pat, subj, binds):
        if isinstance(pat, ast.MatchValue):
            return ast.Compare(left=subj(), ops=[ast.Eq()], comparators=[pat.value])
        if isinstance(pat, ast.MatchSingleton):
            return ast.Compare(left=subj(), ops=[ast.Is()], comparators=[ast.Constant(value=pat.value)])
        if isinstance(pat, ast.MatchOr):
            return ast.BoolOp(op=ast.Or(), values=[self._test(p_, subj, binds) or ast.Constant(value=True) for p_ in pat.patterns])
        if isinstance(pat, ast.MatchAs):
            if pat.name is not None:
                binds.append(pat.name)
            if pat.pattern is None:
                return None            # irrefutable
            return self._test(pat.pattern, subj, binds)
        if isinstance(pat, ast.MatchClass):
            t = ast.Call(func=ast.Name(id='isinstance', ctx=ast.Load()), args=[subj(), pat.cls], keywords=[])
            subs = list(pat.patterns) + list(pat.kwd_patterns)
            if subs:
                for sp in subs:
                    self._captures(sp, binds)
                t = ast.BoolOp(op=ast.And(), values=[t, ast.Call(func=ast.Name(id='__match__', ctx=ast.Load()), args=[subj()], keywords=[])])
            return t
        self._captures(pat, binds)
        return ast.Call(func=ast.Name(id='__match__', ctx=ast.Load()), args=[subj()], keywords=[])

    def _captures(self, pat, binds):
        for n in ast.walk(pat):
            if isinstance(n, ast.MatchAs) and n.name is not None:
                binds.append(n.name)
            elif isinstance(n, ast.MatchStar) and n.name is not None:
                binds.append(n.name)
            elif isinstance(n, ast.MatchMapping) and n.rest is not None:
                binds.append(n.rest)

    def visit_Match(self, node: ast.Match):
        self.generic_visit(node)
        pre = []
        if isinstance(node.subject, ast.Name):
            sname = node.subject.id
        elif isinstance(node.subject, ast.NamedExpr) and isinstance(node.subject.target, ast.Name):
            # match value := expr:   the walrus target IS the subject
            sname = node.subject.target.id
            pre.append(ast.Assign(targets=[ast.Name(id=sname, ctx=ast.Store())], value=node.subject.value, type_comment=None))
        else:
            self.n += 1
            sname = f'__m{self.n}'
            pre.append(ast.Assign(targets=[ast.Name(id=sname, ctx=ast.Store())], value=node.subject, type_comment=None))

        def subj():
            return ast.Name(id=sname, ctx=ast.Load())
        chain = None
        tail = None
        for case in node.cases:
            binds: List[str] = []
            t = self._test(case.pattern, subj, binds)
            body = [ast.Assign(targets=[ast.Name(id=b, ctx=ast.Store())], value=subj(), type_comment=None) for b in binds if b != sname] \
                + list(case.body)
            if case.guard is not None:
                t = case.guard if t is None else ast.BoolOp(op=ast.And(), values=[t, case.guard])
                if binds:
                    # the guard may read the captures: bind them before the chain (conservative)
                    pre += [ast.Assign(targets=[ast.Name(id=b, ctx=ast.Store())], value=subj(), type_comment=None) for b in binds if b != sname]
            if t is None:
                if tail is None:
                    chain = body if chain is None else chain
                    if chain is body:
                        pre += body
                        chain = []
                else:
                    tail.orelse = body
                break
            new_if = ast.If(test=t, body=body, orelse=[])
            if tail is None:
                chain = [new_if]
            else:
                tail.orelse = [new_if]
            tail = new_if
        out = pre + (chain if isinstance(chain, list) else [])
        for st in out:
            ast.copy_location(st, node)
            ast.fix_missing_locations(st)
        return out or [ast.copy_location(ast.Pass(), node)]


class _ConstFold(ast.NodeTransformer):
    """constant conditions: comparison of two constants, issubclass of two classes of the module, `if <const>`, `a if <const> else b`"""

    def __init__(self, bases):
        self.bases = bases          # class name -> [base names] for the classes of this module
        self.changed = False

    def _is_sub(self, a, b):
        seen, todo = set(), [a]
        while todo:
            c = todo.pop()
            if c == b:
                return True
            if c in seen:
                continue
            seen.add(c)
            todo += self.bases.get(c, [])
        return False

    def visit_Call(self, node):
        node = self.generic_visit(node)
        if isinstance(node.func, ast.Name) and node.func.id in ('tuple', 'list') and not node.keywords and len(node.args) <= 1:
            if not node.args:
                self.changed = True
                return ast.copy_location((ast.Tuple if node.func.id == 'tuple' else ast.List)(elts=[], ctx=ast.Load()), node)
            a = node.args[0]
            if isinstance(a, (ast.Tuple, ast.List)) and not any(isinstance(e, ast.Starred) for e in a.elts):
                self.changed = True
                return ast.copy_location((ast.Tuple if node.func.id == 'tuple' else ast.List)(elts=list(a.elts), ctx=ast.Load()), node)
        if isinstance(node.func, ast.Name) and node.func.id == 'issubclass' and len(node.args) == 2 and not node.keywords \
                and all(isinstance(a, ast.Name) and a.id in self.bases for a in node.args):
            self.changed = True
            return ast.copy_location(ast.Constant(value=self._is_sub(node.args[0].id, node.args[1].id)), node)
        return node

    def visit_Compare(self, node):
        node = self.generic_visit(node)
        if len(node.ops) == 1 and isinstance(node.left, ast.Constant):
            r, op = node.comparators[0], node.ops[0]
            val = None
            if isinstance(r, ast.Constant) and type(r.value) is type(node.left.value) or \
                    (isinstance(r, ast.Constant) and (r.value is None or node.left.value is None)):
                if isinstance(op, ast.Eq):
                    val = node.left.value == r.value
                elif isinstance(op, ast.NotEq):
                    val = node.left.value != r.value
                elif isinstance(op, ast.Is) and (r.value is None or node.left.value is None):
                    val = node.left.value is r.value
                elif isinstance(op, ast.IsNot) and (r.value is None or node.left.value is None):
                    val = node.left.value is not r.value
            elif isinstance(r, (ast.Tuple, ast.List, ast.Set)) and all(isinstance(e, ast.Constant) for e in r.elts) \
                    and isinstance(op, (ast.In, ast.NotIn)):
                val = (node.left.value in [e.value for e in r.elts]) == isinstance(op, ast.In)
            if val is not None:
                self.changed = True
                return ast.copy_location(ast.Constant(value=bool(val)), node)
        return node

    def visit_IfExp(self, node):
        node = self.generic_visit(node)
        if isinstance(node.test, ast.Constant) and isinstance(node.test.value, bool):
            self.changed = True
            return node.body if node.test.value else node.orelse
        return node

    def visit_BoolOp(self, node):
        node = self.generic_visit(node)
        is_and = isinstance(node.op, ast.And)
        vals = []
        for v in node.values:
            if isinstance(v, ast.Constant) and isinstance(v.value, bool):
                if v.value == (not is_and):          # False in an `and`, True in an `or`: decides (operands before it are kept only
                    if not vals:                     # when there are none: they might have effects)
                        self.changed = True
                        return ast.copy_location(ast.Constant(value=v.value), node)
                    vals.append(v)
                    break
                self.changed = True                  # neutral element: dropped
                continue
            vals.append(v)
        if not vals:
            self.changed = True
            return ast.copy_location(ast.Constant(value=is_and), node)
        if len(vals) == 1:
            return vals[0]
        node.values = vals
        return node

    def visit_UnaryOp(self, node):
        node = self.generic_visit(node)
        if isinstance(node.op, ast.Not) and isinstance(node.operand, ast.Constant) and isinstance(node.operand.value, bool):
            self.changed = True
            return ast.copy_location(ast.Constant(value=not node.operand.value), node)
        return node

    def visit_BinOp(self, node):
        node = self.generic_visit(node)
        seq = (ast.Tuple, ast.List)
        if isinstance(node.op, ast.Add) and isinstance(node.left, seq) and isinstance(node.right, seq) and type(node.left) is type(node.right) \
                and not any(isinstance(e, ast.Starred) for e in node.left.elts + node.right.elts):
            self.changed = True
            return ast.copy_location(type(node.left)(elts=list(node.left.elts) + list(node.right.elts), ctx=ast.Load()), node)
        if isinstance(node.op, ast.Mult) and isinstance(node.left, seq) and isinstance(node.right, ast.Constant) \
                and isinstance(node.right.value, int) and not isinstance(node.right.value, bool) and 0 <= node.right.value <= 4 \
                and len(node.left.elts) == 1 and (_is_plain_literal(node.left.elts[0]) or _is_slice_none(node.left.elts[0])):
            self.changed = True
            return ast.copy_location(type(node.left)(elts=[copy.deepcopy(node.left.elts[0]) for _ in range(node.right.value)], ctx=ast.Load()), node)
        return node

    def visit_Subscript(self, node):
        node = self.generic_visit(node)
        if isinstance(node.ctx, ast.Load) and isinstance(node.value, (ast.Tuple, ast.List)) and isinstance(node.slice, ast.Constant) \
                and isinstance(node.slice.value, int) and not isinstance(node.slice.value, bool) \
                and -len(node.value.elts) <= node.slice.value < len(node.value.elts) \
                and not any(isinstance(e, ast.Starred) for e in node.value.elts):
            self.changed = True
            return node.value.elts[node.slice.value]
        # x[(a, slice(None))]  ->  x[a, :]
        if isinstance(node.slice, ast.Tuple) and any(_is_slice_none(e) for e in node.slice.elts):
            self.changed = True
            node.slice = ast.copy_location(ast.Tuple(elts=[ast.Slice(lower=None, upper=None, step=None) if _is_slice_none(e) else e
                                                           for e in node.slice.elts], ctx=ast.Load()), node.slice)
        return node

    def visit_If(self, node):
        node.test = self.visit(node.test)
        if isinstance(node.test, ast.Constant) and isinstance(node.test.value, bool):
            self.changed = True
            return self._stmts(node.body if node.test.value else node.orelse) or [ast.copy_location(ast.Pass(), node)]
        node.body = self._stmts(node.body) or [ast.copy_location(ast.Pass(), node)]
        node.orelse = self._stmts(node.orelse)
        return node

    def _stmts(self, stmts):
        out = []
        for st in stmts:
            r = self.visit(st)
            out += r if isinstance(r, list) else [r]
        return out


def _fuse_genexp_loops(fn: ast.FunctionDef) -> int:
    """`g = (E for T in IT if C)` bound once and read once, as the iterable of `for X in g` / `for i, X in enumerate(g)` (possibly
    through single-use copies `h = g`):   for T in IT: if C: X = E; <body>   (enumerate only without a condition).  The
    comprehension variable is renamed when the function uses its name elsewhere."""
    done = 0
    for _ in range(4):
        stores: Dict[str, List[ast.Assign]] = {}
        nstores: Dict[str, int] = {}
        loads: Dict[str, int] = {}
        for n in ast.walk(fn):
            if isinstance(n, ast.Name):
                if isinstance(n.ctx, ast.Load):
                    loads[n.id] = loads.get(n.id, 0) + 1
                else:
                    nstores[n.id] = nstores.get(n.id, 0) + 1
            if isinstance(n, ast.Assign) and len(n.targets) == 1 and isinstance(n.targets[0], ast.Name):
                stores.setdefault(n.targets[0].id, []).append(n)
        params = {a.arg for a in fn.args.args + fn.args.kwonlyargs + fn.args.posonlyargs}

        def source(name, depth=0):
            """(genexp, [assign statements that become dead]) for a name bound once to a generator expression / list comprehension and
            read once"""
            if depth > 4 or name in params or nstores.get(name) != 1 or loads.get(name) != 1 or len(stores.get(name, [])) != 1:
                return None
            a = stores[name][0]
            if isinstance(a.value, (ast.GeneratorExp, ast.ListComp)):
                return a.value, [a]
            if isinstance(a.value, ast.Name):
                r = source(a.value.id, depth + 1)
                if r is not None:
                    return r[0], r[1] + [a]
            return None
        def local_source(lp, name):
            """one binding per arm of a branch: every store of the name is `name = <comprehension>` directly followed (nothing that
            mentions the name in between) by its only reader in the same block"""
            if name in params or nstores.get(name, 0) != len(stores.get(name, [])) or loads.get(name, 0) != nstores.get(name, 0):
                return None
            if not all(isinstance(a.value, (ast.GeneratorExp, ast.ListComp)) for a in stores[name]):
                return None
            pairs = 0
            mine = None
            for holder in ast.walk(fn):
                for fld in ('body', 'orelse', 'finalbody'):
                    blk = getattr(holder, fld, None)
                    if not isinstance(blk, list):
                        continue
                    for j, st in enumerate(blk):
                        if st in stores[name]:
                            nxt = next((s2 for s2 in blk[j + 1:] if any(isinstance(x, ast.Name) and x.id == name for x in ast.walk(s2))), None)
                            if nxt is None or sum(1 for x in ast.walk(nxt) if isinstance(x, ast.Name) and x.id == name) != 1 \
                                    or any(isinstance(x, ast.Name) and x.id == name and not isinstance(x.ctx, ast.Load) for x in ast.walk(nxt)):
                                return None
                            pairs += 1
                            if nxt is lp:
                                mine = st
            if pairs != len(stores[name]) or mine is None:
                return None
            return mine.value, [mine]
        target = None
        for lp in ast.walk(fn):
            if not isinstance(lp, ast.For):
                continue
            it, enum = lp.iter, False
            if isinstance(it, ast.Call) and isinstance(it.func, ast.Name) and it.func.id == 'enumerate' and len(it.args) == 1 and not it.keywords \
                    and isinstance(lp.target, ast.Tuple) and len(lp.target.elts) == 2:
                it, enum = it.args[0], True
            if not isinstance(it, ast.Name):
                continue
            r = source(it.id) or local_source(lp, it.id)
            if r is None:
                continue
            comp, dead = r
            if len(comp.generators) != 1 or comp.generators[0].is_async or (enum and comp.generators[0].ifs):
                continue
            target = (lp, comp, dead, enum)
            break
        if target is None:
            break
        lp, comp, dead, enum = target
        g = comp.generators[0]
        elt, gtarget, giter, gifs = copy.deepcopy(comp.elt), copy.deepcopy(g.target), g.iter, [copy.deepcopy(c) for c in g.ifs]
        # the comprehension variable has its own scope: rename when the name is used by the function
        ren = {}
        for x in ast.walk(gtarget):
            if isinstance(x, ast.Name) and (x.id in params or loads.get(x.id, 0) + nstores.get(x.id, 0) >
                                            sum(1 for y in ast.walk(comp) if isinstance(y, ast.Name) and y.id == x.id)):
                ren[x.id] = f'__cx_{x.id}'
        if ren:
            elt = _Rename(ren).visit(elt)
            gtarget = _Rename(ren).visit(gtarget)
            gifs = [_Rename(ren).visit(c) for c in gifs]
        inner_target = lp.target.elts[1] if enum else lp.target
        bind = ast.Assign(targets=[inner_target], value=elt, type_comment=None)
        ast.copy_location(bind, lp)
        body = [bind] + lp.body
        for c in reversed(gifs):
            body = [ast.copy_location(ast.If(test=c, body=body, orelse=[]), lp)]
        if enum:
            lp.target = ast.Tuple(elts=[lp.target.elts[0], gtarget], ctx=ast.Store())
            lp.iter.args[0] = giter
        else:
            lp.target = gtarget
            lp.iter = giter
        for x in ast.walk(lp.target):
            if isinstance(x, (ast.Name, ast.Tuple, ast.List)):
                x.ctx = ast.Store()
        lp.body = body
        dead_ids = {id(a) for a in dead}
        for holder in ast.walk(fn):
            for fld in ('body', 'orelse', 'finalbody'):
                blk = getattr(holder, fld, None)
                if isinstance(blk, list) and any(id(x) in dead_ids for x in blk):
                    blk[:] = [x for x in blk if id(x) not in dead_ids] or [ast.Pass()]
        ast.fix_missing_locations(fn)
        done += 1
    return done


def _partial_eval(fn: ast.FunctionDef, bases: Dict[str, List[str]], module_consts: Optional[Dict[str, ast.expr]] = None) -> int:
    """After inlining, a function that received the body of a table- or flag-driven helper is specialised for the constants it was
    called with: single-assignment locals bound to literals are propagated, constant conditions are folded, `L = [..]; L.append(x)`
    becomes one display, loops over displays are unrolled, getattr / setattr with a constant name become attribute accesses, and a
    single-assignment tuple used as an index is written into the subscript (`slice(None)` as `:`).  To a fixpoint (bounded)."""
    total = 0
    for _ in range(4):
        changed = 0
        stores: Dict[str, int] = {}
        for n in ast.walk(fn):
            if isinstance(n, ast.Name) and isinstance(n.ctx, (ast.Store, ast.Del)):
                stores[n.id] = stores.get(n.id, 0) + 1
        params = {a.arg for n in ast.walk(fn) if isinstance(n, ast.arguments) for a in n.args + n.kwonlyargs + n.posonlyargs} | \
            {n.vararg.arg for n in ast.walk(fn) if isinstance(n, ast.arguments) and n.vararg} | \
            {n.kwarg.arg for n in ast.walk(fn) if isinstance(n, ast.arguments) and n.kwarg}
        # (a) literal single-assignment locals (top-level statements of the function or of any block: one store in the whole function)
        lit: Dict[str, ast.expr] = {}
        idx: Dict[str, ast.expr] = {}
        for n in ast.walk(fn):
            if isinstance(n, ast.Assign) and len(n.targets) == 1 and isinstance(n.targets[0], ast.Name):
                v = n.targets[0].id
                if stores.get(v) != 1 or v in params:
                    continue
                if isinstance(n.value, ast.Constant) and isinstance(n.value.value, (str, int, bool, type(None))) \
                        and not isinstance(n.value.value, float):
                    lit[v] = n.value
                elif _attr_path(n.value) is not None and v.startswith('__h'):
                    # `__hK_x = self.a.b` (a helper's local bound to a field of an argument): the path itself, unless the function
                    # stores to an attribute of that name or rebinds the root
                    root, attrs = _attr_path(n.value)
                    if stores.get(root, 0) == 0 and root in params and not any(
                            isinstance(x, ast.Attribute) and isinstance(x.ctx, (ast.Store, ast.Del)) and x.attr in attrs for x in ast.walk(fn)):
                        lit[v] = n.value
                elif isinstance(n.value, ast.Tuple) and n.value.elts and all(
                        (isinstance(e, ast.Name) and (stores.get(e.id, 0) == 1 or (e.id in params and stores.get(e.id, 0) == 0)))
                        or _is_slice_none(e) for e in n.value.elts) and any(_is_slice_none(e) for e in n.value.elts):
                    idx[v] = n.value
        # module-level constants (tuples / lists of literals, literals) that no function rebinds
        for mc, mv in (module_consts or {}).items():
            if mc not in stores and mc not in params and mc not in lit:
                lit[mc] = mv
        # `L = [a, b]` bound once and only READ (subscripted by constants, iterated, converted): the display itself
        for n in ast.walk(fn):
            if isinstance(n, ast.Assign) and len(n.targets) == 1 and isinstance(n.targets[0], ast.Name) and isinstance(n.value, (ast.Tuple, ast.List)) \
                    and n.targets[0].id.startswith('__h') and stores.get(n.targets[0].id) == 1 and n.targets[0].id not in lit \
                    and not any(isinstance(e, ast.Starred) for e in n.value.elts) \
                    and all(_is_plain_literal(e) or _is_slice_none(e) or (isinstance(e, ast.Name) and (
                        stores.get(e.id, 0) == 1 or (e.id in params and stores.get(e.id, 0) == 0))) for e in n.value.elts):
                v = n.targets[0].id
                uses = [x for x in ast.walk(fn) if isinstance(x, ast.Name) and x.id == v and isinstance(x.ctx, ast.Load)]
                par = {}
                for p_ in ast.walk(fn):
                    for ch in ast.iter_child_nodes(p_):
                        par[id(ch)] = p_
                ok_use = True
                for u in uses:
                    p_ = par.get(id(u))
                    if isinstance(p_, ast.Subscript) and p_.value is u and isinstance(p_.ctx, ast.Load):
                        continue
                    if isinstance(p_, ast.Call) and isinstance(p_.func, ast.Name) and p_.func.id in ('tuple', 'list', 'len', 'enumerate', 'zip') and u in p_.args:
                        continue
                    if isinstance(p_, ast.For) and p_.iter is u:
                        continue
                    ok_use = False
                if ok_use and uses:
                    lit[v] = n.value
        if lit or idx:
            class Sub(ast.NodeTransformer):
                def visit_Name(s, node):
                    nonlocal changed
                    if isinstance(node.ctx, ast.Load) and node.id in lit:
                        changed += 1
                        return ast.copy_location(copy.deepcopy(lit[node.id]), node)
                    return node

                def visit_Subscript(s, node):
                    nonlocal changed
                    node = s.generic_visit(node)
                    if isinstance(node.slice, ast.Name) and node.slice.id in idx:
                        changed += 1
                        node.slice = ast.copy_location(ast.Tuple(
                            elts=[ast.Slice(lower=None, upper=None, step=None) if _is_slice_none(e) else copy.deepcopy(e)
                                  for e in idx[node.slice.id].elts], ctx=ast.Load()), node.slice)
                    return node

                def visit_FunctionDef(s, node):
                    return node if node is not fn else s.generic_visit(node)

                def visit_Lambda(s, node):
                    return node
            Sub().visit(fn)
        # (b) constant conditions
        cf = _ConstFold(bases)
        fn.body = cf._stmts(fn.body) or [ast.Pass()]
        changed += 1 if cf.changed else 0
        # (c) L = [..]; L.append(x)  in one block, nothing that mentions L in between
        for holder in [n for n in ast.walk(fn) if isinstance(getattr(n, 'body', None), list)]:
            for fld in ('body', 'orelse', 'finalbody'):
                blk = getattr(holder, fld, None)
                if not isinstance(blk, list):
                    continue
                i = 0
                while i < len(blk):
                    st = blk[i]
                    if isinstance(st, ast.Assign) and len(st.targets) == 1 and isinstance(st.targets[0], ast.Name) \
                            and isinstance(st.value, ast.List) and not any(isinstance(e, ast.Starred) for e in st.value.elts):
                        v = st.targets[0].id
                        j = i + 1
                        while j < len(blk):
                            s2 = blk[j]
                            if isinstance(s2, ast.Assign) and len(s2.targets) == 1 and isinstance(s2.targets[0], ast.Subscript) \
                                    and isinstance(s2.targets[0].value, ast.Name) and s2.targets[0].value.id == v \
                                    and isinstance(s2.targets[0].slice, ast.Constant) and isinstance(s2.targets[0].slice.value, int) \
                                    and not isinstance(s2.targets[0].slice.value, bool) \
                                    and -len(st.value.elts) <= s2.targets[0].slice.value < len(st.value.elts) \
                                    and not any(isinstance(x, ast.Name) and x.id == v for x in ast.walk(s2.value)):
                                st.value.elts[s2.targets[0].slice.value] = s2.value
                                del blk[j]
                                changed += 1
                                continue
                            if isinstance(s2, ast.Expr) and isinstance(s2.value, ast.Call) and isinstance(s2.value.func, ast.Attribute) \
                                    and s2.value.func.attr == 'append' and isinstance(s2.value.func.value, ast.Name) \
                                    and s2.value.func.value.id == v and len(s2.value.args) == 1 and not s2.value.keywords \
                                    and not any(isinstance(x, ast.Name) and x.id == v for x in ast.walk(s2.value.args[0])):
                                st.value.elts.append(s2.value.args[0])
                                del blk[j]
                                changed += 1
                                continue
                            if any(isinstance(x, ast.Name) and x.id == v for x in ast.walk(s2)):
                                break
                            if isinstance(s2, ast.Pass):
                                j += 1
                                continue
                            j += 1
                    i += 1
        # (d) loops over displays, (e) getattr / setattr, (f) loops over a generator expression bound to a local
        changed += _unroll_literal_loops(fn)
        changed += _fuse_genexp_loops(fn)
        before = ast.dump(fn) if changed == 0 else None
        _AttrFold().visit(fn)
        if before is not None and ast.dump(fn) != before:
            changed += 1
        ast.fix_missing_locations(fn)
        total += changed
        if not changed:
            break
    return total


def _attr_path(e):
    attrs = []
    while isinstance(e, ast.Attribute):
        attrs.append(e.attr)
        e = e.value
    if isinstance(e, ast.Name) and attrs:
        return e.id, attrs
    return None


def _is_slice_none(e) -> bool:
    return isinstance(e, ast.Call) and isinstance(e.func, ast.Name) and e.func.id == 'slice' and len(e.args) == 1 and not e.keywords \
        and isinstance(e.args[0], ast.Constant) and e.args[0].value is None


def _spread_constant_kwargs(fn: ast.FunctionDef) -> int:
    """`opts = dict(a=x, b=y)` (or `{'a': x, 'b': y}`) bound once, never modified, and used only as `**opts`:  every `f(.., **opts)`
    becomes `f(.., a=x, b=y)`.  The values must be names that are not rebound in the function (parameters, single-assignment locals)
    or constants, so that reading them at the call is reading them at the dict display."""
    stores: Dict[str, int] = {}
    for n in ast.walk(fn):
        if isinstance(n, ast.Name) and isinstance(n.ctx, (ast.Store, ast.Del)):
            stores[n.id] = stores.get(n.id, 0) + 1
    params = {a.arg for a in fn.args.args + fn.args.kwonlyargs + fn.args.posonlyargs}
    cands = {}
    for n in ast.walk(fn):
        if isinstance(n, ast.Assign) and len(n.targets) == 1 and isinstance(n.targets[0], ast.Name) and stores.get(n.targets[0].id) == 1 \
                and n.targets[0].id not in params:
            v = n.value
            items = None
            if isinstance(v, ast.Call) and isinstance(v.func, ast.Name) and v.func.id == 'dict' and not v.args and v.keywords \
                    and all(k.arg is not None for k in v.keywords):
                items = [(k.arg, k.value) for k in v.keywords]
            elif isinstance(v, ast.Dict) and v.keys and all(isinstance(k, ast.Constant) and isinstance(k.value, str) and k.value.isidentifier()
                                                            for k in v.keys):
                items = [(k.value, val) for k, val in zip(v.keys, v.values)]
            if items is None:
                continue

            def stable(e):
                if isinstance(e, ast.Constant):
                    return True
                if isinstance(e, ast.Name):
                    return (e.id in params and stores.get(e.id, 0) == 0) or (e.id not in params and stores.get(e.id, 0) == 1)
                if isinstance(e, ast.Attribute):
                    return stable(e.value)
                return False
            if all(stable(val) for _, val in items):
                cands[n.targets[0].id] = (n, items)
    if not cands:
        return 0
    # every load of the name is the value of a `**name` keyword
    star_uses: Dict[str, List[ast.keyword]] = {}
    other: Set[str] = set()
    kw_values = {}
    for n in ast.walk(fn):
        if isinstance(n, ast.Call):
            for k in n.keywords:
                if k.arg is None and isinstance(k.value, ast.Name) and k.value.id in cands:
                    kw_values[id(k.value)] = (n, k)
    for n in ast.walk(fn):
        if isinstance(n, ast.Name) and isinstance(n.ctx, ast.Load) and n.id in cands and id(n) not in kw_values:
            other.add(n.id)
    done = 0
    for nid, (call, k) in kw_values.items():
        name = k.value.id
        if name in other:
            continue
        _, items = cands[name]
        explicit = {x.arg for x in call.keywords if x.arg is not None}
        if any(key in explicit for key, _ in items):
            continue
        pos = call.keywords.index(k)
        call.keywords[pos:pos + 1] = [ast.keyword(arg=key, value=copy.deepcopy(val)) for key, val in items]
        done += 1
    if done:
        # a dict that was only spread is no longer read: its display goes too (it would look like a discarded computation)
        still = {n.id for n in ast.walk(fn) if isinstance(n, ast.Name) and isinstance(n.ctx, ast.Load)}
        dead = {id(cands[nm][0]) for nm in cands if nm not in still and nm not in other}
        if dead:
            for holder in ast.walk(fn):
                for fld in ('body', 'orelse', 'finalbody'):
                    blk = getattr(holder, fld, None)
                    if isinstance(blk, list) and any(id(x) in dead for x in blk):
                        blk[:] = [x for x in blk if id(x) not in dead] or [ast.Pass()]
        ast.fix_missing_locations(fn)
    return done


_ABC_NAMES = {'Iterable', 'Iterator', 'Sequence', 'MutableSequence', 'Mapping', 'MutableMapping', 'Collection', 'Container', 'Sized',
              'Hashable', 'Number', 'Real', 'Integral', 'Complex', 'Callable', 'Generator', 'Set', 'MutableSet', 'object'}


def _desugar_singledispatch(tree: ast.Module, known: Set[str]) -> int:
    """`@functools.singledispatch def f(x, ..): D` with `@f.register(T) def _(x, ..): B_T` (also the annotation form and stacked
    registrations), f not in the pinned tree: one function with an isinstance chain on the first argument - concrete classes first,
    abstract base classes after them (singledispatch picks the most specific registered class), `type(None)` as `x is None`, the
    undecorated body as the final else.  Parameters of the implementations are renamed by position to those of f."""
    done = 0

    def deco_name(d):
        return ast.unparse(d.func if isinstance(d, ast.Call) else d)
    generic = {n.name: n for n in tree.body if isinstance(n, ast.FunctionDef) and n.name not in known
               and any(deco_name(d) in ('singledispatch', 'functools.singledispatch') for d in n.decorator_list)}
    for name, g in generic.items():
        if g.args.vararg or g.args.kwarg or not g.args.args:
            continue
        gparams = [a.arg for a in g.args.args]
        impls = []          # (type expressions, FunctionDef)
        ok = True
        for n in tree.body:
            if not isinstance(n, ast.FunctionDef) or n is g:
                continue
            regs = [d for d in n.decorator_list if deco_name(d) in (f'{name}.register',)]
            if not regs:
                continue
            types = []
            for d in regs:
                if isinstance(d, ast.Call) and d.args:
                    types.append(d.args[0])
                elif n.args.args and n.args.args[0].annotation is not None:
                    types.append(n.args.args[0].annotation)
                else:
                    ok = False
            if len(n.decorator_list) != len(regs) or n.args.vararg or n.args.kwarg or len(n.args.args) != len(gparams):
                ok = False
            impls.append((types, n))
        if not ok or not impls:
            continue

        def is_abc(t):
            return ast.unparse(t).split('.')[-1] in _ABC_NAMES
        arms = []
        for types, n in impls:
            body = copy.deepcopy(n.body)
            ren = {a.arg: gp for a, gp in zip(n.args.args, gparams) if a.arg != gp}
            if ren:
                # a local of the implementation must not collide with a parameter name of f
                if set(ren.values()) & (_locals_of(n) - {a.arg for a in n.args.args}):
                    ok = False
                    break
                body = [_Rename(ren).visit(st) for st in body]
            for t in types:
                arms.append((t, body))
        if not ok:
            continue
        arms.sort(key=lambda a: is_abc(a[0]))            # stable: concrete classes first
        x = gparams[0]
        chain_head = None
        tail = None
        for t, body in arms:
            ts = ast.unparse(t)
            if ts in ('type(None)', 'NoneType', 'types.NoneType'):
                test = ast.Compare(left=ast.Name(id=x, ctx=ast.Load()), ops=[ast.Is()], comparators=[ast.Constant(value=None)])
            else:
                test = ast.Call(func=ast.Name(id='isinstance', ctx=ast.Load()), args=[ast.Name(id=x, ctx=ast.Load()), copy.deepcopy(t)], keywords=[])
            node = ast.If(test=test, body=copy.deepcopy(body), orelse=[])
            if chain_head is None:
                chain_head = node
            else:
                tail.orelse = [node]
            tail = node
        default = list(g.body)
        doc = []
        if default and isinstance(default[0], ast.Expr) and isinstance(default[0].value, ast.Constant) and isinstance(default[0].value.value, str):
            doc, default = default[:1], default[1:]
        tail.orelse = default or [ast.Pass()]
        g.body = doc + [chain_head]
        g.decorator_list = [d for d in g.decorator_list if deco_name(d) not in ('singledispatch', 'functools.singledispatch')]
        for _, n in impls:
            if n in tree.body:
                tree.body.remove(n)
        ast.copy_location(chain_head, g)
        ast.fix_missing_locations(g)
        done += 1
    return done


def _inline_decorators(tree: ast.Module, known: Set[str]) -> int:
    """A NEW module-level decorator of the usual shape

        def deco(func):
            @functools.wraps(func)
            def wrapper(<params>):  W ... func(<args>) ...
            return wrapper

    applied (bare, `@deco`) to a function or method g: g becomes the wrapper (its parameter list and body, `func` -> `__orig_g`) and the
    undecorated g is kept as the module-level helper `__orig_g`, which the ordinary inliner then expands.  A wrapper that takes
    (*args, **kwargs) and only forwards them is given g's own parameter list."""
    decos = {}
    for n in tree.body:
        if not (isinstance(n, ast.FunctionDef) and n.name not in known and len(n.args.args) == 1 and not n.decorator_list):
            continue
        body = [st for st in n.body if not (isinstance(st, ast.Expr) and isinstance(st.value, ast.Constant))]
        if len(body) == 2 and isinstance(body[0], ast.FunctionDef) and isinstance(body[1], ast.Return) \
                and isinstance(body[1].value, ast.Name) and body[1].value.id == body[0].name:
            w = body[0]
            if all(ast.unparse(d.func if isinstance(d, ast.Call) else d) in ('wraps', 'functools.wraps') for d in w.decorator_list):
                decos[n.name] = (n.args.args[0].arg, w)
    if not decos:
        return 0
    done = 0
    new_top = []

    def apply(g: ast.FunctionDef, owner: Optional[str]):
        nonlocal done
        if len(g.decorator_list) != 1 or not isinstance(g.decorator_list[0], ast.Name) or g.decorator_list[0].id not in decos:
            return
        fparam, w = decos[g.decorator_list[0].id]
        w = copy.deepcopy(w)
        w.decorator_list = []              # functools.wraps(func): metadata only
        orig_name = f'__orig_{owner + "_" if owner else ""}{g.name}'
        calls = [c for c in ast.walk(w) if isinstance(c, ast.Call) and isinstance(c.func, ast.Name) and c.func.id == fparam]
        other = [x for x in ast.walk(w) if isinstance(x, ast.Name) and x.id == fparam and not any(x is c.func for c in calls)]
        if not calls or other:
            return
        if w.args.vararg or w.args.kwarg:
            # pure forwarding of (*args, **kwargs): use g's own parameters
            va, ka = (w.args.vararg.arg if w.args.vararg else None), (w.args.kwarg.arg if w.args.kwarg else None)
            lead = [a.arg for a in w.args.args]          # explicit leading parameters: (rdms, *args, **kwargs)
            if w.args.kwonlyargs or len(lead) > len(g.args.args):
                return
            for c in calls:
                head = c.args[:len(lead)]
                fw_ok = len(c.args) >= len(lead) and all(isinstance(a, ast.Name) and a.id == nm for a, nm in zip(head, lead)) and \
                    all(isinstance(a, ast.Starred) and isinstance(a.value, ast.Name) and a.value.id == va for a in c.args[len(lead):]) and \
                    all(k.arg is None and isinstance(k.value, ast.Name) and k.value.id == ka for k in c.keywords)
                if not fw_ok:
                    return
            # the wrapper's names for the leading parameters become g's own names
            ren = {nm: ga.arg for nm, ga in zip(lead, g.args.args) if nm != ga.arg}
            if ren:
                if set(ren.values()) & (_locals_of(w) - set(lead)):
                    return
                w.body = [_Rename(ren).visit(st) for st in w.body]
            used_elsewhere = [x for x in ast.walk(w) if isinstance(x, ast.Name) and x.id in (va, ka)
                              and not any(any(x is y for y in ast.walk(c)) for c in calls)]
            if used_elsewhere or g.args.vararg or g.args.kwarg:
                return
            w.args = copy.deepcopy(g.args)
            for c in calls:
                c.args = [ast.Name(id=a.arg, ctx=ast.Load()) for a in g.args.posonlyargs + g.args.args]
                c.keywords = [ast.keyword(arg=a.arg, value=ast.Name(id=a.arg, ctx=ast.Load())) for a in g.args.kwonlyargs]
        for c in calls:
            c.func = ast.Name(id=orig_name, ctx=ast.Load())
        orig = copy.deepcopy(g)
        orig.name = orig_name
        orig.decorator_list = []
        new_top.append(orig)
        doc = [st for st in g.body[:1] if isinstance(st, ast.Expr) and isinstance(st.value, ast.Constant) and isinstance(st.value.value, str)]
        g.args = w.args
        g.body = doc + [st for st in w.body if not (isinstance(st, ast.Expr) and isinstance(st.value, ast.Constant) and isinstance(st.value.value, str))]
        g.decorator_list = []
        ast.fix_missing_locations(g)
        done += 1
    for n in list(tree.body):
        if isinstance(n, ast.FunctionDef) and n.name not in decos:
            apply(n, None)
        elif isinstance(n, ast.ClassDef):
            for m in n.body:
                if isinstance(m, ast.FunctionDef):
                    apply(m, n.name)
    if new_top:
        pos = next((i for i, x in enumerate(tree.body) if isinstance(x, (ast.FunctionDef, ast.ClassDef))), len(tree.body))
        for k, o in enumerate(new_top):
            tree.body.insert(pos + k, o)
        ast.fix_missing_locations(tree)
    return done


def _desugar_collectors(fn: ast.FunctionDef, generators: Set[str]) -> int:
    """`t = dict(chain(P1, P2, ..))`, `t = dict(P)`, `t = list(chain(..))`, `t = list(P)` where some piece P is a call of a new
    generator: the collection is built by statements, `t = {}` / `t = []` followed, per piece, by
        display of pairs [(k, v), ..]    t[k] = v                       (list: t.append(x))
        generator call g(..)             for __k, __v in g(..): t[__k] = __v     (then fused with the generator's body)
        X.items() / any other iterable   for __k, __v in X.items(): t[__k] = __v
    so that the generator fusion and the rules see ordinary stores."""
    done = 0
    counter = [0]

    def pieces_of(e):
        if isinstance(e, ast.Call) and not e.keywords and (
                (isinstance(e.func, ast.Name) and e.func.id == 'chain') or
                (isinstance(e.func, ast.Attribute) and e.func.attr == 'chain' and isinstance(e.func.value, ast.Name)
                 and e.func.value.id == 'itertools')):
            if any(isinstance(a, ast.Starred) for a in e.args):
                return None
            return list(e.args)
        return [e]

    def build(st):
        if not (isinstance(st, ast.Assign) and len(st.targets) == 1 and isinstance(st.targets[0], ast.Name) and isinstance(st.value, ast.Call)
                and isinstance(st.value.func, ast.Name) and st.value.func.id in ('dict', 'list') and len(st.value.args) == 1
                and not st.value.keywords):
            return None
        kind = st.value.func.id
        ps = pieces_of(st.value.args[0])
        if not ps or not any(isinstance(p, ast.Call) and isinstance(p.func, ast.Name) and p.func.id in generators for p in ps):
            return None
        t = st.targets[0].id
        if any(isinstance(x, ast.Name) and x.id == t for p in ps for x in ast.walk(p)):
            return None
        out = [ast.Assign(targets=[ast.Name(id=t, ctx=ast.Store())],
                          value=ast.Dict(keys=[], values=[]) if kind == 'dict' else ast.List(elts=[], ctx=ast.Load()), type_comment=None)]

        def store(k, v):
            if kind == 'dict':
                return ast.Assign(targets=[ast.Subscript(value=ast.Name(id=t, ctx=ast.Load()), slice=k, ctx=ast.Store())], value=v,
                                  type_comment=None)
            return ast.Expr(value=ast.Call(func=ast.Attribute(value=ast.Name(id=t, ctx=ast.Load()), attr='append', ctx=ast.Load()),
                                           args=[v], keywords=[]))
        for p in ps:
            if isinstance(p, (ast.List, ast.Tuple)):
                for e in p.elts:
                    if kind == 'dict':
                        if not (isinstance(e, ast.Tuple) and len(e.elts) == 2):
                            return None
                        out.append(store(e.elts[0], e.elts[1]))
                    else:
                        if isinstance(e, ast.Starred):
                            return None
                        out.append(store(None, e))
            else:
                counter[0] += 1
                if kind == 'dict':
                    kn, vn = f'__ck{counter[0]}', f'__cv{counter[0]}'
                    tgt = ast.Tuple(elts=[ast.Name(id=kn, ctx=ast.Store()), ast.Name(id=vn, ctx=ast.Store())], ctx=ast.Store())
                    body = [store(ast.Name(id=kn, ctx=ast.Load()), ast.Name(id=vn, ctx=ast.Load()))]
                else:
                    vn = f'__cv{counter[0]}'
                    tgt = ast.Name(id=vn, ctx=ast.Store())
                    body = [store(None, ast.Name(id=vn, ctx=ast.Load()))]
                out.append(ast.For(target=tgt, iter=p, body=body, orelse=[], type_comment=None))
        for o in out:
            ast.copy_location(o, st)
            ast.fix_missing_locations(o)
        return out

    def walk(blk):
        nonlocal done
        new = []
        for st in blk:
            for fld in ('body', 'orelse', 'finalbody'):
                sub = getattr(st, fld, None)
                if isinstance(sub, list) and not isinstance(st, (ast.FunctionDef, ast.ClassDef)):
                    setattr(st, fld, walk(sub))
            b = build(st)
            if b is not None:
                new += b
                done += 1
            else:
                new.append(st)
        return new
    def is_collector(e):
        if not (isinstance(e, ast.Call) and isinstance(e.func, ast.Name) and e.func.id in ('dict', 'list') and len(e.args) == 1
                and not e.keywords):
            return False
        ps = pieces_of(e.args[0])
        return bool(ps) and any(isinstance(p, ast.Call) and isinstance(p.func, ast.Name) and p.func.id in generators for p in ps)

    def hoist(blk):
        new = []
        for st in blk:
            for fld in ('body', 'orelse', 'finalbody'):
                sub = getattr(st, fld, None)
                if isinstance(sub, list) and not isinstance(st, (ast.FunctionDef, ast.ClassDef)):
                    setattr(st, fld, hoist(sub))
            if isinstance(st, (ast.Assign, ast.Expr, ast.Return, ast.AugAssign)) and st.value is not None \
                    and not (isinstance(st, ast.Assign) and is_collector(st.value) and len(st.targets) == 1 and isinstance(st.targets[0], ast.Name)):
                found = [e for e in ast.walk(st.value) if is_collector(e)
                         and not any(isinstance(x, (ast.Lambda, ast.GeneratorExp, ast.ListComp, ast.DictComp, ast.SetComp, ast.IfExp, ast.BoolOp))
                                     and any(y is e for y in ast.walk(x)) for x in ast.walk(st.value))]
                for e in found[:1]:
                    counter[0] += 1
                    nm = f'__cc{counter[0]}'
                    a = ast.Assign(targets=[ast.Name(id=nm, ctx=ast.Store())], value=copy.copy(e), type_comment=None)
                    ast.copy_location(a, st)
                    ast.fix_missing_locations(a)
                    new.append(a)
                    # replace e by the temporary, in place
                    e.func = ast.Name(id='__identity__', ctx=ast.Load())
                    e.args = [ast.Name(id=nm, ctx=ast.Load())]
                    ast.fix_missing_locations(e)
            new.append(st)
        return new
    fn.body = hoist(fn.body)

    class DropIdentity(ast.NodeTransformer):
        def visit_Call(s, node):
            node = s.generic_visit(node)
            if isinstance(node.func, ast.Name) and node.func.id == '__identity__':
                return node.args[0]
            return node
    DropIdentity().visit(fn)
    fn.body = walk(fn.body)
    return done


def inline_new_helpers(tree: ast.Module, module: str) -> int:
    """returns the number of call sites expanded"""
    if hasattr(ast, 'Match') and any(isinstance(n, ast.Match) for n in ast.walk(tree)):
        _MatchDesugar().visit(tree)
    for n in tree.body:
        if isinstance(n, (ast.FunctionDef, ast.ClassDef)):
            _Idioms().visit(n)
    unrolled = 0
    for n in tree.body:
        for f in ([n] if isinstance(n, ast.FunctionDef) else
                  [m for m in n.body if isinstance(m, ast.FunctionDef)] if isinstance(n, ast.ClassDef) else []):
            unrolled += _unroll_literal_loops(f)
            _spread_constant_kwargs(f)
    for n in tree.body:
        if isinstance(n, (ast.FunctionDef, ast.ClassDef)):
            _AttrFold().visit(n)
    ast.fix_missing_locations(tree)
    frozen = frozen_functions()
    # generic functions become isinstance chains in every module (a new module's helpers are inlined across modules later)
    _desugar_singledispatch(tree, set(frozen.get(module, [])))
    if module not in frozen:
        return 0                      # a new module: nothing is anchored in it
    known = set(frozen[module])
    _inline_decorators(tree, known)
    helpers = {}
    for n in tree.body:
        if isinstance(n, ast.FunctionDef) and n.name not in known:
            h = _normalised_helper(n)
            if h is not None:
                helpers[n.name] = h
    generators = {n.name: n for n in tree.body if isinstance(n, ast.FunctionDef) and n.name not in known and _simple_generator(n)}
    inl = _Inliner(helpers, generators)
    nested_known = {x.split(':', 1)[1] for x in frozen.get('<nested>', []) if x.startswith(module + ':')}
    from .objinline import ObjectInliner, new_private_classes
    obj = None
    classes = new_private_classes(tree, set(frozen.get('<classes>', {}).get(module, [])))
    if classes:
        obj = ObjectInliner(classes)

    class_bases = {n.name: [b.id for b in n.bases if isinstance(b, ast.Name)] for n in tree.body if isinstance(n, ast.ClassDef)}
    module_consts: Dict[str, ast.expr] = {}
    _top_stores: Dict[str, int] = {}
    for n in ast.walk(tree):
        if isinstance(n, ast.Name) and isinstance(n.ctx, (ast.Store, ast.Del)):
            _top_stores[n.id] = _top_stores.get(n.id, 0) + 1
        elif isinstance(n, (ast.Global, ast.Nonlocal)):
            for x in n.names:
                _top_stores[x] = 99
        elif isinstance(n, ast.arguments):
            for a in n.args + n.kwonlyargs + n.posonlyargs:
                _top_stores[a.arg] = 99
    for n in tree.body:
        if isinstance(n, ast.Assign) and len(n.targets) == 1 and isinstance(n.targets[0], ast.Name) and _top_stores.get(n.targets[0].id) == 1 \
                and _is_plain_literal(n.value) and n.targets[0].id not in known:
            module_consts[n.targets[0].id] = n.value

    def process(fn: ast.FunctionDef):
        # new local closures (nested defs that are not in the frozen table) are helpers for the body of `fn` only
        local = {}
        for st in fn.body:
            if isinstance(st, ast.FunctionDef) and f'{fn.name}.{st.name}' not in nested_known:
                h = _normalised_helper(st)
                if h is not None and not _rebinds_free_names(st, fn):
                    local[st.name] = h
        saved = inl.helpers
        if local:
            inl.helpers = {**saved, **local}
        done_before = inl.done
        for _outer in range(3):
            for _round in range(5):
                if obj is not None and obj.rewrite_function(fn):
                    # methods of inlined objects become helpers (when they can be brought to a single exit)
                    for hn, hf in obj.helpers.items():
                        if hn not in inl.helpers:
                            nh = _normalised_helper(hf)
                            if nh is not None:
                                inl.helpers[hn] = nh
                                saved.setdefault(hn, nh)
                before = inl.done
                fn.body = inl.block(fn.body, fn.name)
                if inl.done == before or obj is None:
                    break
            # specialise what was inlined; that may expose further objects / helper calls (a record built in a fused loop)
            if not (inl.done > done_before and _partial_eval(fn, class_bases, module_consts)):
                break
        inl.helpers = saved
        if obj is not None:
            obj.finalize(fn)
            _expose_fields(fn, obj.helpers)

    targets = []
    frozen_methods = frozen.get('<methods>', {}).get(module, {})
    classes_frozen_here = set(frozen.get('<classes>', {}).get(module, []))
    new_methods_of: Dict[int, Tuple[Dict[str, ast.FunctionDef], str]] = {}
    any_new_method = False
    for n in tree.body:
        if isinstance(n, ast.FunctionDef) and n.name not in helpers and n.name not in generators:
            targets.append(n)
        elif isinstance(n, ast.ClassDef) and n.name not in classes:
            known_m = set(frozen_methods.get(n.name, []))
            mh = {}
            if n.name in frozen_methods:
                for m in n.body:
                    if isinstance(m, ast.FunctionDef) and m.name not in known_m and not m.decorator_list and m.args.args:
                        h = _normalised_helper(m)
                        if h is not None:
                            mh[m.name] = h
                            any_new_method = True
                # methods inherited from NEW base classes of this module (a mixin / an abstract base introduced by a refactoring):
                # a pinned method the class no longer defines itself is materialised in the class (inheriting it IS having it); a new
                # method is a helper like the class's own new methods.  Left-to-right, depth-first over the new bases = the MRO for
                # the single-inheritance-plus-mixins shapes this covers; a base that uses super() is left alone.
                own = {m.name for m in n.body if isinstance(m, ast.FunctionDef)}
                for b in _new_bases(n, tree, classes_frozen_here):
                    if any(isinstance(x, ast.Name) and x.id == 'super' for x in ast.walk(b)):
                        continue
                    for m in b.body:
                        if not isinstance(m, ast.FunctionDef) or m.name in own or m.name in mh:
                            continue
                        if m.name in known_m:
                            mm = copy.deepcopy(m)
                            n.body.append(mm)
                            own.add(m.name)
                            any_new_method = True
                        elif not m.decorator_list and m.args.args:
                            h = _normalised_helper(m)
                            if h is not None:
                                mh[m.name] = h
                                any_new_method = True
            for m in n.body:
                if isinstance(m, ast.FunctionDef) and m.name not in mh:
                    targets.append(m)
                    if mh and m.args.args and not any(ast.unparse(d) in ('staticmethod', 'classmethod') for d in m.decorator_list):
                        new_methods_of[id(m)] = (mh, m.args.args[0].arg)
    if not helpers and not generators and not classes and not any_new_method \
            and not any(isinstance(st, ast.FunctionDef) for t in targets for st in t.body):
        return 0
    for t in targets:
        inl.method_helpers, inl.self_name = new_methods_of.get(id(t), ({}, None))
        if generators:
            _desugar_collectors(t, set(generators))
        process(t)
    inl.method_helpers, inl.self_name = {}, None
    ast.fix_missing_locations(tree)
    tree._inline_defaulted = inl.defaulted       # [(owner function, helper, params left at default, line, call text)]
    return inl.done


def _new_bases(cls: ast.ClassDef, tree: ast.Module, frozen_classes: Set[str]) -> List[ast.ClassDef]:
    """the base classes of cls (transitively, left to right, depth first) that are defined in this module and are not in the
    pinned class table"""
    here = {n.name: n for n in tree.body if isinstance(n, ast.ClassDef)}
    out: List[ast.ClassDef] = []

    def walk(c):
        for b in c.bases:
            if isinstance(b, ast.Name) and b.id in here and b.id not in frozen_classes and here[b.id] not in out:
                out.append(here[b.id])
                walk(here[b.id])
    walk(cls)
    return out


# ------------------------------------------------------------------------------------------------ across modules
_LOCALS_CACHE: Dict[int, Set[str]] = {}


def _locals_everywhere(tree) -> Set[str]:
    """every name stored anywhere in the module (a synthetic module-level import must not be shadowed by a local of some function)"""
    k = id(tree)
    if k not in _LOCALS_CACHE:
        _LOCALS_CACHE[k] = {n.id for n in ast.walk(tree) if isinstance(n, ast.Name) and isinstance(n.ctx, (ast.Store, ast.Del))} | \
            {a.arg for n in ast.walk(tree) if isinstance(n, ast.arguments) for a in n.args + n.kwonlyargs}
    return _LOCALS_CACHE[k]


def adopt_new_definitions(modules, abs_module, pkg: str) -> int:
    """Before the per-module pre-pass: definitions that a pinned module takes from a NEW place are brought to where they are used.
    (1) `from . import _impl as k` / `import pkg.a._impl as k` with `k.name(..)` uses, where `name` is a function or class defined in
    that module and not in the pinned tree: the use becomes a plain imported name (`from pkg.a._impl import name as __xk_name`), so
    that the cross-module function inlining and (2) see it.  (2) `from pkg.a._impl import Cls` with Cls a new class that the object
    inliner can model: the class definition is copied into the importing module (names of its home module that the importing module
    does not bind to the same thing are imported under synthetic aliases), so that the object inliner of the importing module sees
    it.  (3) a module-level constant instance of an immutable record class (NamedTuple / frozen dataclass) built from literals,
    `_G = Cls(prefix='a', unknown='b')`, is re-created as a local at the top of every function that reads it."""
    from .objinline import ClassModel
    frozen = frozen_functions()
    fclasses = frozen.get('<classes>', {})
    done = 0

    def top_defs(tree):
        return {st.name: st for st in tree.body if isinstance(st, (ast.FunctionDef, ast.ClassDef))}

    def top_bindings(tree):
        out = {}
        for st in tree.body:
            if isinstance(st, (ast.FunctionDef, ast.ClassDef)):
                out[st.name] = ('def', st)
            elif isinstance(st, ast.Import):
                for a in st.names:
                    out[a.asname or a.name.split('.')[0]] = ('import', st, a)
            elif isinstance(st, ast.ImportFrom):
                for a in st.names:
                    out[a.asname or a.name] = ('importfrom', st, a)
            elif isinstance(st, ast.Assign):
                for t in st.targets:
                    if isinstance(t, ast.Name):
                        out[t.id] = ('assign', st)
        return out

    def is_new(hkey, name):
        if hkey not in frozen:
            return True
        return name not in frozen[hkey] and name not in fclasses.get(hkey, [])

    for mname, mi in modules.items():
        if mname not in frozen:
            continue
        tree = mi.tree
        # (1) module aliases
        aliases = {}
        for st in tree.body:
            if isinstance(st, ast.ImportFrom):
                base = abs_module(mi.name, mi.is_pkg, st.level, st.module)
                for a in st.names:
                    full = base + '.' + a.name
                    if full.startswith(pkg + '.') and full[len(pkg) + 1:] in modules:
                        aliases[a.asname or a.name] = full[len(pkg) + 1:]
            elif isinstance(st, ast.Import):
                for a in st.names:
                    if a.asname and a.name.startswith(pkg + '.') and a.name[len(pkg) + 1:] in modules:
                        aliases[a.asname] = a.name[len(pkg) + 1:]
        stored = _locals_everywhere(tree)
        aliases = {k: v for k, v in aliases.items() if k not in stored and modules[v] is not mi}
        if aliases:
            wanted = {}
            for n in ast.walk(tree):
                if isinstance(n, ast.Attribute) and isinstance(n.value, ast.Name) and n.value.id in aliases and isinstance(n.ctx, ast.Load):
                    hkey = aliases[n.value.id]
                    d = top_defs(modules[hkey].tree).get(n.attr)
                    if d is not None and is_new(hkey, n.attr):
                        wanted[(n.value.id, n.attr)] = hkey

            class RW(ast.NodeTransformer):
                def visit_Attribute(s, node):
                    if isinstance(node.value, ast.Name) and (node.value.id, node.attr) in wanted and isinstance(node.ctx, ast.Load):
                        return ast.copy_location(ast.Name(id=f'__xk_{node.value.id}_{node.attr}', ctx=ast.Load()), node)
                    return s.generic_visit(node)
            if wanted:
                RW().visit(tree)
                pos = next((i for i, x in enumerate(tree.body) if not (isinstance(x, ast.Expr) and isinstance(x.value, ast.Constant))
                            and not (isinstance(x, ast.ImportFrom) and x.module == '__future__')), 0)
                for (al, nm), hkey in sorted(wanted.items()):
                    tree.body.insert(pos, ast.ImportFrom(module=pkg + '.' + hkey, names=[ast.alias(name=nm, asname=f'__xk_{al}_{nm}')], level=0))
                    done += 1
                ast.fix_missing_locations(tree)
        # (2) imported new classes
        mine = top_bindings(tree)
        for st in list(tree.body):
            if not isinstance(st, ast.ImportFrom):
                continue
            home = abs_module(mi.name, mi.is_pkg, st.level, st.module)
            if not home.startswith(pkg + '.'):
                continue
            hkey = home[len(pkg) + 1:]
            hm = modules.get(hkey)
            if hm is None or hm is mi:
                continue
            theirs = top_bindings(hm.tree)
            for a in list(st.names):
                b = theirs.get(a.name)
                if b is None or b[0] != 'def' or not isinstance(b[1], ast.ClassDef) or not is_new(hkey, a.name):
                    continue
                if not ClassModel(b[1]).ok:
                    continue
                local_name = a.asname or a.name
                cd = copy.deepcopy(b[1])
                stored_in = {n.id for n in ast.walk(cd) if isinstance(n, ast.Name) and isinstance(n.ctx, (ast.Store, ast.Del))} | \
                    {x.arg for n in ast.walk(cd) if isinstance(n, ast.arguments) for x in n.args + n.kwonlyargs + n.posonlyargs}
                ren, imps, ok = {}, [], True
                for n in ast.walk(cd):
                    if not (isinstance(n, ast.Name) and isinstance(n.ctx, ast.Load)) or n.id in ren:
                        continue
                    if n.id == a.name:
                        if local_name != a.name:
                            ren[n.id] = local_name
                        continue
                    if n.id not in theirs:
                        continue
                    if n.id in stored_in:
                        ok = False
                        break
                    tb = theirs[n.id]
                    mb = mine.get(n.id)
                    same = mb is not None and mb[0] == tb[0] and (
                        (tb[0] == 'import' and mb[2].name == tb[2].name) or
                        (tb[0] == 'importfrom' and abs_module(mi.name, mi.is_pkg, mb[1].level, mb[1].module) ==
                         abs_module(hm.name, hm.is_pkg, tb[1].level, tb[1].module) and mb[2].name == tb[2].name))
                    if same:
                        continue
                    alias = n.id if n.id not in mine and n.id not in _locals_everywhere(tree) else '__xm_' + hkey.replace('.', '_') + '__' + n.id
                    ren[n.id] = alias
                    mine[alias] = tb
                    if tb[0] == 'import':
                        imps.append(ast.Import(names=[ast.alias(name=tb[2].name, asname=alias if (tb[2].asname or alias != tb[2].name.split('.')[0]) else None)]))
                    elif tb[0] == 'importfrom':
                        src_mod = abs_module(hm.name, hm.is_pkg, tb[1].level, tb[1].module)
                        imps.append(ast.ImportFrom(module=src_mod, names=[ast.alias(name=tb[2].name, asname=alias if alias != tb[2].name else None)], level=0))
                    else:
                        imps.append(ast.ImportFrom(module=home, names=[ast.alias(name=n.id, asname=alias if alias != n.id else None)], level=0))
                if not ok:
                    continue
                ren = {k: v for k, v in ren.items() if k != v}
                if ren:
                    _Rename(ren).visit(cd)
                cd.name = local_name
                at = tree.body.index(st)
                st.names.remove(a)
                for k, imp in enumerate(imps):
                    tree.body.insert(at + 1 + k, imp)
                tree.body.insert(at + 1 + len(imps), cd)
                mine[local_name] = ('def', cd)
                done += 1
            if not st.names:
                tree.body.remove(st)
        # (3) module-level constant records
        here = {n.name: n for n in tree.body if isinstance(n, ast.ClassDef)}
        consts = {}
        for st in tree.body:
            if isinstance(st, ast.Assign) and len(st.targets) == 1 and isinstance(st.targets[0], ast.Name) and isinstance(st.value, ast.Call) \
                    and isinstance(st.value.func, ast.Name) and st.value.func.id in here \
                    and st.value.func.id not in fclasses.get(mname, []):
                cm = ClassModel(here[st.value.func.id])
                immutable = cm.ok and (cm.is_namedtuple or (cm.is_dataclass and any(
                    isinstance(d, ast.Call) and any(k.arg == 'frozen' and isinstance(k.value, ast.Constant) and k.value.value is True
                                                    for k in d.keywords) for d in here[st.value.func.id].decorator_list)))
                if immutable and all(_is_plain_literal(x) for x in st.value.args + [k.value for k in st.value.keywords]) \
                        and not any(k.arg is None for k in st.value.keywords):
                    consts[st.targets[0].id] = st
        if consts:
            stores = {}
            for n in ast.walk(tree):
                if isinstance(n, ast.Name) and isinstance(n.ctx, (ast.Store, ast.Del)) and n.id in consts:
                    stores[n.id] = stores.get(n.id, 0) + 1
                if isinstance(n, (ast.Global, ast.Nonlocal)):
                    for x in n.names:
                        stores[x] = 99
            consts = {k: v for k, v in consts.items() if stores.get(k) == 1}
            fns = [n for n in tree.body if isinstance(n, ast.FunctionDef)] + \
                [m for n in tree.body if isinstance(n, ast.ClassDef) for m in n.body if isinstance(m, ast.FunctionDef)]
            for fn in fns:
                used = sorted({n.id for n in ast.walk(fn) if isinstance(n, ast.Name) and n.id in consts and isinstance(n.ctx, ast.Load)})
                params = {x.arg for n in ast.walk(fn) if isinstance(n, ast.arguments) for x in n.args + n.kwonlyargs + n.posonlyargs}
                used = [u for u in used if u not in params]
                if not used:
                    continue
                _Rename({u: f'__g_{u}' for u in used}).visit(fn)
                k = 1 if fn.body and isinstance(fn.body[0], ast.Expr) and isinstance(fn.body[0].value, ast.Constant) else 0
                for u in reversed(used):
                    asg = ast.Assign(targets=[ast.Name(id=f'__g_{u}', ctx=ast.Store())], value=copy.deepcopy(consts[u].value), type_comment=None)
                    ast.copy_location(asg, fn.body[k] if len(fn.body) > k else fn)
                    fn.body.insert(k, asg)
                    done += 1
                ast.fix_missing_locations(fn)
        ast.fix_missing_locations(tree)
    _LOCALS_CACHE.clear()
    return done


def _is_plain_literal(e) -> bool:
    if isinstance(e, ast.Constant):
        return True
    if isinstance(e, (ast.Tuple, ast.List)):
        return all(_is_plain_literal(x) for x in e.elts)
    if isinstance(e, ast.UnaryOp) and isinstance(e.op, ast.USub):
        return _is_plain_literal(e.operand)
    return False


def inline_across_modules(modules, abs_module, pkg: str) -> int:
    """New private helpers that live in ANOTHER module of the package (code moved to a util module, a new private module) are inlined
    at their call sites as well.  `from <pkg>.a.b import helper [as h]` where `helper` is a module-level function of a.b that does not
    exist in the pinned tree.  The helper's body refers to names of ITS module; each such name that the calling module does not bind to
    the same object is imported into the calling module under a synthetic alias (`from <pkg>.a.b import name as __xm_a_b_name`, or
    a copy of a.b's own import statement with that alias), so that the program model resolves the inlined body exactly as it
    resolved the helper.  Repeated (bounded) because an inlined body may call further new helpers of its home module."""
    frozen = frozen_functions()
    done = 0

    def top_bindings(tree):
        """name -> ('def', node) | ('import', stmt, alias) | ('assign', stmt)"""
        out = {}
        for st in tree.body:
            if isinstance(st, (ast.FunctionDef, ast.ClassDef)):
                out[st.name] = ('def', st)
            elif isinstance(st, ast.Import):
                for a in st.names:
                    out[a.asname or a.name.split('.')[0]] = ('import', st, a)
            elif isinstance(st, ast.ImportFrom):
                for a in st.names:
                    out[a.asname or a.name] = ('importfrom', st, a)
            elif isinstance(st, ast.Assign):
                for t in st.targets:
                    if isinstance(t, ast.Name):
                        out[t.id] = ('assign', st)
        return out

    def same_binding(b1, b2):
        if b1 is None or b2 is None or b1[0] != b2[0]:
            return False
        if b1[0] == 'import':
            return b1[2].name == b2[2].name
        if b1[0] == 'importfrom':
            return b1[1].module == b2[1].module and b1[1].level == b2[1].level and b1[2].name == b2[2].name
        return False

    for _round in range(3):
        changed = False
        for mname, mi in modules.items():
            tree = mi.tree
            mine = top_bindings(tree)
            helpers: Dict[str, ast.FunctionDef] = {}
            extra_imports: List[ast.stmt] = []
            for st in tree.body:
                if not isinstance(st, ast.ImportFrom):
                    continue
                home = abs_module(mi.name, mi.is_pkg, st.level, st.module)
                if not home.startswith(pkg):
                    continue
                hkey = home[len(pkg):].lstrip('.')
                hm = modules.get(hkey)
                if hm is None or hm is mi:
                    continue
                known = set(frozen.get(hkey, [])) if hkey in frozen else None
                theirs = top_bindings(hm.tree)
                for a in st.names:
                    b = theirs.get(a.name)
                    if b is None or b[0] != 'def' or not isinstance(b[1], ast.FunctionDef):
                        continue
                    if known is not None and a.name in known:
                        continue            # exists in the pinned tree: anchored where it is
                    if (a.asname or a.name) in frozen.get(mname, []) and mine.get(a.asname or a.name, ('',))[0] == 'importfrom':
                        continue            # a pinned function of THIS module that now lives elsewhere and is imported back:
                        #                     a relocation; the program model resolves the pinned name to it (Program.func)
                    h = _normalised_helper(b[1])
                    if h is None:
                        continue
                    h = copy.deepcopy(h)
                    local = _locals_of(h)
                    ren = {}
                    for n in ast.walk(h):
                        if isinstance(n, ast.Name) and isinstance(n.ctx, ast.Load) and n.id not in local and n.id in theirs \
                                and not same_binding(theirs[n.id], mine.get(n.id)):
                            # the helper's own name for it when the calling module has no binding of that name, an alias otherwise
                            alias = n.id if n.id not in mine and n.id not in _locals_everywhere(tree) \
                                else '__xm_' + hkey.replace('.', '_') + '__' + n.id
                            if n.id not in ren:
                                ren[n.id] = alias
                                mine[alias] = theirs[n.id]
                                tb = theirs[n.id]
                                asn = alias if alias != (tb[2].name if tb[0] != 'assign' and tb[0] != 'def' else n.id) else None
                                if tb[0] == 'import':
                                    imp = ast.Import(names=[ast.alias(name=tb[2].name, asname=alias if (tb[2].asname or alias != tb[2].name.split('.')[0]) else None)])
                                elif tb[0] == 'importfrom':
                                    src_mod = abs_module(hm.name, hm.is_pkg, tb[1].level, tb[1].module)
                                    imp = ast.ImportFrom(module=src_mod, names=[ast.alias(name=tb[2].name, asname=asn)], level=0)
                                else:
                                    imp = ast.ImportFrom(module=home, names=[ast.alias(name=n.id, asname=asn)], level=0)
                                extra_imports.append(imp)
                    if ren:
                        _Rename(ren).visit(h)
                    helpers[a.asname or a.name] = h
            if not helpers:
                continue
            inl = _Inliner(helpers, {})
            before = inl.done
            for n in tree.body:
                if isinstance(n, ast.FunctionDef):
                    n.body = inl.block(n.body, n.name)
                elif isinstance(n, ast.ClassDef):
                    for m in n.body:
                        if isinstance(m, ast.FunctionDef):
                            m.body = inl.block(m.body, m.name)
            if inl.done > before:
                have = {ast.dump(x) for x in tree.body if isinstance(x, (ast.Import, ast.ImportFrom))}
                pos = next((i for i, x in enumerate(tree.body) if not (isinstance(x, ast.Expr) and isinstance(x.value, ast.Constant))
                            and not (isinstance(x, ast.ImportFrom) and x.module == '__future__')), 0)
                for imp in extra_imports:
                    if ast.dump(imp) not in have:
                        have.add(ast.dump(imp))
                        tree.body.insert(pos, imp)
                ast.fix_missing_locations(tree)
                prev = getattr(tree, '_inline_defaulted', [])
                tree._inline_defaulted = prev + inl.defaulted
                done += inl.done - before
                changed = True
        if not changed:
            break
    return done
