"""Helper inlining (pre-pass on the parsed modules).

The rules are anchored in the functions of the pinned tree (frozen in contracts/functions.json).  When a later change EXTRACTS part
of such a function into a new private helper of the same module, the construct a rule looks for moves out of its anchor.  This
pre-pass undoes exactly that: every module-level function that is NOT in the frozen table, and that is a single-exit helper
(plain parameters, no yield, one `return` as its last statement or none), is inlined at its call sites in the same module:

        x = _helper(a, k=b)          ->        __h1_p = a ; __h1_q = b ; <body with locals renamed __h1_*> ; x = <return expr>

Inlined statements keep the line number of the calling statement.  Helpers with early returns, generators, varargs, or calls
inside comprehensions / lambdas / while-tests are left alone (the rules then see an opaque call: undecided, never an alarm).
The helper definitions stay in the module and are analysed like any other function."""
from __future__ import annotations
import ast
import copy
import json
import os
from typing import Dict, List, Optional, Set

_HERE = os.path.dirname(os.path.dirname(os.path.abspath(__file__)))
_FROZEN: Optional[Dict[str, List[str]]] = None
DEFAULTED: List = []      # (helper, parameters left at their default, line, call node) of the last expansion - consumed by the caller


def frozen_functions() -> Dict[str, List[str]]:
    global _FROZEN
    if _FROZEN is None:
        p = os.path.join(_HERE, 'contracts', 'functions.json')
        _FROZEN = json.load(open(p)) if os.path.exists(p) else {}
    return _FROZEN


def _single_exit(fn: ast.FunctionDef) -> bool:
    a = fn.args
    if a.vararg or a.kwarg or a.posonlyargs:
        return False
    rets = [n for n in ast.walk(fn) if isinstance(n, ast.Return)]
    for n in ast.walk(fn):
        if isinstance(n, (ast.Yield, ast.YieldFrom, ast.Global, ast.Nonlocal, ast.AsyncFunctionDef)):
            return False
        if isinstance(n, (ast.FunctionDef, ast.Lambda)) and n is not fn:
            return False
    if len(rets) > 1:
        return False
    if rets and fn.body[-1] is not rets[0]:
        return False
    return True


class _Rename(ast.NodeTransformer):
    def __init__(self, mapping):
        self.m = mapping

    def visit_Name(self, node):
        if node.id in self.m:
            return ast.copy_location(ast.Name(id=self.m[node.id], ctx=node.ctx), node)
        return node


def _locals_of(fn: ast.FunctionDef) -> Set[str]:
    out = {a.arg for a in fn.args.args + fn.args.kwonlyargs}
    for n in ast.walk(fn):
        if isinstance(n, ast.Name) and isinstance(n.ctx, (ast.Store, ast.Del)):
            out.add(n.id)
    return out


def _expand(call: ast.Call, helper: ast.FunctionDef, tag: str, at: ast.stmt):
    """statements to insert before `at`, and the expression that replaces the call (None for procedures); None if the actuals do
    not bind"""
    params = [a.arg for a in helper.args.args]
    defaults = helper.args.defaults
    dmap = {p: d for p, d in zip(params[len(params) - len(defaults):], defaults)}
    for a, d in zip(helper.args.kwonlyargs, helper.args.kw_defaults):
        if d is not None:
            dmap[a.arg] = d
    bound: Dict[str, ast.expr] = {}
    if any(isinstance(x, ast.Starred) for x in call.args) or any(k.arg is None for k in call.keywords):
        return None
    if len(call.args) > len(params):
        return None
    for p, x in zip(params, call.args):
        bound[p] = x
    allp = params + [a.arg for a in helper.args.kwonlyargs]
    for k in call.keywords:
        if k.arg not in allp or k.arg in bound:
            return None
        bound[k.arg] = k.value
    defaulted = []
    for p in allp:
        if p not in bound:
            if p not in dmap:
                return None
            bound[p] = copy.deepcopy(dmap[p])
            defaulted.append(p)
    DEFAULTED.append((helper.name, tuple(defaulted), at.lineno, call))
    mapping = {n: f'__{tag}_{n}' for n in _locals_of(helper)}
    pre: List[ast.stmt] = []
    for p in allp:
        st = ast.Assign(targets=[ast.Name(id=mapping[p], ctx=ast.Store())], value=bound[p])
        pre.append(st)
    body = copy.deepcopy(helper.body)
    if body and isinstance(body[0], ast.Expr) and isinstance(body[0].value, ast.Constant) and isinstance(body[0].value.value, str):
        body = body[1:]
    ret_expr = None
    if body and isinstance(body[-1], ast.Return):
        ret_expr = body[-1].value
        body = body[:-1]
    rn = _Rename(mapping)
    body = [rn.visit(s) for s in body]
    if ret_expr is not None:
        ret_expr = rn.visit(copy.deepcopy(ret_expr))
    else:
        ret_expr = ast.Constant(value=None)
    out = pre + body
    for s in out:
        for n in ast.walk(s):
            if hasattr(n, 'lineno') or isinstance(n, (ast.expr, ast.stmt)):
                n.lineno = at.lineno
                n.col_offset = at.col_offset
                n.end_lineno = getattr(at, 'end_lineno', at.lineno)
                n.end_col_offset = getattr(at, 'end_col_offset', at.col_offset)
    for n in ast.walk(ret_expr):
        n.lineno = at.lineno
        n.col_offset = call.col_offset
        n.end_lineno = getattr(at, 'end_lineno', at.lineno)
        n.end_col_offset = call.end_col_offset
    return out, ret_expr


class _Inliner:
    def __init__(self, helpers: Dict[str, ast.FunctionDef]):
        self.helpers = helpers
        self.counter = 0
        self.done = 0
        self.defaulted: List = []

    def _calls_in_stmt_header(self, s: ast.stmt):
        """helper calls that are evaluated exactly once when statement s is executed (not inside comprehensions, lambdas, nested
        bodies, or loop tests)"""
        exprs: List[ast.expr] = []
        if isinstance(s, (ast.Assign, ast.AnnAssign, ast.AugAssign, ast.Expr, ast.Return)):
            if getattr(s, 'value', None) is not None:
                exprs.append(s.value)
        elif isinstance(s, ast.If):
            exprs.append(s.test)
        elif isinstance(s, ast.For):
            exprs.append(s.iter)
        elif isinstance(s, ast.With):
            exprs += [i.context_expr for i in s.items]
        elif isinstance(s, (ast.Raise,)):
            if s.exc is not None:
                exprs.append(s.exc)
        out = []

        def walk(e):
            if isinstance(e, (ast.ListComp, ast.SetComp, ast.DictComp, ast.GeneratorExp, ast.Lambda)):
                return
            if isinstance(e, (ast.BoolOp, ast.IfExp)):
                # short-circuit / conditional evaluation: only the first operand is certainly evaluated
                first = e.values[0] if isinstance(e, ast.BoolOp) else e.test
                walk(first)
                return
            for ch in ast.iter_child_nodes(e):
                if isinstance(ch, ast.expr):
                    walk(ch)
            if isinstance(e, ast.Call) and isinstance(e.func, ast.Name) and e.func.id in self.helpers:
                out.append(e)
        for e in exprs:
            walk(e)
        return out

    def block(self, body: List[ast.stmt], owner: str) -> List[ast.stmt]:
        new: List[ast.stmt] = []
        for s in body:
            # nested blocks first
            for fld in ('body', 'orelse', 'finalbody'):
                if hasattr(s, fld) and isinstance(getattr(s, fld), list) and not isinstance(s, (ast.FunctionDef, ast.ClassDef)):
                    setattr(s, fld, self.block(getattr(s, fld), owner))
            if isinstance(s, ast.Try):
                for h in s.handlers:
                    h.body = self.block(h.body, owner)
            calls = self._calls_in_stmt_header(s)
            for c in calls:
                h = self.helpers.get(c.func.id)
                if h is None or h.name == owner:
                    continue
                self.counter += 1
                ex = _expand(c, h, f'h{self.counter}', s)
                if ex is None:
                    continue
                pre, ret = ex
                hname, dflt, line, _ = DEFAULTED.pop()
                if dflt:
                    self.defaulted.append((owner, hname, dflt, line, ast.unparse(c)[:120]))
                # helpers may call helpers: inline inside the expanded body as well (bounded by the counter)
                if self.counter < 400:
                    pre = self.block(pre, h.name)
                new += pre
                _replace(s, c, ret)
                self.done += 1
            new.append(s)
        return new


def _replace(root: ast.AST, old: ast.AST, new: ast.AST):
    for parent in ast.walk(root):
        for fld, val in ast.iter_fields(parent):
            if val is old:
                setattr(parent, fld, new)
                return
            if isinstance(val, list):
                for i, x in enumerate(val):
                    if x is old:
                        val[i] = new
                        return


def inline_new_helpers(tree: ast.Module, module: str) -> int:
    """returns the number of call sites expanded"""
    frozen = frozen_functions()
    if module not in frozen:
        return 0                      # a new module: nothing is anchored in it
    known = set(frozen[module])
    helpers = {n.name: n for n in tree.body if isinstance(n, ast.FunctionDef) and n.name not in known and _single_exit(n)}
    if not helpers:
        return 0
    inl = _Inliner(helpers)
    for n in tree.body:
        if isinstance(n, ast.FunctionDef) and n.name not in helpers:
            n.body = inl.block(n.body, n.name)
        elif isinstance(n, ast.ClassDef):
            for m in n.body:
                if isinstance(m, ast.FunctionDef):
                    m.body = inl.block(m.body, m.name)
    ast.fix_missing_locations(tree)
    tree._inline_defaulted = inl.defaulted       # [(owner function, helper, params left at default, line, call text)]
    return inl.done
