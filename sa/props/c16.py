"""C16 - Saving and loading returns an equal object for every type and file format (structural clauses)."""
from __future__ import annotations
import ast

from ..model import AnalysisError
from ..heap import is_param_loc
from ..rules.common import where, norm, calls_to, bound_args
from ..rules.containers import table_agreement

EXPLANATION = (
    'Static necessary-condition analysis of the save/load paths: (TAB) per class the keys written by to_dict equal the '
    'keys read by the matching *_from_dict and every stored constructor parameter is written (Result.fitter, a callable, '
    'excepted); (EXH-class) dataset_from_dict / model_from_dict have an arm for every concrete class that can produce '
    'type(self).__name__; (EXH-value) every arm of the HDF5 value dispatch ends in a write, a recursive call or a raise - '
    'no value type falls through silently; (OVERWRITE) the existence test that raises dominates opening an HDF5 path, '
    'remove_file is control-dependent on `overwrite` and precedes the writer, each save reaches exactly one writer per '
    'file type; (STATE) attributes that feed state derived in Result.__init__ are not reassigned from outside the class '
    '(a reloaded object is re-derived from the stored attributes); (PURE) save does not write into the object; (CODEC) '
    'every encoding applied by the writer has its inverse in the reader. Element-wise equality after the round trip and '
    'unicode coverage are NOT decided.'
    ' Round 6: (EXH-read) every exit of _read_group comes after the loop over the group attributes.'
    ' (EXH-save) an unknown file_type is rejected before save removes the existing file.')
ASSUMPTIONS = ['h5py / pickle semantics are not modelled', 'value types considered: str, ndarray, list, dict, None, iterable, scalar']
FLOOR = 60
RULE_FLOORS = {'TAB': 20, 'EXH-value': 6, 'OVERWRITE': 9}

SAVERS = ['rdm.rdms.RDMs.save', 'data.base.DatasetBase.save', 'inference.result.Result.save']


def _leaf(fn):
    return fn.attr if isinstance(fn, ast.Attribute) else (fn.id if isinstance(fn, ast.Name) else '')


def run(ctx, obs):
    from ..rules import sweeps
    sweeps.run(ctx, obs, 'C16')
    tables(ctx, obs)
    class_dispatch(ctx, obs)
    value_dispatch(ctx, obs)
    overwrite(ctx, obs)
    state(ctx, obs)
    purity(ctx, obs)
    codec(ctx, obs)
    loaders(ctx, obs)
    numbered_keys(ctx, obs)
    descriptors_unfiltered(ctx, obs)
    lossless_writers(ctx, obs)
    reader_reads_attributes(ctx, obs)
    save_rejects_unknown_type(ctx, obs)


NUMERIC_TYPES = {'float', 'int', 'complex', 'float64', 'float32', 'int64', 'int32', 'f8', 'f4', 'i8', 'i4', 'double', 'bool'}


def save_rejects_unknown_type(ctx, obs, rule='EXH-save'):
    """save(filename, file_type, overwrite): an existing file may only be removed when something is going to be written in its
    place.  The writers are chosen by an if / elif chain on file_type; unless that chain ends in a raising else (or the type is
    validated before), a file_type that matches no arm ('h5', 'hdf', a typo) removes the old file under overwrite=True, writes
    nothing and reports nothing - the saved object is gone.  The loaders do raise for an unknown type."""
    prog = ctx.prog
    from ..rules.common import source_order
    for q in SAVERS:
        f = prog.func(q)
        so = source_order(f.node)
        rem = [c for c in ast.walk(f.node) if isinstance(c, ast.Call) and _leaf(c.func) == 'remove_file']
        chains = [n for n in ast.walk(f.node) if isinstance(n, ast.If) and isinstance(n.test, ast.Compare) and isinstance(n.test.left, ast.Name)
                  and n.test.left.id == 'file_type']
        con = 'an unknown file_type is rejected before the existing file is removed'
        if not rem or not chains:
            obs.unk(rule, q, con, 'removal / dispatch on file_type not found in this function (delegated)', where(prog, f, f.node))
            continue
        first_rem = min(so.get(id(c), 0) for c in rem)
        # validated before the removal: a raise guarded by a test on file_type that precedes remove_file
        early = [n for n in ast.walk(f.node) if isinstance(n, ast.If) and any(isinstance(x, ast.Name) and x.id == 'file_type' for x in ast.walk(n.test))
                 and any(isinstance(x, ast.Raise) for x in n.body) and so.get(id(n), 0) < first_rem]
        # or the chain itself ends in a raise and runs before the removal
        top = [n for n in chains if not any(n in o.orelse for o in chains)]
        tail = top[0]
        while len(tail.orelse) == 1 and isinstance(tail.orelse[0], ast.If):
            tail = tail.orelse[0]
        chain_raises = bool(tail.orelse) and any(isinstance(x, ast.Raise) for x in tail.orelse)
        if early or (chain_raises and so.get(id(top[0]), 0) < first_rem):
            obs.ok(rule, q, con, '', where(prog, f, top[0]))
        else:
            obs.bad(rule, q, con, f'`{norm(rem[0])}` runs for every file_type, and the chain `if file_type == ..` has no raising else: '
                    f'save(name, file_type="h5", overwrite=True) deletes the existing file and writes nothing, silently',
                    where(prog, f, rem[0]))


def reader_reads_attributes(ctx, obs, rule='EXH-read'):
    """`_write_to_group` stores strings (and string lists) as ATTRIBUTES of the group, everything else as datasets / sub-groups.
    `_read_group` therefore has two loops, over the members and over `group.attrs`; every exit of the function has to come after
    the attribute loop - a shortcut for "empty" groups (`len(group) == 0` counts members only) returns before the strings are
    read, and a dict whose values are all strings comes back empty."""
    prog = ctx.prog
    q = 'io.hdf5._read_group'
    f = prog.func(q)
    from ..rules.common import source_order
    so = source_order(f.node)
    loops = [l for l in ast.walk(f.node) if isinstance(l, ast.For) and any(isinstance(x, ast.Attribute) and x.attr == 'attrs' for x in ast.walk(l.iter))]
    con = 'every exit of _read_group comes after the loop over the group attributes'
    if not loops:
        obs.unk(rule, q, con, 'no loop over group.attrs found', where(prog, f, f.node))
        return
    first = min(so.get(id(l), 0) for l in loops)
    early = [x for x in ast.walk(f.node) if isinstance(x, ast.Return) and so.get(id(x), 0) < first]
    if early:
        obs.bad(rule, q, con, f'`{norm(early[0])}` (line {early[0].lineno}) leaves before `group.attrs` is read: string values are stored as '
                f'attributes, so a group that holds only strings is returned as an empty dict', where(prog, f, early[0]))
    else:
        obs.ok(rule, q, con, '', where(prog, f, loops[0]))


def lossless_writers(ctx, obs, rule='CODEC-cast'):
    """What a writer stores is the value it was given: no numeric cast on the way to the file.  `value.astype(float)`,
    `np.asarray(value, dtype=float)`, `float(value)` in the hdf5 / pkl writers turn strings that look like numbers ('01', '10'), integers
    and booleans into floats - the reloaded descriptor is a different value.  (The byte-string encoding of unicode arrays,
    `.astype('S')`, is undone by the reader and is the CODEC rule's business.)"""
    prog = ctx.prog
    n = 0
    for q, f in sorted(prog.functions.items()):
        if not (q.startswith('io.hdf5.') or q.startswith('io.pkl.')) or not (f.name.startswith('_write') or f.name.startswith('write')
                                                                                 or '_write' in q or 'Writer' in q):
            continue
        for c in ast.walk(f.node):
            if not isinstance(c, ast.Call):
                continue
            target_type = None
            if isinstance(c.func, ast.Attribute) and c.func.attr == 'astype' and c.args:
                target_type = c.args[0]
            elif _leaf(c.func) in ('array', 'asarray', 'asanyarray', 'fromiter'):
                target_type = next((k.value for k in c.keywords if k.arg == 'dtype'), None)
            elif isinstance(c.func, ast.Name) and c.func.id in ('float', 'int', 'complex') and len(c.args) == 1 \
                    and not isinstance(c.args[0], ast.Constant):
                target_type = c.func
            if target_type is None:
                continue
            tname = target_type.value if isinstance(target_type, ast.Constant) else _leaf(target_type)
            n += 1
            con = 'the stored value is not cast to a numeric type by the writer'
            if isinstance(tname, str) and tname in NUMERIC_TYPES:
                obs.bad(rule, q, con, f'`{norm(c)[:70]}`: whatever converts is stored as {tname} - numeric-looking strings, integers and '
                        f'booleans are reloaded as other values', where(prog, f, c))
            else:
                obs.ok(rule, q, con, f'`{norm(c)[:50]}`', where(prog, f, c))
    if n == 0:
        obs.unk(rule, 'io.hdf5._write_list', 'casts in the writers', 'no dtype conversion found in the writers')


def tables(ctx, obs):
    table_agreement(ctx, obs, 'rdm.rdms.RDMs.to_dict', 'rdm.rdms.rdms_from_dict')
    table_agreement(ctx, obs, 'data.base.DatasetBase.to_dict', 'data.dataset.dataset_from_dict', ignore=('time_descriptors',))
    table_agreement(ctx, obs, 'data.dataset.TemporalDataset.to_dict', 'data.dataset.dataset_from_dict')
    table_agreement(ctx, obs, 'model.model.Model.to_dict', 'model.model.model_from_dict')
    table_agreement(ctx, obs, 'inference.result.Result.to_dict', 'inference.result.result_from_dict')
    # every stored constructor parameter is written by to_dict
    prog = ctx.prog
    for cls, init, todict, exc in (
            ('RDMs', 'rdm.rdms.RDMs.__init__', 'rdm.rdms.RDMs.to_dict', {}),
            ('DatasetBase', 'data.base.DatasetBase.__init__', 'data.base.DatasetBase.to_dict', {'check_dims': 'validation flag, not state'}),
            ('TemporalDataset', 'data.dataset.TemporalDataset.__init__', 'data.dataset.TemporalDataset.to_dict',
             {'check_dims': 'validation flag, not state'}),
            ('Result', 'inference.result.Result.__init__', 'inference.result.Result.to_dict',
             {'fitter': 'a callable: cannot be serialised (reasoned exception)'})):
        fi, ft = prog.func(init), prog.func(todict)
        written_attrs = {n.attr for n in ast.walk(ft.node) if isinstance(n, ast.Attribute) and isinstance(n.value, ast.Name)
                         and n.value.id == 'self'}
        alias = {'dissimilarities': 'dissimilarities', 'noise_ceiling': 'noise_ceiling'}
        for p in fi.params[1:]:
            if p in exc:
                obs.exceptions.append(f'TAB {todict} {p}: {exc[p]}')
                continue
            obs.check(p in written_attrs, 'TAB', todict, f'constructor argument {p} of {cls} is written by to_dict',
                      f'{todict} never reads self.{p}: the value is lost on save', '', where(prog, ft, ft.node))
    # the reader passes every key to the constructor parameter of the same name
    for reader, ctor in (('rdm.rdms.rdms_from_dict', 'rdm.rdms.RDMs.__init__'),
                         ('inference.result.result_from_dict', 'inference.result.Result.__init__')):
        f = prog.func(reader)
        r = ctx.dep.result(reader)
        for c in calls_to(r, ctor):
            b = bound_args(prog, ctor, c)
            for p, (e, _) in b.items():
                keys = {n.slice.value for n in ast.walk(_inline(r, e)) if isinstance(n, ast.Subscript) and isinstance(n.slice, ast.Constant)
                        and isinstance(n.slice.value, str)}
                if not keys:
                    continue
                want = {'evaluations': 'evaluations', 'noise_ceiling': 'noise_ceiling'}.get(p, p)
                obs.check(want in keys, 'TAB', reader, f'constructor parameter {p} is fed from key {want!r}',
                          f'`{p}` is built from keys {sorted(keys)}', '', where(prog, f, c.node))


def _inline(r, e):
    from ..rules.common import Inliner
    return Inliner(r, None, ()).inline(e)


def class_dispatch(ctx, obs, rule='EXH-class'):
    prog = ctx.prog
    for reader, base in (('data.dataset.dataset_from_dict', 'data.base.DatasetBase'),
                         ('model.model.model_from_dict', 'model.model.Model')):
        f = prog.func(reader)
        classes = [base] + prog.subclasses(base)
        arms = {}
        for n in ast.walk(f.node):
            if isinstance(n, ast.If) and isinstance(n.test, ast.Compare) and isinstance(n.test.ops[0], ast.Eq) \
                    and isinstance(n.test.comparators[0], ast.Constant) and isinstance(n.test.comparators[0].value, str):
                arms[n.test.comparators[0].value] = n
        for cq in classes:
            name = prog.classes[cq].name
            if name not in arms:
                obs.bad(rule, reader, f'class {name} can be rebuilt', f'{reader} has no arm for type {name!r}', where(prog, f, f.node))
                continue
            built = [_leaf(c.func) for s in arms[name].body for c in ast.walk(s) if isinstance(c, ast.Call)]
            named = {n_.id for s in arms[name].body for n_ in ast.walk(s) if isinstance(n_, ast.Name)} | \
                {n_.attr for s in arms[name].body for n_ in ast.walk(s) if isinstance(n_, ast.Attribute)}
            others = {prog.classes[c2].name for c2 in classes} - {name}
            if name in built or name in named:
                # constructs the class, or selects it (cls = Name) for a shared constructor call
                obs.ok(rule, reader, f'class {name} can be rebuilt', '', where(prog, f, arms[name]))
            elif (set(built) | named) & others:
                obs.bad(rule, reader, f'class {name} can be rebuilt', f'arm for {name!r} builds {sorted((set(built) | named) & others)}',
                        where(prog, f, arms[name]))
            else:
                obs.unk(rule, reader, f'class {name} can be rebuilt', f'arm for {name!r} names no class', where(prog, f, arms[name]))


def _acts(stmts) -> bool:
    """does every path through these statements write / recurse / raise?"""
    for s in stmts:
        if isinstance(s, ast.Raise):
            return True
        if isinstance(s, ast.Assign) and any(isinstance(t, ast.Subscript) for t in s.targets):
            return True
        if isinstance(s, ast.Expr) and isinstance(s.value, ast.Call):
            return True
        if isinstance(s, ast.Assign) and isinstance(s.value, ast.Call) and _leaf(s.value.func) in ('create_group', 'create_dataset'):
            continue
        if isinstance(s, ast.If):
            if _acts(s.body) and s.orelse and _acts(s.orelse):
                return True
        if isinstance(s, ast.Try):
            if _acts(s.body) and all(_acts(h.body) for h in s.handlers):
                return True
        if isinstance(s, (ast.For, ast.While)):
            # writing each element; an empty sequence leaves an (intended) empty group created before the loop
            if _acts(s.body):
                return True
    return False


def value_dispatch(ctx, obs, rule='EXH-value'):
    prog = ctx.prog
    q = 'io.hdf5._write_to_group'
    f = prog.func(q)
    loops = [n for n in f.node.body if isinstance(n, ast.For)]
    if not loops:
        raise AnalysisError('_write_to_group: no loop over the dictionary')
    chains = [n for n in loops[0].body if isinstance(n, ast.If)]
    if not chains:
        raise AnalysisError('_write_to_group: no value dispatch chain')
    cur = chains[0]
    k = 0
    while True:
        obs.check(_acts(cur.body), rule, q, f'arm {k} `{norm(cur.test)[:50]}` stores the value on every path',
                  f'the arm for `{norm(cur.test)[:60]}` has a path that neither writes, recurses nor raises: such a value is '
                  f'silently missing from the file and from the reloaded object', '', where(prog, f, cur))
        k += 1
        if len(cur.orelse) == 1 and isinstance(cur.orelse[0], ast.If):
            cur = cur.orelse[0]
        else:
            obs.check(bool(cur.orelse) and _acts(cur.orelse), rule, q, 'the fall-back arm stores the value or raises',
                      'values of other types are dropped', '', where(prog, f, cur))
            break
    q2 = 'io.hdf5._write_list'
    f2 = prog.func(q2)
    tr = [n for n in ast.walk(f2.node) if isinstance(n, ast.Try)]
    ok = bool(tr) and _acts(tr[0].body) and all(_acts(h.body) for h in tr[0].handlers)
    obs.check(ok, rule, q2, 'lists are stored as an array or, failing that, element by element',
              '_write_list has a path that stores nothing', '', where(prog, f2, f2.node))
    # recursion for nested dicts
    con = 'nested dicts are written recursively'
    mod_tree = prog.module_of(f).tree
    module_callables = {n.name for n in ast.walk(mod_tree) if isinstance(n, (ast.FunctionDef, ast.ClassDef))}
    dict_arms = [a for a in ast.walk(f.node) if isinstance(a, ast.If) and any(
        isinstance(c, ast.Call) and _leaf(c.func) == 'isinstance' and len(c.args) == 2 and any(
            isinstance(x, ast.Name) and x.id == 'dict' for x in ast.walk(c.args[1])) for c in ast.walk(a.test))]
    if not dict_arms:
        obs.unk(rule, q, con, 'no arm for dict values recognised', where(prog, f, f.node))
    for a in dict_arms[:1]:
        tested = {x.id for c in ast.walk(a.test) if isinstance(c, ast.Call) and _leaf(c.func) == 'isinstance' and c.args
                  for x in ast.walk(c.args[0]) if isinstance(x, ast.Name)}
        calls = [c for st in a.body for c in ast.walk(st) if isinstance(c, ast.Call)
                 and any(isinstance(x, ast.Name) and x.id in tested for arg in list(c.args) + [k.value for k in c.keywords] for x in ast.walk(arg))]
        own = [c for c in calls if _leaf(c.func) in module_callables or _leaf(c.func).startswith('__X')]
        if own:
            obs.ok(rule, q, con, f'`{norm(own[0])[:60]}`', where(prog, f, own[0]))
        elif calls:
            obs.unk(rule, q, con, f'the dict value is handed to `{norm(calls[0])[:60]}`', where(prog, f, calls[0]))
        else:
            obs.bad(rule, q, con, 'the arm for dict values contains no call that receives the nested dict: no recursive call',
                    where(prog, f, a))
    q3 = 'io.hdf5._read_group'
    f3 = prog.func(q3)
    rec = any(isinstance(c, ast.Call) and _leaf(c.func) == '_read_group' for c in ast.walk(f3.node))
    attrs = any(isinstance(n, ast.Attribute) and n.attr == 'attrs' for n in ast.walk(f3.node))
    obs.check(rec and attrs, rule, q3, 'the reader recurses into groups and reads attributes (where strings are stored)',
              'reader does not cover groups / attrs', '', where(prog, f3, f3.node))


def overwrite(ctx, obs, rule='OVERWRITE'):
    prog = ctx.prog
    q = 'io.hdf5.write_dict_hdf5'
    f = prog.func(q)
    r = ctx.dep.result(q)
    opens = [c for c in r.calls if c.ext and c.ext.split('.')[-1] == 'File']
    if not opens:
        raise AnalysisError('write_dict_hdf5: no File(...) call')
    guard = None
    for i, s in enumerate(f.node.body):
        if isinstance(s, ast.If):
            has_exists = any(isinstance(c, ast.Call) and _leaf(c.func) == 'exists' for c in ast.walk(s))
            has_raise = any(isinstance(x, ast.Raise) for x in ast.walk(s))
            if has_exists and has_raise:
                guard = i
    open_pos = next(i for i, s in enumerate(f.node.body) if any(x is opens[0].node for x in ast.walk(s)))
    obs.check(guard is not None and guard < open_pos, rule, q, 'an existing path raises before the file is opened',
              'no existence test that raises dominates File(...): an existing HDF5 file is appended to / silently replaced', '',
              where(prog, f, opens[0].node))
    # open mode: the str-only existence test does not cover other path-likes (pathlib.Path); for those the refusal rests on
    # the non-truncating open mode (h5py 'a' fails on existing names, 'x'/'w-' fail on existing files) - 'w' truncates
    on = opens[0].node
    mode = on.args[1] if len(on.args) > 1 else next((k.value for k in on.keywords if k.arg == 'mode'), None)
    if guard is not None:
        g = f.node.body[guard]
        str_only = any(isinstance(c, ast.Call) and _leaf(c.func) == 'isinstance' and len(c.args) == 2
                       and isinstance(c.args[1], ast.Name) and c.args[1].id == 'str' for c in ast.walk(g.test))
        if isinstance(mode, ast.Constant) and mode.value in ('a', 'x', 'w-', 'r+'):
            obs.ok(rule, q, 'the file is opened in a mode that cannot truncate an existing file', f'mode {mode.value!r}', where(prog, f, on))
        elif isinstance(mode, ast.Constant) and mode.value == 'w' and str_only:
            obs.bad(rule, q, 'the file is opened in a mode that cannot truncate an existing file',
                    f"`{norm(on)}` truncates, and the existence test `{norm(g.test)}` only covers str targets: an existing file "
                    f"given as pathlib.Path is silently replaced although overwrite was not requested", where(prog, f, on))
        elif isinstance(mode, ast.Constant) and mode.value == 'w':
            obs.ok(rule, q, 'the file is opened in a mode that cannot truncate an existing file',
                   "mode 'w' behind an existence test that covers every path type", where(prog, f, on))
        else:
            obs.unk(rule, q, 'the file is opened in a mode that cannot truncate an existing file',
                    f'mode `{norm(mode) if mode is not None else None}` not recognised', where(prog, f, on))
    for q in SAVERS:
        f = prog.func(q)
        r = ctx.dep.result(q)
        rem = [c for c in r.calls if any(x.endswith('file_io.remove_file') for x in c.callees)]
        wr = [c for c in r.calls if any(x.endswith(('write_dict_hdf5', 'write_dict_pkl')) for x in c.callees)]
        deleg = _delegates(ctx, q)
        if not rem and not wr and deleg:
            for con_ in ('save removes an existing file only through remove_file', 'remove_file runs only when overwrite is requested',
                         "file_type 'hdf5' reaches exactly the writer write_dict_hdf5", "file_type 'pkl' reaches exactly the writer write_dict_pkl"):
                obs.unk(rule, q, con_, f'saving is delegated to `{deleg[0]}`', where(prog, f, f.node))
            continue
        obs.check(len(rem) == 1, rule, q, 'save removes an existing file only through remove_file', f'{len(rem)} remove_file calls',
                  '', where(prog, f, f.node))
        for c in rem:
            guards = [n for n in ast.walk(f.node) if isinstance(n, ast.If) and any(x is c.node for s in n.body for x in ast.walk(s))]
            ok = any(isinstance(g.test, ast.Name) and g.test.id == 'overwrite' for g in guards)
            obs.check(ok, rule, q, 'remove_file runs only when overwrite is requested',
                      f'`{norm(c.node)}` is not guarded by `if overwrite:`: saving replaces existing files unconditionally', '',
                      where(prog, f, c.node))
            a = c.node.args[0] if c.node.args else None
            obs.check(isinstance(a, ast.Name) and a.id == 'filename', rule, q, 'the file removed is the target file',
                      f'`{norm(c.node)}`', '', where(prog, f, c.node))
            for w in wr:
                obs.check(_before(f.node, c.node, w.node), rule, q, 'removal precedes writing', 'the file is removed after it was '
                          'written', '', where(prog, f, w.node))
        kinds = {}
        for n in ast.walk(f.node):
            if isinstance(n, ast.If) and isinstance(n.test, ast.Compare) and isinstance(n.test.left, ast.Name) \
                    and n.test.left.id == 'file_type' and isinstance(n.test.comparators[0], ast.Constant):
                ws = [_leaf(c.func) for s in n.body for c in ast.walk(s) if isinstance(c, ast.Call)]
                kinds[n.test.comparators[0].value] = ws
        for ft, w in (('hdf5', 'write_dict_hdf5'), ('pkl', 'write_dict_pkl')):
            con_ = f'file_type {ft!r} reaches exactly the writer {w}'
            if kinds.get(ft) is None:
                # no `if file_type == {ft!r}:` arm in this function: the dispatch is a table / an enum / a helper - not decided
                obs.unk(rule, q, con_, f'no arm comparing file_type with {ft!r} in {q.split(".")[-1]}', where(prog, f, f.node))
            else:
                obs.check(kinds.get(ft) == [w], rule, q, con_, f'file_type {ft!r} reaches {kinds.get(ft)}', '', where(prog, f, f.node))
        for w in wr:
            args = [norm(a) for a in w.node.args]
            d = w.node.args[1] if len(w.node.args) > 1 else None
            from ..rules.common import Inliner
            e = Inliner(r, None, ()).inline(d) if d is not None else None
            ok = args[:1] == ['filename'] and e is not None and isinstance(e, ast.Call) and _leaf(e.func) == 'to_dict'
            obs.check(ok, rule, q, 'the writer receives (filename, self.to_dict())', f'{args}', '', where(prog, f, w.node))


STATE_ATTRS = {'n_rdm', 'n_pattern', 'variances', 'dof', 'evaluations', 'noise_ceiling', 'models', 'method', 'cv_method'}


def state(ctx, obs, rule='STATE'):
    """attributes that feed the state derived in Result.__init__ are not reassigned from outside the class"""
    prog = ctx.prog
    n = 0
    for q, fi in sorted(prog.functions.items()):
        if q.startswith(('vis.', 'test.', 'inference.result.Result.')):
            continue
        r = ctx.dep.summaries.get(q)
        if r is None or not r.calls:
            continue
        made = set()
        for s in ast.walk(fi.node):
            if isinstance(s, ast.Assign) and isinstance(s.targets[0], ast.Name) and isinstance(s.value, ast.Call) \
                    and _leaf(s.value.func) == 'Result':
                made.add(s.targets[0].id)
        if not made:
            continue
        n += 1
        bad = False
        for s in ast.walk(fi.node):
            if isinstance(s, (ast.Assign, ast.AugAssign)):
                tg = s.targets if isinstance(s, ast.Assign) else [s.target]
                for t in tg:
                    if isinstance(t, ast.Attribute) and isinstance(t.value, ast.Name) and t.value.id in made \
                            and t.attr in STATE_ATTRS:
                        bad = True
                        obs.bad(rule, q, f'Result.{t.attr} is not patched after construction',
                                f'`{norm(s)}`: Result.__init__ derives model_var / diff_var / noise_ceil_var from n_rdm, '
                                f'n_pattern and variances; this attribute is set after construction, so a reloaded object '
                                f'(re-derived from the stored attributes) has other variances and other test outputs',
                                where(prog, fi, s))
        if not bad:
            obs.ok(rule, q, 'the Result is fully specified through its constructor', '', where(prog, fi, fi.node))
    obs.analysed['functions_constructing_Result'] = n


def purity(ctx, obs, rule='PURE'):
    prog, heap = ctx.prog, ctx.heap
    for q in SAVERS + ['rdm.rdms.RDMs.to_dict', 'data.base.DatasetBase.to_dict', 'data.dataset.TemporalDataset.to_dict',
                       'model.model.Model.to_dict', 'inference.result.Result.to_dict']:
        f = prog.func(q)
        s = heap.summary(q)
        w = sorted({l for (l, k, key) in s.writes if is_param_loc(l) and l.startswith('P:self')})
        obs.check(not w, rule, q, 'saving / exporting does not write into the object', f'writes {w}', '', where(prog, f, f.node))
    for q in ('rdm.rdms.RDMs.to_dict', 'inference.result.Result.to_dict', 'data.base.DatasetBase.to_dict'):
        f = prog.func(q)
        s = heap.summary(q)
        obs.check(not any(is_param_loc(l) for l in s.ret), rule, q, 'to_dict returns a new top-level dict (the version stamp is '
                  'written into it, not into the object)', f'returns {sorted(s.ret)}', '', where(prog, f, f.node))


def codec(ctx, obs, rule='CODEC'):
    prog = ctx.prog
    w, wl, rd = (prog.func('io.hdf5._write_to_group'), prog.func('io.hdf5._write_list'), prog.func('io.hdf5._read_group'))
    enc_s = [c for f in (w, wl) for c in ast.walk(f.node) if isinstance(c, ast.Call) and _leaf(c.func) == 'astype'
             and c.args and isinstance(c.args[0], ast.Constant) and c.args[0].value == 'S']
    dec_s = [c for c in ast.walk(rd.node) if isinstance(c, ast.Call) and _leaf(c.func) == 'astype' and c.args
             and isinstance(c.args[0], ast.Constant) and c.args[0].value in ('unicode', 'U', 'str')]
    bytes_test = any(isinstance(n, ast.Attribute) and n.attr == 'bytes_' for n in ast.walk(rd.node))
    obs.check(bool(enc_s) == (bool(dec_s) and bytes_test), rule, 'io.hdf5._read_group',
              'unicode arrays written as bytes are decoded back to unicode on read',
              f'writer encodes {len(enc_s)}x astype("S"), reader decodes {len(dec_s)}x (bytes test: {bytes_test})', '',
              where(prog, rd, rd.node))
    enc_none = any(isinstance(c, ast.Call) and _leaf(c.func) == 'Empty' for c in ast.walk(w.node))
    dec_none = any(isinstance(n, ast.Compare) and isinstance(n.left, ast.Attribute) and n.left.attr == 'shape'
                   and isinstance(n.ops[0], ast.Is) for n in ast.walk(rd.node))
    obs.check(enc_none == dec_none, rule, 'io.hdf5._read_group', 'None (written as an Empty dataset) is read back as None',
              f'writer Empty: {enc_none}, reader shape-is-None: {dec_none}', '', where(prog, rd, rd.node))
    keyed = any(isinstance(c, ast.Call) and isinstance(c.func, ast.Name) and c.func.id == 'str' for c in ast.walk(wl.node))
    dl = prog.func('util.descriptor_utils.dict_to_list')
    unkeyed = any(isinstance(c, ast.Call) and isinstance(c.func, ast.Name) and c.func.id == 'str' for c in ast.walk(dl.node))
    obs.check(keyed == unkeyed, rule, 'util.descriptor_utils.dict_to_list',
              'ragged lists written as groups keyed str(i) are rebuilt by dict_to_list in index order',
              f'writer str(i): {keyed}, dict_to_list str(i): {unkeyed}', '', where(prog, dl, dl.node))
    rf = prog.func('rdm.rdms.rdms_from_dict')
    uses = [c for c in ast.walk(rf.node) if isinstance(c, ast.Call) and _leaf(c.func) == 'dict_to_list']
    obs.check(len(uses) >= 2, rule, 'rdm.rdms.rdms_from_dict', 'rdm and pattern descriptors pass through dict_to_list on load',
              f'{len(uses)} uses', '', where(prog, rf, rf.node))


def _before(root, a, b) -> bool:
    from ..rules.common import source_order
    o = source_order(root)
    return o.get(id(a), 0) < o.get(id(b), 0)


def _delegates(ctx, q):
    """calls in q to functions that do not exist in the pinned tree (new helpers, any module), by name"""
    from ..check import _is_new_function
    r = ctx.dep.result(q)
    out = []
    for c in r.calls:
        for g in c.callees:
            if _is_new_function(g):
                out.append(g)
    return out


def loaders(ctx, obs, rule='EXH-class'):
    prog = ctx.prog
    for q, reader in (('rdm.rdms.load_rdm', 'rdms_from_dict'), ('data.dataset.load_dataset', 'dataset_from_dict'),
                      ('inference.result.load_results', 'result_from_dict')):
        f = prog.func(q)
        calls = [_leaf(c.func) for c in ast.walk(f.node) if isinstance(c, ast.Call)]
        con = f'{q.split(".")[-1]} reads both file types and rebuilds through {reader}'
        deleg = _delegates(ctx, q)
        if 'read_dict_hdf5' in calls and 'read_dict_pkl' in calls and reader in calls:
            obs.ok(rule, q, con, '', where(prog, f, f.node))
        elif deleg and not ({'read_dict_hdf5', 'read_dict_pkl'} & set(calls)):
            obs.unk(rule, q, con, f'reading is delegated to `{deleg[0]}`', where(prog, f, f.node))
        else:
            obs.bad(rule, q, con, f'calls {calls}', where(prog, f, f.node))
        tails = [n for n in ast.walk(f.node) if isinstance(n, ast.If) and isinstance(n.test, ast.Compare)
                 and isinstance(n.test.left, ast.Name) and n.test.left.id == 'file_type'
                 and not (len(n.orelse) == 1 and isinstance(n.orelse[0], ast.If))]
        for t in tails:
            if isinstance(t.test.comparators[0], ast.Constant) and t.test.comparators[0].value is None:
                continue
            # else: raise  |  early-return style: every arm returns and a raise follows the chain in the same block
            ends_raise = bool(t.orelse) and isinstance(t.orelse[-1], ast.Raise)
            follows = False
            for blk in [x for x in ast.walk(f.node) if hasattr(x, 'body') and isinstance(getattr(x, 'body'), list)]:
                for fld in ('body', 'orelse'):
                    seq = getattr(blk, fld, None)
                    if isinstance(seq, list) and t in seq:
                        rest = seq[seq.index(t) + 1:]
                        follows = any(isinstance(x, ast.Raise) for x in rest) and any(isinstance(x, ast.Return) for x in ast.walk(t))
            if ends_raise or follows:
                obs.ok(rule, q, 'an unknown file type is rejected', '', where(prog, f, t))
            elif t.orelse and not isinstance(t.orelse[-1], ast.Raise):
                obs.bad(rule, q, 'an unknown file type is rejected', 'the chain ends in an else-arm that does not raise', where(prog, f, t))
            else:
                obs.unk(rule, q, 'an unknown file type is rejected', 'no raise recognised after the file-type chain', where(prog, f, t))


def _fmt_prefix(e):
    """'model_%d' % i / f'model_{i}' / 'model_{}'.format(i)  ->  ('model_', padded?)"""
    if isinstance(e, ast.BinOp) and isinstance(e.op, ast.Mod) and isinstance(e.left, ast.Constant) and isinstance(e.left.value, str):
        t = e.left.value
        if '%d' in t or '%i' in t:
            return t.split('%')[0], False
        if '%0' in t:
            return t.split('%')[0], True
    if isinstance(e, ast.JoinedStr) and e.values and isinstance(e.values[0], ast.Constant) and any(isinstance(v, ast.FormattedValue) for v in e.values):
        fv = [v for v in e.values if isinstance(v, ast.FormattedValue)][0]
        padded = fv.format_spec is not None and '0' in ast.unparse(fv.format_spec)
        return e.values[0].value, padded
    if isinstance(e, ast.Call) and isinstance(e.func, ast.Attribute) and e.func.attr == 'format' and isinstance(e.func.value, ast.Constant) \
            and isinstance(e.func.value.value, str) and '{' in e.func.value.value:
        t = e.func.value.value
        return t.split('{')[0], ':0' in t
    return None


def numbered_keys(ctx, obs, rule='SEQ'):
    """a list stored as numbered sub-dictionaries (`model_0`, `model_1`, ... `model_10`) is read back by number: iterating the
    stored mapping by sorted / stored key order is lexicographic (`model_10` < `model_2`) and permutes the list against the
    arrays that are stored by position (evaluations, variances)"""
    prog = ctx.prog
    qw, qr = 'inference.result.Result.to_dict', 'inference.result.result_from_dict'
    fw, fr = prog.func(qw), prog.func(qr)
    wr = [(_fmt_prefix(n), n) for n in ast.walk(fw.node) if isinstance(n, (ast.BinOp, ast.JoinedStr, ast.Call))]
    wr = [(p, n) for p, n in wr if p]
    if not wr:
        obs.unk(rule, qw, 'models are stored under numbered keys', 'no formatted key found in to_dict', where(prog, fw, fw.node))
        return
    (prefix, padded), wnode = wr[0]
    rd = [(_fmt_prefix(n), n) for n in ast.walk(fr.node) if isinstance(n, (ast.BinOp, ast.JoinedStr, ast.Call))]
    rd = [(p, n) for p, n in rd if p and p[0] == prefix]
    con = f'the stored `{prefix}<i>` entries are read back in numeric order'
    # readers that iterate the mapping instead of numbering the keys
    iter_sites = []
    for n in ast.walk(fr.node):
        its = []
        if isinstance(n, (ast.ListComp, ast.GeneratorExp)):
            its = [g.iter for g in n.generators]
        elif isinstance(n, ast.For):
            its = [n.iter]
        for it in its:
            txt = norm(it)
            if isinstance(it, ast.Call) and _leaf(it.func) in ('sorted', 'keys', 'values', 'items', 'list') and 'model' in txt.lower():
                has_key = any(k.arg == 'key' for k in it.keywords)
                iter_sites.append((it, has_key))
    if rd:
        in_range = any(isinstance(lp, (ast.For, ast.ListComp)) and any(x is rd[0][1] for x in ast.walk(lp))
                       and 'range(' in norm(lp.iter if isinstance(lp, ast.For) else lp.generators[0].iter)
                       for lp in ast.walk(fr.node) if isinstance(lp, (ast.For, ast.ListComp)))
        obs.soft(in_range, rule, qr, con, 'key is formatted but not from a range index', f'`{norm(rd[0][1])}` inside a range loop',
                 where(prog, fr, rd[0][1]))
    elif iter_sites and not padded:
        it, has_key = iter_sites[0]
        if has_key:
            obs.unk(rule, qr, con, f'`{norm(it)[:70]}` sorts with a custom key (not evaluated)', where(prog, fr, it))
        else:
            obs.bad(rule, qr, con, f'`{norm(it)[:70]}` walks the stored mapping in string / storage order: with 11 or more models '
                    f'`{prefix}10` comes before `{prefix}2` (written unpadded by `{norm(wnode)}`), so the loaded models are permuted '
                    f'against evaluations and variances', where(prog, fr, it))
    else:
        obs.unk(rule, qr, con, 'neither a numbered key nor an iteration over the stored mapping was recognised', where(prog, fr, fr.node))


def descriptors_unfiltered(ctx, obs, rule='TAB'):
    """to_dict writes every descriptor dictionary as it is: a comprehension with an `if` filter (e.g. dropping 'index' because "the
    constructor regenerates it") stores less than the object holds - after subset / indexing / sort_by(reindex=False) the index is
    not the default running index, and the reloaded object differs."""
    prog = ctx.prog
    for q in ('rdm.rdms.RDMs.to_dict', 'data.base.DatasetBase.to_dict', 'data.dataset.TemporalDataset.to_dict'):
        f = prog.func(q)
        for s in ast.walk(f.node):
            if isinstance(s, ast.Assign) and isinstance(s.targets[0], ast.Subscript) and isinstance(s.targets[0].slice, ast.Constant) \
                    and isinstance(s.targets[0].slice.value, str) and s.targets[0].slice.value.endswith('descriptors'):
                key = s.targets[0].slice.value
                filt = [c for c in ast.walk(s.value) if isinstance(c, (ast.DictComp, ast.ListComp, ast.GeneratorExp))
                        and any(g.ifs for g in c.generators)]
                pops = False
                obs.check(not filt, rule, q, f'`{key}` is written with all its entries',
                          f'`{norm(s)[:90]}` filters the entries it stores: whatever is dropped here is regenerated (not restored) on load',
                          '', where(prog, f, s))
