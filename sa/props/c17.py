"""C17 - RDM transforms mean what they say; measures are invariant as theory dictates (structural clauses)."""
from __future__ import annotations
import ast

from ..heap import is_param_loc, FRESH
from ..rules.common import where, norm, Inliner, sym_operands
from ..rules.containers import field_provenance

EXPLANATION = (
    'Static necessary-condition analysis of rdm/transform.py: (ND-field/FRESH) every transform returns an RDMs whose '
    'three descriptor dicts derive from (and do not alias) the source\'s and whose measure name derives from the source '
    'measure and a transform-specific literal; (ORDER) sqrt_transform clamps negatives before np.sqrt, geodesic_transform '
    'removes the maximal edges before the shortest-path call and works on the min-max output; (FWD) rank_transform hands '
    'method and nan_policy="omit" to rankdata, transform applies the given function to the vector form; (ROW) minmax / rank '
    '/ geodesic statistics are computed per RDM, never across the stack; (PURE) no transform writes its input (E3). The '
    'invariance clauses reduce to the operand-symmetry obligations of C03, which are re-evaluated here for the rank and '
    'correlation measures. Tie-averaged ranks, quantile maps and the invariances themselves are NOT decided numerically.'
    ' Also: (API) zero-length edges of the min-max graph are part of the graph (networkx reads zero entries as missing edges); (RUNLEN) in the rank helpers of rdm.compare.'
    ' Round 6: (PART) values equal to a quantile threshold of the geo-topological transform fall in exactly one mask.')
ASSUMPTIONS = ['scipy.stats.rankdata(nan_policy="omit") ranks the non-missing entries and keeps NaN',
               'statement order inside one block decides the ORDER obligations']
FLOOR = 45
RULE_FLOORS = {'ND-field': 20, 'ROW': 3, 'ORDER': 2}

T = 'rdm.transform.'
TRANSFORMS = ['rank_transform', 'sqrt_transform', 'positive_transform', 'transform', 'minmax_transform',
              'geotopological_transform', 'geodesic_transform']
FIELDS = ['descriptors', 'rdm_descriptors', 'pattern_descriptors']


def _leaf(fn):
    return fn.attr if isinstance(fn, ast.Attribute) else (fn.id if isinstance(fn, ast.Name) else '')


def run(ctx, obs):
    scale_free_guards(ctx, obs)
    stale_masks(ctx, obs)
    from ..rules import sweeps
    sweeps.run(ctx, obs, 'C17')
    prog, heap = ctx.prog, ctx.heap
    for t in TRANSFORMS:
        q = T + t
        f = prog.func(q)
        field_provenance(ctx, obs, q, ['RDMs'], FIELDS)
        s = heap.summary(q)
        shared = sorted(l for fld in FIELDS + ['dissimilarities'] for l in s.ret_fields.get(fld, ()) if is_param_loc(l))
        obs.check(not shared, 'FRESH', q, 'the result shares no array / descriptor dict with the source',
                  f'result aliases {shared}', '', where(prog, f, f.node))
        w = sorted(l for (l, k, key) in s.writes if is_param_loc(l) and key != 'index')
        obs.check(not w, 'PURE', q, 'the transform does not write its input', f'writes {w}', '', where(prog, f, f.node))
        measure(ctx, obs, q)
        source_vectors(ctx, obs, q)
    order_sqrt(ctx, obs)
    order_geodesic(ctx, obs)
    geotopological_partition(ctx, obs)
    rank_fwd(ctx, obs)
    row_scope(ctx, obs)
    custom(ctx, obs)
    for fn in ('compare_spearman', 'compare_rho_a', 'compare_correlation', 'compare_cosine', 'compare_kendall_tau',
               'compare_kendall_tau_a'):
        sym_operands(ctx, obs, 'rdm.compare.' + fn, source_leaf='_parse_input_rdms')
    from ..rules.ranks import ranked_on_all_paths
    for fn in ('compare_spearman', 'compare_rho_a'):
        ranked_on_all_paths(ctx, obs, 'rdm.compare.' + fn)


def _ctor(f):
    return [c for c in ast.walk(f.node) if isinstance(c, ast.Call) and _leaf(c.func) == 'RDMs']


def measure(ctx, obs, q, rule='ND-field'):
    prog = ctx.prog
    f = prog.func(q)
    r = ctx.dep.result(q)
    inl = Inliner(r, None, ('rdms',))
    for c in _ctor(f):
        kw = {k.arg: k.value for k in c.keywords}
        m = kw.get('dissimilarity_measure', c.args[1] if len(c.args) > 1 else None)
        if m is None:
            obs.bad(rule, q, 'the result carries a measure name derived from the source\'s',
                    f'`{norm(c)[:70]}` passes no dissimilarity_measure', where(prog, f, c))
            continue
        e = inl.inline(m)
        reads = any(isinstance(n, ast.Attribute) and n.attr == 'dissimilarity_measure' for n in ast.walk(e))
        lits = [n.value for n in ast.walk(e) if isinstance(n, ast.Constant) and isinstance(n.value, str) and n.value.strip()]
        obs.check(reads or bool(lits), rule, q, 'the result carries a measure name derived from the source\'s',
                  f'measure `{ast.unparse(e)[:80]}` neither reads rdms.dissimilarity_measure nor names the transform', '',
                  where(prog, f, c))
        if q.split('.')[-1] not in ('positive_transform',):
            obs.check(bool(lits), rule, q, 'the measure name is updated with a transform-specific literal',
                      f'measure `{ast.unparse(e)[:80]}` carries no literal naming the transform', '', where(prog, f, c))


def source_vectors(ctx, obs, q, rule='ND-field'):
    """the values of the result derive from the vector form of the source"""
    prog = ctx.prog
    f = prog.func(q)
    r = ctx.dep.result(q)
    inl = Inliner(r, None, ('rdms',))
    for c in _ctor(f):
        kw = {k.arg: k.value for k in c.keywords}
        d = kw.get('dissimilarities', c.args[0] if c.args else None)
        if d is None:
            continue
        e = inl.inline(d)
        ok = any(isinstance(n, ast.Call) and _leaf(n.func) in ('get_vectors', 'minmax_transform') for n in ast.walk(e))
        obs.check(ok, rule, q, 'the result\'s values derive from the source\'s vector form',
                  f'dissimilarities `{ast.unparse(e)[:80]}` do not derive from rdms.get_vectors()', '', where(prog, f, c))


def _pos(body, pred):
    for i, s in enumerate(body):
        if any(pred(n) for n in ast.walk(s)):
            return i
    return None


def order_sqrt(ctx, obs, rule='ORDER'):
    prog = ctx.prog
    q = T + 'sqrt_transform'
    f = prog.func(q)
    clamp = _pos(f.node.body, lambda n: isinstance(n, ast.Assign) and isinstance(n.targets[0], ast.Subscript)
                 and isinstance(n.targets[0].slice, ast.Compare) and isinstance(n.targets[0].slice.ops[0], ast.Lt)
                 and isinstance(n.value, ast.Constant) and n.value.value == 0) 
    clip = _pos(f.node.body, lambda n: isinstance(n, ast.Call) and _leaf(n.func) in ('maximum', 'clip'))
    sq = _pos(f.node.body, lambda n: isinstance(n, ast.Call) and _leaf(n.func) == 'sqrt')
    first = clamp if clamp is not None else clip
    if sq is None:
        obs.bad(rule, q, 'negatives are clamped to 0 before the square root', 'no np.sqrt call', where(prog, f, f.node))
        return
    obs.check(first is not None and first <= sq, rule, q, 'negatives are clamped to 0 before the square root',
              'np.sqrt is applied before (or without) clamping negative dissimilarities: negative entries become NaN', '',
              where(prog, f, f.node.body[sq]))
    q2 = T + 'positive_transform'
    f2 = prog.func(q2)
    cl = _pos(f2.node.body, lambda n: (isinstance(n, ast.Assign) and isinstance(n.targets[0], ast.Subscript)
                                       and isinstance(n.targets[0].slice, ast.Compare)
                                       and isinstance(n.targets[0].slice.ops[0], ast.Lt)
                                       and isinstance(n.value, ast.Constant) and n.value.value == 0)
              or (isinstance(n, ast.Call) and _leaf(n.func) in ('maximum', 'clip')))
    obs.check(cl is not None, rule, q2, 'negatives are set to 0', 'no clamp of negative entries', '', where(prog, f2, f2.node))


def geotopological_partition(ctx, obs, rule='PART'):
    """below / between / above: every value falls in exactly one of the three masks.  At each threshold t the comparisons used on
    the two sides must be complementary (`< t` with `>= t`, `> t` with `<= t`); `< t` next to `> t` leaves the values EQUAL to the
    threshold in no mask - they keep their raw value instead of 0 / 1 / the rescaled one (quantiles coincide with data values for
    low = 0, up = 1, ties, and whenever (N - 1) q is an integer)."""
    prog = ctx.prog
    q = T + 'geotopological_transform'
    f = prog.func(q)
    thr = {}
    for st in ast.walk(f.node):
        if isinstance(st, ast.Assign) and len(st.targets) == 1 and isinstance(st.targets[0], ast.Name) and isinstance(st.value, ast.Call) \
                and _leaf(st.value.func) in ('quantile', 'nanquantile', 'percentile'):
            thr[st.targets[0].id] = st
    if len(thr) < 2:
        obs.unk(rule, q, 'the masks below / between / above partition the values', f'{len(thr)} quantile thresholds found', where(prog, f, f.node))
        return
    for t in sorted(thr):
        ops = []
        for c in ast.walk(f.node):
            if isinstance(c, ast.Compare) and len(c.ops) == 1 and isinstance(c.comparators[0], ast.Name) and c.comparators[0].id == t:
                ops.append(type(c.ops[0]).__name__)
            elif isinstance(c, ast.Compare) and len(c.ops) == 1 and isinstance(c.left, ast.Name) and c.left.id == t:
                ops.append({'Lt': 'Gt', 'Gt': 'Lt', 'LtE': 'GtE', 'GtE': 'LtE'}.get(type(c.ops[0]).__name__, type(c.ops[0]).__name__))
        con = f'values equal to the threshold `{t}` fall in exactly one mask'
        sset = set(ops)
        if sset in ({'Lt', 'GtE'}, {'Gt', 'LtE'}):
            obs.ok(rule, q, con, f'comparisons {sorted(sset)}', where(prog, f, thr[t]))
        elif sset == {'Lt', 'Gt'}:
            obs.bad(rule, q, con, f'`{t}` is compared with `<` on one side and `>` on the other: entries equal to the threshold are in no mask and '
                    f'keep their raw value (the output leaves [0, 1])', where(prog, f, thr[t]))
        else:
            obs.unk(rule, q, con, f'comparisons with `{t}`: {sorted(ops)}', where(prog, f, thr[t]))


def order_geodesic(ctx, obs, rule='ORDER'):
    prog = ctx.prog
    q = T + 'geodesic_transform'
    f = prog.func(q)
    loops = [n for n in f.node.body if isinstance(n, ast.For)]
    if not loops:
        obs.unk(rule, q, 'per-RDM loop', 'not found')
        return
    lp = loops[0]
    rem = _pos(lp.body, lambda n: isinstance(n, ast.Call) and _leaf(n.func) == 'remove_edges_from')
    sp = _pos(lp.body, lambda n: isinstance(n, ast.Call) and _leaf(n.func).startswith('floyd_warshall'))
    obs.check(rem is not None and sp is not None and rem < sp, rule, q,
              'maximal edges are removed before the shortest-path computation',
              'remove_edges_from does not precede floyd_warshall in the per-RDM loop', '', where(prog, f, lp))
    r = ctx.dep.result(q)
    inl = Inliner(r, None, ('rdms',))
    for n in ast.walk(lp):
        if isinstance(n, ast.Call) and _leaf(n.func) == 'from_numpy_array':
            e = inl.inline(n.args[0])
            obs.check(any(isinstance(x, ast.Call) and _leaf(x.func) == 'minmax_transform' for x in ast.walk(e)), rule, q,
                      'the graph is built from the min-max transformed RDM', f'graph source `{ast.unparse(e)[:70]}`', '',
                      where(prog, f, n))
    # networkx reads a ZERO entry of an adjacency matrix as "no edge".  After min-max scaling the smallest dissimilarity of every
    # RDM is exactly 0, so a graph made with from_numpy_array alone never contains the edge of the closest pair: its geodesic length
    # becomes a detour and paths through it are lost.  The zero-length edges have to be put back (add_weighted_edges_from /
    # add_edge), or the graph has to be built from an explicit edge list.
    for n in ast.walk(lp):
        if isinstance(n, ast.Call) and _leaf(n.func) in ('from_numpy_array', 'from_numpy_matrix', 'from_scipy_sparse_array'):
            con = 'edges of length 0 (the closest pair after min-max scaling) are part of the graph'
            put_back = [c for c in ast.walk(lp) if isinstance(c, ast.Call) and _leaf(c.func) in
                        ('add_weighted_edges_from', 'add_edges_from', 'add_edge')]
            if put_back:
                obs.ok('API', q, con, f'`{norm(put_back[0])[:60]}`', where(prog, f, put_back[0]))
            else:
                obs.bad('API', q, con, f'`{norm(n)[:60]}` builds the graph from the matrix alone: networkx takes a zero entry as a missing edge, '
                        f'and the min-max transform maps the smallest dissimilarity to exactly 0 - the closest pair has no edge, its geodesic '
                        f'distance is the length of a detour instead of 0', where(prog, f, n))
    # the edges removed are those of weight 1 (the maximum after min-max)
    ok = any(isinstance(n, ast.Compare) and isinstance(n.ops[0], ast.Eq) and isinstance(n.comparators[0], ast.Constant)
             and n.comparators[0].value == 1 for n in ast.walk(lp))
    obs.check(ok, rule, q, 'the removed edges are those of weight 1', 'no `== 1` filter on edge weights', '', where(prog, f, lp))


def rank_fwd(ctx, obs, rule='FWD'):
    prog = ctx.prog
    q = T + 'rank_transform'
    f = prog.func(q)
    r = ctx.dep.result(q)
    inl = Inliner(r, None, ('rdms', 'method'))
    calls = [c for c in ast.walk(f.node) if isinstance(c, ast.Call) and _leaf(c.func) == 'rankdata']
    if not calls:
        obs.bad(rule, q, 'ranks come from scipy rankdata', 'no rankdata call', where(prog, f, f.node))
    for c in calls:
        kws = {}
        for k in c.keywords:
            if k.arg is None:
                e = inl.inline(k.value)
                if isinstance(e, ast.Call) and _leaf(e.func) == 'dict':
                    kws.update({kk.arg: kk.value for kk in e.keywords})
                elif isinstance(e, ast.Dict):
                    kws.update({kk.value: v for kk, v in zip(e.keys, e.values) if isinstance(kk, ast.Constant)})
            else:
                kws[k.arg] = inl.inline(k.value)
        m = kws.get('method')
        obs.check(m is not None and any(isinstance(n, ast.Name) and n.id in ('SRC1', 'PARAM_method') for n in ast.walk(m)),
                  rule, q, 'rankdata receives the requested tie method', 'method is not passed to rankdata', '', where(prog, f, c))
        pol = kws.get('nan_policy')
        obs.check(isinstance(pol, ast.Constant) and pol.value == 'omit', rule, q, 'rankdata omits missing entries',
                  f'nan_policy is `{ast.unparse(pol) if pol is not None else None}`: NaN entries would be ranked / propagate',
                  '', where(prog, f, c))


def row_scope(ctx, obs, rule='ROW'):
    prog = ctx.prog
    q = T + 'minmax_transform'
    f = prog.func(q)
    n = 0
    for c in ast.walk(f.node):
        if isinstance(c, ast.Call) and _leaf(c.func) in ('max', 'min', 'nanmax', 'nanmin', 'amax', 'amin'):
            n += 1
            recv = c.func.value if isinstance(c.func, ast.Attribute) else None
            arg = c.args[0] if c.args else None
            tgt = arg if (isinstance(recv, ast.Name) and recv.id in ('np', 'numpy')) else recv
            per_row = isinstance(tgt, ast.Subscript) or any(k.arg == 'axis' and isinstance(k.value, ast.Constant)
                                                            and k.value.value == 1 for k in c.keywords)
            obs.check(per_row, rule, q, 'min / max are taken per RDM',
                      f'`{norm(c)}` is taken over the whole stack: RDMs are not mapped onto [0, 1] individually', '',
                      where(prog, f, c))
    if n == 0:
        obs.unk(rule, q, 'min / max per RDM', 'no min/max call')
    q = T + 'rank_transform'
    f = prog.func(q)
    for c in ast.walk(f.node):
        if isinstance(c, ast.Call) and _leaf(c.func) == 'rankdata':
            per_row = (c.args and isinstance(c.args[0], ast.Subscript)) or any(
                k.arg == 'axis' and isinstance(k.value, ast.Constant) and k.value.value == 1 for k in c.keywords)
            obs.check(bool(per_row), rule, q, 'ranks are computed per RDM',
                      f'`{norm(c)[:70]}` ranks across the whole stack', '', where(prog, f, c))
    # each RDM is ranked among ITS OWN non-missing entries: a missing-entry mask taken from one fixed row must not select the
    # columns of the whole stack
    row_masks = {}
    for n in ast.walk(f.node):
        if isinstance(n, ast.Assign) and isinstance(n.targets[0], ast.Name):
            for c in ast.walk(n.value):
                if isinstance(c, ast.Call) and _leaf(c.func) in ('isnan', 'isfinite') and c.args and isinstance(c.args[0], ast.Subscript) \
                        and isinstance(c.args[0].slice, ast.Constant) and isinstance(c.args[0].slice.value, int):
                    row_masks[n.targets[0].id] = n
    changed = True
    while changed:
        changed = False
        for n in ast.walk(f.node):
            if isinstance(n, ast.Assign) and isinstance(n.targets[0], ast.Name) and n.targets[0].id not in row_masks \
                    and isinstance(n.value, (ast.UnaryOp, ast.Name)) and any(isinstance(x, ast.Name) and x.id in row_masks for x in ast.walk(n.value)):
                row_masks[n.targets[0].id] = n
                changed = True
    bad_use = None
    for n in ast.walk(f.node):
        if isinstance(n, ast.Subscript) and isinstance(n.slice, ast.Tuple) and len(n.slice.elts) >= 2 \
                and isinstance(n.slice.elts[0], ast.Slice) and n.slice.elts[0].lower is None and n.slice.elts[0].upper is None \
                and any(isinstance(x, ast.Name) and x.id in row_masks for x in ast.walk(n.slice.elts[1])):
            bad_use = n
            break
    if bad_use is not None:
        obs.bad('OWNMASK', q, 'each RDM is ranked among its own non-missing entries',
                f'`{norm(bad_use)[:60]}` selects the columns of every RDM with a mask computed from one fixed row '
                f'(`{norm(row_masks[[x.id for x in ast.walk(bad_use.slice.elts[1]) if isinstance(x, ast.Name) and x.id in row_masks][0]])[:60]}`): '
                f'entries present in a later RDM but missing in that row are dropped', where(prog, f, bad_use))
    else:
        obs.ok('OWNMASK', q, 'each RDM is ranked among its own non-missing entries', 'no fixed-row mask applied to the stack',
               where(prog, f, f.node))
    q = T + 'geodesic_transform'
    f = prog.func(q)
    for c in ast.walk(f.node):
        if isinstance(c, ast.Call) and _leaf(c.func) == 'squareform' and c.args:
            a = c.args[0]
            inner = a if isinstance(a, ast.Subscript) else None
            if inner is not None:
                obs.check(isinstance(inner.slice, ast.Name), rule, q, 'the graph of each RDM is built from its own row',
                          f'`{norm(c)}`', '', where(prog, f, c))


def custom(ctx, obs, rule='FWD'):
    prog = ctx.prog
    q = T + 'transform'
    f = prog.func(q)
    r = ctx.dep.result(q)
    inl = Inliner(r, None, ('rdms', 'fun'))
    calls = [c for c in r.calls if c.fn_text == 'fun']
    obs.check(len(calls) == 1, rule, q, 'the given function is applied exactly once', f'{len(calls)} applications', '',
              where(prog, f, f.node))
    for c in calls:
        e = inl.inline(c.node.args[0]) if c.node.args else None
        # value-preserving wrappers around the vector form (a private copy, an array conversion) are peeled
        while isinstance(e, ast.Call) and ((isinstance(e.func, ast.Attribute) and e.func.attr in ('copy', 'astype') and not (
                isinstance(e.func.value, ast.Name) and e.func.value.id in ('np', 'numpy'))) or (_leaf(e.func) in ('array', 'asarray', 'copy', 'deepcopy')
                                                                                                and e.args)):
            e = e.func.value if isinstance(e.func, ast.Attribute) and e.func.attr in ('copy', 'astype') and not (
                isinstance(e.func.value, ast.Name) and e.func.value.id in ('np', 'numpy')) else e.args[0]
        con = 'the function is applied to the vector form of the source'
        if isinstance(e, ast.Call) and _leaf(e.func) == 'get_vectors':
            obs.ok(rule, q, con, '', where(prog, f, c.node))
        elif isinstance(e, ast.Call) and _leaf(e.func) == 'get_matrices':
            obs.bad(rule, q, con, f'fun is applied to `{ast.unparse(e)}`: the matrix form (diagonal and both triangles), not the vector '
                    f'of dissimilarities', where(prog, f, c.node))
        else:
            obs.unk(rule, q, con, f'fun is applied to `{ast.unparse(e)[:60] if e is not None else None}`', where(prog, f, c.node))


def stale_masks(ctx, obs, rule='STALE-MASK'):
    """Piecewise maps written as a sequence of masked in-place updates of one array (`x[x < a] = 0; x[(x >= a) & (x <= b)] = f(x);
    x[x > b] = 1`): a mask that is computed from the array AFTER an update that stored computed (non-constant) values classifies
    the already mapped values again - for the geo-topological transform the middle band is mapped onto [0, 1] and every mapped
    value above the upper threshold (possible whenever that threshold is below 1, e.g. correlation distances) is then set to 1.
    Accepted: masks bound to names before the first write, masks over an untouched copy, updates that only store constants."""
    prog = ctx.prog
    for fn in TRANSFORMS:
        q = T + fn
        f = prog.func(q)
        stores = []
        for s in f.node.body:
            if isinstance(s, ast.Assign) and isinstance(s.targets[0], ast.Subscript) and isinstance(s.targets[0].value, ast.Name):
                stores.append(s)
        by_arr = {}
        for s in stores:
            by_arr.setdefault(s.targets[0].value.id, []).append(s)
        for arr, ss in by_arr.items():
            masked = [s for s in ss if any(isinstance(c, ast.Compare) for c in ast.walk(s.targets[0].slice))
                      or isinstance(s.targets[0].slice, ast.Name)]
            if len(masked) < 2:
                continue
            dirty = None
            bad = None
            first_store = None      # the first store of any kind (constants included)
            pos = {id(st): i for i, st in enumerate(f.node.body)}

            def mask_eval_point(s_):
                """(statement at which the mask of store s_ is computed, does it read arr)"""
                sl = s_.targets[0].slice
                if isinstance(sl, ast.Name):
                    defs = [st for st in f.node.body if isinstance(st, ast.Assign) and isinstance(st.targets[0], ast.Name)
                            and st.targets[0].id == sl.id and pos[id(st)] < pos[id(s_)]]
                    if not defs:
                        return s_, False
                    d_ = defs[-1]
                    return d_, any(isinstance(n, ast.Name) and n.id == arr for n in ast.walk(d_.value))
                return s_, any(isinstance(n, ast.Name) and n.id == arr for n in ast.walk(sl))
            for s in masked:
                at, reads_arr = mask_eval_point(s)
                const_store = isinstance(s.value, ast.Constant) or (isinstance(s.value, ast.Attribute) and s.value.attr in ('nan', 'inf'))
                if dirty is not None and reads_arr and pos[id(at)] > pos[id(dirty)] and bad is None:
                    bad = (s, dirty)
                # a COMPUTED update (the value read back from the array and mapped) whose mask is evaluated after earlier stores of
                # constants: the constants just written may satisfy the mask (thresholds are symbolic) and get mapped as well
                if not const_store and first_store is not None and reads_arr and pos[id(at)] > pos[id(first_store)] and bad is None \
                        and any(isinstance(n, ast.Name) and n.id == arr for n in ast.walk(s.value)):
                    lits = all(isinstance(c_, ast.Constant) for cmp_ in ast.walk(at) if isinstance(cmp_, ast.Compare) for c_ in cmp_.comparators)
                    if not lits:
                        bad = (s, first_store)
                if first_store is None:
                    first_store = s
                if not const_store and dirty is None:
                    dirty = s
            con = f'the regions of the piecewise map on `{arr}` are determined from the original values'
            if bad:
                obs.bad(rule, q, con, f'the mask of `{norm(bad[0])[:70]}` is computed from `{arr}` after `{norm(bad[1])[:60]}` has overwritten '
                        f'part of it: values written there that satisfy the later condition are mapped a second time',
                        where(prog, f, bad[0]))
            else:
                obs.ok(rule, q, con, f'{len(masked)} masked updates', where(prog, f, masked[0]))


def scale_free_guards(ctx, obs, rule='SCALE-FREE'):
    """cosine- and correlation-type measures are unchanged by positive scaling of either RDM, for every scale.  A guard that decides
    from the NORM of a vector whether it takes part (zero vectors get similarity 0) must therefore compare with exactly zero: any
    absolute threshold (machine epsilon, 1e-12 ...) turns genuinely non-zero but small-valued RDMs (data in SI units) into zeros."""
    prog = ctx.prog
    q = 'rdm.compare._cosine'
    f = prog.func(q)
    r = ctx.dep.result(q)
    inl = Inliner(r, None, tuple(f.params))
    n = 0
    for c in ast.walk(f.node):
        if isinstance(c, ast.Compare) and len(c.ops) == 1 and isinstance(c.ops[0], (ast.Gt, ast.GtE, ast.Lt, ast.LtE, ast.NotEq, ast.Eq)):
            left = inl.inline(c.left)
            is_norm = any(isinstance(x, ast.Call) and _leaf(x.func) in ('sqrt', 'norm') for x in ast.walk(left)) or \
                any(isinstance(x, ast.Call) and _leaf(x.func) == 'einsum' for x in ast.walk(left))
            if not is_norm:
                continue
            n += 1
            rhs = inl.inline(c.comparators[0])
            zero = isinstance(rhs, ast.Constant) and rhs.value == 0
            obs.check(zero, rule, q, 'vectors are excluded only if their norm is exactly zero',
                      f'`{norm(c)}` compares the norm with `{ast.unparse(rhs)[:40]}`: an absolute threshold makes the similarity depend on '
                      f'the overall scale of the dissimilarities (tiny but non-zero RDMs get similarity 0)', '', where(prog, f, c))
    if n == 0:
        obs.unk(rule, q, 'zero-norm guard', 'no comparison of a norm found', where(prog, f, f.node))
