"""C08 - Fitted model parameters maximise the training criterion within constraints (structural clauses)."""
from __future__ import annotations
import ast

from ..model import AnalysisError
from ..heap import is_param_loc, param_of
from ..flow import depends_on_param
from ..rules.common import where, norm, Inliner, fwd_same_name, bound_args, calls_to, acc_named, rename
from ..rules.containers import table_agreement

EXPLANATION = (
    'Static necessary-condition analysis of model/fitter.py and model/model.py: (FWD) every fitter (and its optimiser '
    'closure) hands method, sigma_k, pattern_idx, pattern_descriptor and ridge_weight to every callee that has a parameter '
    'of that name (_loss, compare, pool_rdm, get_v) - in particular the pooled regression target is whitened with the '
    'sigma_k the score uses; Model.fit forwards its parameters to the default fitter; (RESTRICT) when pattern indices are '
    'given the prediction reaches the criterion only through subsample_pattern(pattern_descriptor, pattern_idx); (SIB) '
    'per model class predict and predict_rdm are the same function of theta and the stored RDMs (defaults and clamping '
    'included) and predict_rdm carries the model\'s pattern descriptors; (EXH) model_from_dict has an arm for every Model '
    'subclass and to_dict writes what it reads; (SHAPE) positivity by squaring, unit-norm normalisation, interpolation '
    'weights (w, 1-w) on adjacent RDMs, argmin/argmax over the list accumulated in the same loop; (PURE) fitters do not '
    'write model or data. Optimality against all competitors and numeric unit norm are NOT decided.'
    ' Round 6: (LATE-BIND) functions created in a loop do not outlive the iteration whose loop variable they read.')
ASSUMPTIONS = ['np.linalg.solve / scipy minimize semantics are not modelled (value clauses)',
               'a parameter of the same name in caller and callee denotes the same quantity']
FLOOR = 60
RULE_FLOORS = {'FWD': 25, 'SIB': 4, 'EXH': 5}

F = 'model.fitter.'
M = 'model.model.'
FITTERS = ['fit_mock', 'fit_select', 'fit_optimize', 'fit_optimize_positive', 'fit_interpolate', 'fit_regress',
           'fit_regress_nn']
OPTS = ['method', 'sigma_k', 'pattern_idx', 'pattern_descriptor', 'ridge_weight']
MODEL_CLASSES = ['ModelFixed', 'ModelSelect', 'ModelWeighted', 'ModelInterpolate']


def _leaf(fn):
    return fn.attr if isinstance(fn, ast.Attribute) else (fn.id if isinstance(fn, ast.Name) else '')


def run(ctx, obs):
    getv_siblings(ctx, obs)
    from ..rules import sweeps
    sweeps.run(ctx, obs, 'C08')
    prog = ctx.prog
    for fn in FITTERS + ['_loss']:
        fwd_same_name(ctx, obs, F + fn, OPTS)
    closures(ctx, obs)
    model_fit(ctx, obs)
    for fn in ('fit_select', '_loss', 'fit_regress', 'fit_regress_nn'):
        restrict(ctx, obs, F + fn)
    siblings(ctx, obs)
    from ..rules.sibnorm import compare_siblings
    compare_siblings(ctx, obs, F + 'fit_regress', F + 'fit_regress_nn', 'method', ('cosine', 'corr', 'cosine_cov', 'corr_cov'),
                     {'data': 'data', 'model': 'model'}, what='operands (regressors from the model, target from the data)')
    from_dict(ctx, obs)
    shapes(ctx, obs)
    purity(ctx, obs)
    for fn in ('fit_optimize', 'fit_optimize_positive', 'fit_interpolate', 'fit_select'):
        acc_named(ctx, obs, F + fn)


def closures(ctx, obs, rule='FWD'):
    """optimiser closures pass the enclosing fitter's options to _loss under their own names"""
    prog = ctx.prog
    n = 0
    for q, fi in sorted(prog.functions.items()):
        if not (q.startswith(F) and fi.parent):
            continue
        outer = prog.functions[fi.parent]
        for c in ast.walk(fi.node):
            if isinstance(c, ast.Call) and _leaf(c.func) == '_loss':
                n += 1
                kw = {k.arg: k.value for k in c.keywords}
                for p in OPTS:
                    if p not in outer.params:
                        continue
                    ok = p in kw and isinstance(kw[p], ast.Name) and kw[p].id == p
                    obs.check(ok, rule, q, f'{p} of the enclosing fitter is passed to _loss',
                              f'`{norm(c)[:90]}` does not pass `{p}={p}`: the optimiser minimises another criterion than the '
                              f'one requested', '', where(prog, fi, c))
                pos = [norm(a) for a in c.args[1:3]]
                obs.check(pos == ['model', 'data'], rule, q, '_loss receives model and data', f'positional arguments {pos}', '',
                          where(prog, fi, c))
    if n < 3:
        raise AnalysisError(f'C08: only {n} optimiser closures calling _loss found (expected 3)')


def model_fit(ctx, obs, rule='FWD'):
    prog = ctx.prog
    q = M + 'Model.fit'
    f = prog.func(q)
    calls = [c for c in ast.walk(f.node) if isinstance(c, ast.Call) and isinstance(c.func, ast.Attribute)
             and c.func.attr == 'default_fitter']
    if not calls:
        raise AnalysisError('Model.fit: no call to self.default_fitter')
    for c in calls:
        kw = {k.arg: k.value for k in c.keywords}
        for p in f.params[2:]:
            ok = p in kw and isinstance(kw[p], ast.Name) and kw[p].id == p
            obs.check(ok, rule, q, f'Model.fit passes {p} to the default fitter', f'`{norm(c)[:90]}` drops `{p}`', '',
                      where(prog, f, c))
        pos = [norm(a) for a in c.args[:2]]
        obs.check(pos == [f.params[0], f.params[1]], rule, q, 'the default fitter receives (model, data)', f'{pos}', '',
                  where(prog, f, c))


def restrict(ctx, obs, q, rule='RESTRICT'):
    prog = ctx.prog
    f = prog.func(q)
    subs = [c for c in ast.walk(f.node) if isinstance(c, ast.Call) and _leaf(c.func) == 'subsample_pattern']
    if not subs:
        obs.bad(rule, q, 'the prediction is restricted by subsample_pattern(pattern_descriptor, pattern_idx)',
                'no subsample_pattern call: all conditions enter the fit regardless of pattern_idx', where(prog, f, f.node))
        return
    for c in subs:
        args = [norm(a) for a in c.args] + [f'{k.arg}={norm(k.value)}' for k in c.keywords]
        ok = args[:2] == ['pattern_descriptor', 'pattern_idx'] or set(args) == {'by=pattern_descriptor', 'value=pattern_idx'}
        obs.check(ok, rule, q, 'subsample_pattern receives (pattern_descriptor, pattern_idx)',
                  f'`{norm(c)}`: arguments {args}', '', where(prog, f, c))
        # the call runs exactly when both are given: the condition under which it executes (conjunction of the enclosing `if`
        # tests, negated for else-arms) is evaluated for the four is-None assignments
        path = []          # [(test, polarity)]

        def find(stmts, acc):
            for st in stmts:
                if any(x is c for x in ast.walk(st)):
                    if isinstance(st, ast.If):
                        if any(x is c for b_ in st.body for x in ast.walk(b_)):
                            return find(st.body, acc + [(st.test, True)])
                        if any(x is c for b_ in st.orelse for x in ast.walk(b_)):
                            return find(st.orelse, acc + [(st.test, False)])
                        return acc
                    for fld in ('body', 'orelse', 'finalbody'):
                        blk = getattr(st, fld, None)
                        if isinstance(blk, list) and any(x is c for b_ in blk for x in ast.walk(b_)):
                            return find(blk, acc)
                    return acc
            return acc
        path = find(f.node.body, [])
        PARS = ('pattern_idx', 'pattern_descriptor')

        def ev(e, env):
            """three-valued: True / False / None (unknown)"""
            if isinstance(e, ast.BoolOp):
                vals = [ev(v, env) for v in e.values]
                if isinstance(e.op, ast.And):
                    return False if False in vals else (None if None in vals else True)
                return True if True in vals else (None if None in vals else False)
            if isinstance(e, ast.UnaryOp) and isinstance(e.op, ast.Not):
                v = ev(e.operand, env)
                return None if v is None else not v
            if isinstance(e, ast.Compare) and len(e.ops) == 1 and isinstance(e.left, ast.Name) and e.left.id in PARS \
                    and isinstance(e.comparators[0], ast.Constant) and e.comparators[0].value is None:
                is_none = env[e.left.id]
                if isinstance(e.ops[0], (ast.Is, ast.Eq)):
                    return is_none
                if isinstance(e.ops[0], (ast.IsNot, ast.NotEq)):
                    return not is_none
            if isinstance(e, ast.Name) and e.id in PARS:
                return None if not env[e.id] else False      # truthiness of a given value is unknown, None is falsy
            return None
        con = 'the restriction applies whenever pattern_idx and pattern_descriptor are given'
        verdicts = []
        for a_none in (False, True):
            for b_none in (False, True):
                env = {'pattern_idx': a_none, 'pattern_descriptor': b_none}
                vals = [(ev(t, env) if pol else (None if ev(t, env) is None else not ev(t, env))) for t, pol in path]
                runs = False if False in vals else (None if None in vals else True)
                verdicts.append(((a_none, b_none), runs))
        want = {(False, False): True, (False, True): False, (True, False): False, (True, True): False}
        wrong = [(k, v) for k, v in verdicts if v is not None and v != want[k]]
        if wrong:
            k, v = wrong[0]
            obs.bad(rule, q, con, f'with pattern_idx {"None" if k[0] else "given"} and pattern_descriptor {"None" if k[1] else "given"} the '
                    f'restriction {"runs" if v else "is skipped"}', where(prog, f, c))
        elif all(v is not None for _, v in verdicts):
            obs.ok(rule, q, con, '', where(prog, f, c))
        else:
            obs.unk(rule, q, con, 'guard of the restriction not fully evaluated', where(prog, f, c))
    # the restricted prediction is what reaches the criterion
    r = ctx.dep.result(q)
    inl = Inliner(r, None, ())
    sinks = [c for c in r.calls if any(x.endswith('rdm.compare.compare') for x in c.callees)]
    for c in sinks:
        e = inl.inline(c.node.args[0])
        ok = any(isinstance(n, ast.Call) and _leaf(n.func) == 'subsample_pattern' for n in ast.walk(e))
        obs.check(ok, rule, q, 'the compared prediction is the restricted one',
                  f'first operand of `{norm(c.node)[:70]}` never passes through subsample_pattern', '', where(prog, f, c.node))
    if q.endswith(('fit_regress', 'fit_regress_nn')):
        for n in ast.walk(f.node):
            if isinstance(n, ast.Assign) and isinstance(n.targets[0], ast.Name) and n.targets[0].id == 'vectors' \
                    and isinstance(n.value, ast.Call) and _leaf(n.value.func) == 'get_vectors':
                e = inl.inline(n.value)
                ok = any(isinstance(x, ast.Call) and _leaf(x.func) == 'subsample_pattern' for x in ast.walk(e))
                obs.check(ok, rule, q, 'the regressors are the restricted model RDMs',
                          f'`{norm(n)}`: regressors `{ast.unparse(e)[:80]}` never pass through subsample_pattern', '',
                          where(prog, f, n))


def _pred_expr(ctx, q, kind):
    """normalised expression of the prediction as a function of theta and self"""
    prog = ctx.prog
    f = prog.func(q)
    r = ctx.dep.result(q)
    inl = Inliner(r, None, ())
    out = []
    for node, _, _ in r.returns:
        if node is None or node.value is None:
            continue
        v = node.value
        if kind == 'rdm':
            e = inl.inline(v)
            # RDMs(<diss>.reshape(1, -1), ...) -> <diss>
            if isinstance(e, ast.Call) and _leaf(e.func) == 'RDMs' and e.args:
                d = e.args[0]
                while isinstance(d, ast.Call) and _leaf(d.func) in ('reshape', 'array', 'atleast_2d'):
                    d = d.func.value if isinstance(d.func, ast.Attribute) and _leaf(d.func) == 'reshape' else d.args[0]
                out.append((ast.dump(d), e))
            else:
                out.append((ast.dump(e), e))
        else:
            e = inl.inline(v)
            out.append((ast.dump(e), e))
    return out


def siblings(ctx, obs, rule='SIB'):
    prog = ctx.prog
    for cls in MODEL_CLASSES:
        qp, qr = M + cls + '.predict', M + cls + '.predict_rdm'
        fp, fr = prog.func(qp), prog.func(qr)
        # same default for theta
        dp, dr = fp.default_of('theta'), fr.default_of('theta')
        obs.check(ast.dump(dp) == ast.dump(dr) if dp is not None and dr is not None else dp is dr, rule, qr,
                  'predict and predict_rdm have the same default theta', f'defaults {norm(dp) if dp else None} / '
                  f'{norm(dr) if dr else None}', '', where(prog, fr, fr.node))
        ep, er = _pred_expr(ctx, qp, 'vec'), _pred_expr(ctx, qr, 'rdm')
        if cls in ('ModelWeighted', 'ModelInterpolate'):
            same = bool(ep) and bool(er) and ep[0][0] == er[0][0]
            obs.check(same, rule, qr, 'predict_rdm computes the same function of theta and the stored RDMs as predict',
                      f'predict returns `{ast.unparse(ep[0][1])[:110] if ep else None}` but predict_rdm builds its RDM from '
                      f'`{ast.unparse(er[0][1].args[0])[:110] if er and isinstance(er[0][1], ast.Call) and er[0][1].args else None}`:'
                      f' vector and RDM-object predictions disagree for some parameters', '', where(prog, fr, fr.node))
            # carries the model's pattern descriptors
            ctor = [c for c in ast.walk(fr.node) if isinstance(c, ast.Call) and _leaf(c.func) == 'RDMs']
            for c in ctor:
                kw = {k.arg: k.value for k in c.keywords}
                pd = kw.get('pattern_descriptors')
                ok = pd is not None and any(isinstance(n, ast.Attribute) and n.attr == 'pattern_descriptors' for n in ast.walk(pd)) \
                    and any(isinstance(n, ast.Attribute) and n.attr == 'rdm_obj' for n in ast.walk(pd))
                obs.check(ok, rule, qr, 'the predicted RDM carries the model\'s pattern descriptors',
                          f'`{norm(c)[:80]}` does not pass the pattern descriptors of self.rdm_obj', '', where(prog, fr, c))
        elif cls == 'ModelSelect':
            vp = ep and isinstance(ep[0][1], ast.Subscript)
            vr = er and isinstance(er[0][1], ast.Subscript)
            same_idx = vp and vr and ast.dump(ep[0][1].slice) == ast.dump(er[0][1].slice)
            obs.check(bool(same_idx), rule, qr, 'predict and predict_rdm select the same candidate (index theta)',
                      'the two predictions index the candidates differently', '', where(prog, fr, fr.node))
        elif cls == 'ModelFixed':
            obs.check(bool(ep) and bool(er), rule, qr, 'both predictions return the stored RDM', 'missing return', '',
                      where(prog, fr, fr.node))
    # constructors: rdm (vector form) and rdm_obj describe the same RDMs
    for cls in MODEL_CLASSES[1:]:
        q = M + cls + '.__init__'
        f = prog.func(q)
        for n in ast.walk(f.node):
            if isinstance(n, ast.If) and any(isinstance(x, ast.Call) and _leaf(x.func) == 'isinstance' for x in ast.walk(n.test)):
                body = ast.Module(body=n.body, type_ignores=[])
                a = {t.attr: s.value for s in ast.walk(body) if isinstance(s, ast.Assign) for t in s.targets
                     if isinstance(t, ast.Attribute)}
                if 'rdm_obj' in a and 'rdm' in a:
                    ok = isinstance(a['rdm_obj'], ast.Name) and isinstance(a['rdm'], ast.Call) and _leaf(a['rdm'].func) == 'get_vectors' \
                        and isinstance(a['rdm'].func.value, ast.Name) and a['rdm'].func.value.id == a['rdm_obj'].id
                    obs.check(ok, rule, q, 'for an RDMs argument the vector form is that of the stored object',
                              f'self.rdm_obj = {norm(a["rdm_obj"])} but self.rdm = {norm(a["rdm"])}', '', where(prog, f, n))
                break


def from_dict(ctx, obs, rule='EXH'):
    prog = ctx.prog
    q = M + 'model_from_dict'
    f = prog.func(q)
    base = M + 'Model'
    subs = [base] + prog.subclasses(base)
    arms = {}
    for n in ast.walk(f.node):
        if isinstance(n, ast.If) and isinstance(n.test, ast.Compare) and isinstance(n.test.comparators[0], ast.Constant) \
                and isinstance(n.test.ops[0], ast.Eq):
            arms[n.test.comparators[0].value] = n
    for cq in subs:
        name = prog.classes[cq].name
        if name not in arms:
            obs.bad(rule, q, f'model_from_dict rebuilds class {name}', f'no arm for type {name!r}: a saved {name} cannot be '
                    f'loaded (model stays undefined)', where(prog, f, f.node))
            continue
        arm = arms[name]
        built = [_leaf(c.func) for c in ast.walk(ast.Module(body=arm.body, type_ignores=[])) if isinstance(c, ast.Call)]
        obs.check(name in built, rule, q, f'model_from_dict rebuilds class {name}', f'the arm for {name!r} constructs {built}',
                  '', where(prog, f, arm))
    table_agreement(ctx, obs, M + 'Model.to_dict', q, rule='TAB')
    # type is written from the runtime class
    ft = prog.func(M + 'Model.to_dict')
    ok = any(isinstance(n, ast.Attribute) and n.attr == '__name__' for n in ast.walk(ft.node))
    obs.check(ok, rule, M + 'Model.to_dict', 'the stored type is the runtime class name', 'type is not type(self).__name__', '',
              where(prog, ft, ft.node))


def shapes(ctx, obs, rule='SHAPE'):
    prog = ctx.prog
    # positivity by squaring: closure passes theta ** 2 and the result is squared
    q = F + 'fit_optimize_positive'
    f = prog.func(q)
    r = ctx.dep.result(q)
    inl = Inliner(r, None, ())
    sq_in = any(isinstance(c, ast.Call) and _leaf(c.func) == '_loss' and c.args and isinstance(c.args[0], ast.BinOp)
                and isinstance(c.args[0].op, ast.Pow) for c in ast.walk(f.node))
    obs.check(sq_in, rule, q, 'the loss is evaluated at the squared optimiser variable', '_loss is not called with theta ** 2',
              '', where(prog, f, f.node))
    rets = [n for n, _, _ in r.returns if n is not None and n.value is not None]
    sq_out = all(any(isinstance(x, ast.BinOp) and isinstance(x.op, ast.Pow) and isinstance(x.right, ast.Constant)
                     and x.right.value == 2 and any(isinstance(y, ast.Subscript) for y in ast.walk(x.left))
                     for x in ast.walk(inl.inline(n.value))) for n in rets)
    obs.check(sq_out and bool(rets), rule, q, 'the returned parameters are the squares of the optimiser variable',
              'a return path hands back the unsquared optimiser variable: weights can be negative', '', where(prog, f, f.node))
    # normalisation exits
    for fn in ('fit_optimize', 'fit_optimize_positive', 'fit_regress', 'fit_regress_nn'):
        qq = F + fn
        ff = prog.func(qq)
        rr = ctx.dep.result(qq)
        ii = Inliner(rr, None, ())
        rets_ = [n for n, _, _ in rr.returns if n is not None and n.value is not None]
        last = rets_[-1]

        def _alts(x):
            if isinstance(x, ast.Call) and isinstance(x.func, ast.Name) and x.func.id == 'PHI':
                return [z for a_ in x.args for z in _alts(a_)]
            return [x]
        alts = [a_ for n_ in rets_ for a_ in _alts(ii.inline(n_.value))]
        divs = [a_ for a_ in alts if isinstance(a_, ast.BinOp) and isinstance(a_.op, ast.Div)]
        good = [a_ for a_ in divs if any(isinstance(x, ast.Call) and _leaf(x.func) in ('sqrt', 'norm') for x in ast.walk(a_.right))
                and (any(isinstance(x, ast.BinOp) and isinstance(x.op, ast.Pow) for x in ast.walk(a_.right))
                     or any(isinstance(x, ast.Call) and _leaf(x.func) in ('norm', 'dot', 'einsum', 'inner') for x in ast.walk(a_.right)))]
        con = 'the normalised exit divides by sqrt(sum(theta ** 2))'
        if good:
            obs.ok(rule, qq, con, '', where(prog, ff, last))
        elif divs:
            obs.bad(rule, qq, con, f'the normalising exit returns `{ast.unparse(divs[0])[:90]}`, which is not theta / sqrt(sum(theta**2)): '
                    f'normalised fits do not have unit norm', where(prog, ff, last))
        else:
            obs.unk(rule, qq, con, 'no return alternative of the form theta / <norm> recognised', where(prog, ff, last))
        guards = [n for n in ast.walk(ff.node) if isinstance(n, (ast.If, ast.IfExp)) and any(isinstance(x, ast.Name) and x.id == 'normalize'
                                                                                           for x in ast.walk(n.test))]
        obs.soft(bool(guards), rule, qq, 'normalisation is controlled by the normalize flag', 'no test of `normalize`', '',
                 where(prog, ff, ff.node))
    # interpolation: (w, 1 - w) on adjacent indices, inside the closure and in the result
    q = F + 'fit_interpolate'
    f = prog.func(q)
    stores = [n for n in ast.walk(f.node) if isinstance(n, ast.Assign) and isinstance(n.targets[0], ast.Subscript)
              and isinstance(n.targets[0].value, ast.Name) and isinstance(n.targets[0].slice, (ast.Name, ast.BinOp))]
    pairs = []
    nested = [n for n in ast.walk(f.node) if isinstance(n, ast.FunctionDef) and n is not f.node]

    def scope(st):
        for fn in nested:
            if any(x is st for x in ast.walk(fn)):
                return id(fn)
        return 0
    for a in stores:
        for b in stores:
            if scope(a) != scope(b) or a.targets[0].value.id != b.targets[0].value.id:
                continue
            ia, ib = a.targets[0].slice, b.targets[0].slice
            if isinstance(ib, ast.BinOp) and isinstance(ib.op, ast.Add) and ast.dump(ib.left) == ast.dump(ia) \
                    and isinstance(ib.right, ast.Constant) and ib.right.value == 1:
                comp = isinstance(b.value, ast.BinOp) and isinstance(b.value.op, ast.Sub) and isinstance(b.value.left, ast.Constant) \
                    and b.value.left.value == 1 and ast.dump(b.value.right) == ast.dump(a.value)
                pairs.append(comp)
    obs.check(len(pairs) >= 2 and all(pairs), rule, q, 'interpolation weights are (w, 1 - w) on adjacent RDMs',
              f'{len(pairs)} adjacent-index store pairs, complementary: {pairs}', '', where(prog, f, f.node))
    b = [c for c in ast.walk(f.node) if isinstance(c, ast.Call) and _leaf(c.func) == 'minimize_scalar']
    for c in b:
        kw = {k.arg: k.value for k in c.keywords}
        bd = kw.get('bounds')
        ok = isinstance(bd, ast.Tuple) and [getattr(x, 'value', None) for x in bd.elts] == [0, 1]
        obs.check(ok, rule, q, 'the mixture weight is searched in [0, 1]', f'bounds {norm(bd) if bd is not None else None}', '',
                  where(prog, f, c))
    # selection: argmax over the accumulated similarities, argmin over the accumulated losses
    for fn, want in (('fit_select', 'argmax'), ('fit_optimize', 'argmin'), ('fit_optimize_positive', 'argmin'),
                     ('fit_interpolate', 'argmin')):
        qq = F + fn
        ff = prog.func(qq)
        cs = [c for c in ast.walk(ff.node) if isinstance(c, ast.Call) and _leaf(c.func) in ('argmax', 'argmin')]
        if not cs:
            obs.bad(rule, qq, f'the best candidate is selected by {want}', 'no argmax / argmin call', where(prog, ff, ff.node))
            continue
        for c in cs:
            arg = c.args[0] if c.args else None
            kind = _accumulator_kind(ff, arg)
            if kind is None:
                obs.unk(rule, qq, f'the best candidate is selected by {want} over the accumulated scores',
                        f'`{norm(c)}`: accumulator not recognised')
                continue
            expect = 'argmax' if kind == 'similarity' else 'argmin'
            obs.check(_leaf(c.func) == expect and expect == want, rule, qq,
                      f'the best candidate is selected by {want} over the accumulated {kind} values',
                      f'`{norm(c)}` takes {_leaf(c.func)} over {kind} values: the worst candidate is selected', '', where(prog, ff, c))
    # sign of the loss: negative mean similarity
    q = F + '_loss'
    f = prog.func(q)
    r = ctx.dep.result(q)
    rets = [n for n, _, _ in r.returns if n is not None and n.value is not None]
    for n in rets:
        e = n.value
        neg = any(isinstance(x, ast.UnaryOp) and isinstance(x.op, ast.USub) and any(
            isinstance(y, ast.Call) and _leaf(y.func) == 'compare' for y in ast.walk(x.operand)) for x in ast.walk(e))
        obs.check(neg, rule, q, 'the loss is the negative mean similarity (plus ridge term)',
                  f'`{norm(e)[:90]}` is not -mean(compare(...)): minimising it does not maximise the similarity', '',
                  where(prog, f, n))


def _accumulator_kind(ff, arg):
    """what the list / array `arg` accumulates: 'similarity' (mean of compare) or 'loss' (optimiser .fun / _loss value)"""
    if not isinstance(arg, ast.Name):
        return None
    vals = []
    for n in ast.walk(ff.node):
        if isinstance(n, ast.Call) and isinstance(n.func, ast.Attribute) and n.func.attr == 'append' \
                and isinstance(n.func.value, ast.Name) and n.func.value.id == arg.id and n.args:
            vals.append(n.args[0])
        if isinstance(n, ast.Assign) and isinstance(n.targets[0], ast.Subscript) and isinstance(n.targets[0].value, ast.Name) \
                and n.targets[0].value.id == arg.id:
            vals.append(n.value)
        if isinstance(n, ast.Assign) and isinstance(n.targets[0], ast.Name) and n.targets[0].id == arg.id \
                and isinstance(n.value, (ast.List, ast.ListComp)):
            vals += list(n.value.elts) if isinstance(n.value, ast.List) else [n.value.elt]
    kinds = set()
    for v in vals:
        t = ast.unparse(v)
        if 'compare(' in t:
            kinds.add('similarity')
        elif '.fun' in t or '_loss' in t or 'loss' in t:
            kinds.add('loss')
    return kinds.pop() if len(kinds) == 1 else None


def purity(ctx, obs, rule='PURE'):
    prog, heap = ctx.prog, ctx.heap
    for fn in FITTERS:
        q = F + fn
        f = prog.func(q)
        s = heap.summary(q)
        for p in ('model', 'data'):
            w = sorted(l for (l, k, key) in s.writes if is_param_loc(l) and param_of(l) == p and key != 'index')
            obs.check(not w, rule, q, f'the fitter does not write into `{p}`', f'writes {w}', '', where(prog, f, f.node))


def getv_siblings(ctx, obs, rule='SIB'):
    """rdm.compare._get_v and util.matrix.get_v are two implementations of one function (RDM covariance V from the pattern
    covariance); the fitters and pooling use the second, compare() the first.  Cross-check: both distinguish the same forms of
    sigma_k (None / variance vector / matrix) - a form one of them handles and the other does not makes `fit` and `compare`
    disagree on which inputs are legal (csr_matrix of a 1-D array is a 1 x n matrix: dimension error in C @ Sigma @ C')."""
    prog = ctx.prog
    qa, qb = 'rdm.compare._get_v', 'util.matrix.get_v'
    fa, fb = prog.func(qa), prog.func(qb)

    def forms(f):
        p = f.pos_params[1] if len(f.pos_params) > 1 else 'sigma_k'
        out = set()
        for n in ast.walk(f.node):
            if isinstance(n, ast.Compare) and len(n.ops) == 1:
                l, r = n.left, n.comparators[0]
                if isinstance(l, ast.Name) and l.id == p and isinstance(n.ops[0], (ast.Is, ast.IsNot)) and isinstance(r, ast.Constant) and r.value is None:
                    out.add('none')
                if isinstance(l, ast.Attribute) and l.attr == 'ndim' and isinstance(l.value, ast.Name) and l.value.id == p \
                        and isinstance(r, ast.Constant):
                    out.add(f'ndim{r.value}')
                if isinstance(l, ast.Call) and getattr(l.func, 'attr', getattr(l.func, 'id', '')) == 'ndim' and l.args \
                        and isinstance(l.args[0], ast.Name) and l.args[0].id == p and isinstance(r, ast.Constant):
                    out.add(f'ndim{r.value}')
            if isinstance(n, ast.Call) and getattr(n.func, 'attr', getattr(n.func, 'id', '')) in ('diags', 'diag') \
                    and any(isinstance(x, ast.Name) and x.id == p for a in n.args for x in ast.walk(a)):
                out.add('ndim1')
        return out
    a, b = forms(fa), forms(fb)
    only_a, only_b = sorted(a - b), sorted(b - a)
    obs.check(not only_a and not only_b, rule, qb, 'both implementations of get_v distinguish the same forms of sigma_k',
              f'{qa} handles {sorted(a)}, {qb} handles {sorted(b)}: a variance vector accepted by compare() is not handled by the '
              f'fitters / pooling (forms only in one: {only_a + only_b})', '', where(prog, fb, fb.node))
