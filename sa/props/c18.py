"""C18 - Simulated data reproduce the generating model's RDM (structural clauses)."""
from __future__ import annotations
import ast

from ..model import AnalysisError
from ..flow import depends_on_param, params_of
from ..rules.common import where, norm, acc_named, bound_args, Inliner, calls_to
from ..heap import is_param_loc

EXPLANATION = (
    'Static necessary-condition analysis of simulation/sim.py: (ND) every simulated dataset\'s descriptors depend on signal, '
    'noise, the model name and theta, its observation descriptors on the condition vector, and its measurements on the '
    'model prediction, the design, the signal draw, signal, noise and every given covariance (sound refutation: a missing '
    'dependence path is a definite violation); (SAME) make_signal is called once before the loop under use_same_signal and '
    'once per simulation otherwise, and every iteration appends one dataset; (ADD) data = design @ signal * sqrt(signal) + '
    'noise term, the noise term carrying sqrt(noise) exactly once; (DESIGN) condition and partition vectors are Kronecker '
    'products of arange with ones of the other length; (FRESH) simulated datasets own their descriptor dicts; (RNG) only '
    're-seedable np.random module functions. The Euclidean-RDM identity (LDL / whitening algebra) is NOT decided.'
    ' Also: (TRI) a matrix handed to solve_triangular is triangular by construction (not an ldl outer factor, not eigenvectors).')
ASSUMPTIONS = ['dependence is over-approximated: only absent paths raise violations']
FLOOR = 25
RULE_FLOORS = {'ND': 12}

S = 'simulation.sim.'


def _leaf(fn):
    return fn.attr if isinstance(fn, ast.Attribute) else (fn.id if isinstance(fn, ast.Name) else '')


def run(ctx, obs):
    truncation_boundary(ctx, obs)
    from ..rules import order as _order
    _order.contracts(ctx, obs, ['util.matrix.indicator'])
    _order.report(ctx, obs, ['simulation.', 'util.matrix.'])
    from ..rules import sweeps
    sweeps.run(ctx, obs, 'C18')
    nd(ctx, obs)
    same_signal(ctx, obs)
    additive(ctx, obs)
    design(ctx, obs)
    fresh(ctx, obs)
    rng(ctx, obs)
    second_moment(ctx, obs)


def nd(ctx, obs, rule='ND'):
    prog = ctx.prog
    q = S + 'make_dataset'
    f = prog.func(q)
    r = ctx.dep.result(q)
    cs = [c for c in r.calls if any(x.endswith('DatasetBase.__init__') for x in c.callees)]
    if not cs:
        raise AnalysisError('make_dataset: no Dataset(...) construction')
    for c in cs:
        b = bound_args(prog, c.callees[0], c)
        need = {
            'descriptors': ['signal', 'noise', 'model', 'theta'],
            'obs_descriptors': ['cond_vec'],
            'measurements': ['model', 'theta', 'cond_vec', 'n_channel', 'signal', 'noise', 'signal_cov_channel',
                             'noise_cov_channel', 'noise_cov_trial', 'use_exact_signal', 'use_same_signal'],
        }
        for arg, ps in need.items():
            if arg not in b:
                obs.bad(rule, q, f'the dataset receives {arg}', f'`{norm(c.node)[:80]}` passes no {arg}', where(prog, f, c.node))
                continue
            src = b[arg][1]
            for p in ps:
                obs.check(depends_on_param(src, p), rule, q, f'{arg} of each simulated dataset depends on {p}',
                          f'no dependence path from parameter `{p}` to the `{arg}` of the simulated dataset: `{p}` is ignored',
                          '', where(prog, f, c.node))
        obs.check('RNG:numpy-global' in b.get('measurements', (None, frozenset()))[1], rule, q,
                  'measurements depend on the random draws', 'no random source reaches the data', '', where(prog, f, c.node))
    # make_signal: result depends on G, n_channel, make_exact, chol_channel
    q2 = S + 'make_signal'
    f2 = prog.func(q2)
    r2 = ctx.dep.result(q2)
    for p in f2.params:
        obs.check(depends_on_param(r2.ret, p), rule, q2, f'the signal depends on {p}', f'`{p}` never reaches the returned signal', '',
                  where(prog, f2, f2.node))
    # the random patterns are centred per condition (across channels) before they are orthonormalised: centred across conditions
    # the rows are linearly dependent and the exact second moment cannot be imposed
    from ..rules.peritem import per_item_statistics
    from ..rules.axis import Contract
    n = per_item_statistics(ctx, obs, q2, {q2: Contract({'G': ('C', 'C')})}, 'C', None, what='condition pattern')
    if n == 0:
        obs.unk('NORM', q2, 'the random patterns are centred per condition', 'no centring statistic recognised', where(prog, f2, f2.node))


def same_signal(ctx, obs, rule='SAME'):
    prog = ctx.prog
    q = S + 'make_dataset'
    f = prog.func(q)
    calls = [c for c in ast.walk(f.node) if isinstance(c, ast.Call) and _leaf(c.func) == 'make_signal']
    loops = [n for n in f.node.body if isinstance(n, ast.For)]
    if not loops:
        raise AnalysisError('make_dataset: simulation loop not found')
    lp = loops[-1]
    inside = [c for c in calls if any(x is c for x in ast.walk(lp))]
    outside = [c for c in calls if c not in inside]
    obs.check(len(inside) == 1 and len(outside) == 1, rule, q, 'the signal is generated once before the loop and once inside it',
              f'{len(outside)} calls before / {len(inside)} inside the loop', '', where(prog, f, lp))

    def guard_of(c):
        gs = [g for g in ast.walk(f.node) if isinstance(g, ast.If) and any(x is c for s in g.body for x in ast.walk(s))]
        return gs[-1] if gs else None
    for c in outside:
        g = guard_of(c)
        ok = g is not None and isinstance(g.test, ast.Name) and g.test.id == 'use_same_signal'
        obs.check(ok, rule, q, 'the shared signal is drawn (once) only under use_same_signal',
                  f'pre-loop make_signal is guarded by `{norm(g.test) if g is not None else None}`', '', where(prog, f, c))
    for c in inside:
        g = guard_of(c)
        ok = g is not None and isinstance(g.test, ast.UnaryOp) and isinstance(g.test.op, ast.Not) \
            and isinstance(g.test.operand, ast.Name) and g.test.operand.id == 'use_same_signal'
        obs.check(ok, rule, q, 'a fresh signal is drawn per simulation unless use_same_signal',
                  f'in-loop make_signal is guarded by `{norm(g.test) if g is not None else None}`', '', where(prog, f, c))
    # the signal read inside the loop is always a make_signal result: no in-place edit / rebinding of the (possibly shared) signal
    r = ctx.dep.result(q)
    sig_vars = {d.var for d in r.defs.values() if d.kind == 'assign' and isinstance(d.rhs, ast.Call) and _leaf(d.rhs.func) == 'make_signal'}
    nloads = 0
    for n in ast.walk(lp):
        if isinstance(n, ast.Name) and isinstance(n.ctx, ast.Load) and n.id in sig_vars:
            nloads += 1
            bad_defs = [r.defs[i] for i in r.load_defs.get(id(n), ()) if not (r.defs[i].kind == 'assign' and isinstance(r.defs[i].rhs, ast.Call)
                                                                             and _leaf(r.defs[i].rhs.func) == 'make_signal')]
            obs.check(not bad_defs, rule, q, f'the signal `{n.id}` read in the loop is an unmodified make_signal result',
                      (f'line {bad_defs[0].node.lineno}: `{norm(bad_defs[0].node)[:80]}` changes the signal between simulations: with '
                       f'use_same_signal the change accumulates over iterations') if bad_defs else '', '', where(prog, f, n))
    for n in ast.walk(lp):
        tgt = None
        if isinstance(n, ast.Assign) and isinstance(n.targets[0], ast.Subscript):
            tgt = n.targets[0]
        elif isinstance(n, ast.AugAssign) and isinstance(n.target, ast.Subscript):
            tgt = n.target
        if tgt is not None:
            root = tgt
            while isinstance(root, (ast.Subscript, ast.Attribute)):
                root = root.value
            if isinstance(root, ast.Name) and root.id in sig_vars:
                obs.bad(rule, q, f'the signal `{root.id}` read in the loop is an unmodified make_signal result',
                        f'`{norm(n)[:80]}` writes into the signal inside the simulation loop', where(prog, f, n))
    # an in-place update (`x += e`, `x[...] = e`) inside the loop of an object that was created BEFORE the loop - directly or through
    # a plain alias `x = y` - accumulates over simulations and makes all returned datasets share one buffer
    loop_nodes = {id(x) for x in ast.walk(lp)}
    outer_defs = {i for i, d in r.defs.items() if id(d.node) not in loop_nodes and d.kind in ('assign', 'aug')}

    def reaches_outer(def_ids, depth=0):
        for i in def_ids:
            d = r.defs[i]
            if i in outer_defs:
                return d
            if depth < 4 and d.kind == 'assign' and isinstance(d.rhs, ast.Name):
                hit = reaches_outer(r.load_defs.get(id(d.rhs), ()), depth + 1)
                if hit is not None:
                    return hit
        return None
    for i, d in r.defs.items():
        if d.kind == 'aug' and id(d.node) in loop_nodes and isinstance(d.node, ast.AugAssign) and isinstance(d.node.target, ast.Name):
            src = reaches_outer(r.aug_prev.get(i, ()))
            con = f'`{norm(d.node)[:40]}` does not update an object created before the simulation loop'
            if src is not None:
                obs.bad(rule, q, con, f'`{d.var}` is (an alias of) `{norm(src.node)[:60]}` from before the loop: the in-place update '
                        f'accumulates over simulations, and every dataset built from it shares the same array', where(prog, f, d.node))
            else:
                obs.ok(rule, q, con, '', where(prog, f, d.node))
    if not sig_vars or not nloads:
        raise AnalysisError('make_dataset: the variable holding the make_signal result is not read in the loop')
    args = {tuple(norm(a) for a in c.args) for c in calls}
    obs.check(len(args) == 1, rule, q, 'both signal draws use the same arguments', f'{args}', '', where(prog, f, f.node))
    acc_named(ctx, obs, q)
    app = [c for c in ast.walk(lp) if isinstance(c, ast.Call) and _leaf(c.func) == 'append']
    obs.check(len(app) == 1, rule, q, 'each simulation appends one dataset', f'{len(app)} appends in the loop', '', where(prog, f, lp))
    rng = lp.iter
    obs.check(isinstance(rng, ast.Call) and _leaf(rng.func) == 'range' and 'n_sim' in norm(rng), rule, q,
              'the loop runs n_sim times', f'`{norm(rng)}`', '', where(prog, f, lp))


def _count_paths(e, pred):
    """(min, max) number of sub-expressions satisfying pred along any PHI-free alternative of e"""
    if isinstance(e, ast.Call) and isinstance(e.func, ast.Name) and e.func.id == 'PHI':
        rs = [_count_paths(a, pred) for a in e.args]
        return min(r[0] for r in rs), max(r[1] for r in rs)
    lo = hi = 1 if pred(e) else 0
    for ch in ast.iter_child_nodes(e):
        if isinstance(ch, ast.expr) or isinstance(ch, ast.keyword):
            a, b = _count_paths(ch.value if isinstance(ch, ast.keyword) else ch, pred)
            lo += a
            hi += b
    return lo, hi


def additive(ctx, obs, rule='ADD'):
    prog = ctx.prog
    q = S + 'make_dataset'
    f = prog.func(q)
    r = ctx.dep.result(q)
    inl = Inliner(r, None, ())
    cs = [c for c in r.calls if any(x.endswith('DatasetBase.__init__') for x in c.callees)]
    if not cs or not cs[0].node.args:
        return
    e = inl.inline(cs[0].node.args[0])
    if not (isinstance(e, ast.BinOp) and isinstance(e.op, ast.Add)):
        obs.bad(rule, q, 'data = signal term + noise term', f'the measurements `{ast.unparse(e)[:90]}` are not '
                f'a sum of a signal term and a noise term', where(prog, f, cs[0].node))
        return

    def has_call(x, leaf):
        return any(isinstance(n, ast.Call) and _leaf(n.func) == leaf for n in ast.walk(x))

    def is_sqrt_of(param):
        return lambda n: isinstance(n, ast.Call) and _leaf(n.func) == 'sqrt' and n.args and isinstance(n.args[0], ast.Name) \
            and n.args[0].id == 'PARAM_' + param
    l, rr = e.left, e.right
    sig, noi = (l, rr) if has_call(l, 'make_signal') else (rr, l)
    obs.check(has_call(sig, 'make_signal') and _count_paths(sig, is_sqrt_of('signal')) == (1, 1), rule, q,
              'the signal term is design @ signal pattern * sqrt(signal)',
              f'signal term `{ast.unparse(sig)[:100]}` does not carry sqrt(signal) exactly once', '', where(prog, f, cs[0].node))
    lo, hi = _count_paths(noi, is_sqrt_of('noise'))
    obs.check(has_call(noi, 'ppf') and lo >= 1, rule, q, 'the noise term is a standard-normal draw scaled by sqrt(noise)',
              f'noise term `{ast.unparse(noi)[:120]}`', '', where(prog, f, cs[0].node))
    obs.check((lo, hi) == (1, 1), rule, q, 'sqrt(noise) scales the noise exactly once',
              f'sqrt(noise) occurs between {lo} and {hi} times along the alternatives of the noise term', '', where(prog, f, cs[0].node))
    obs.check(_count_paths(noi, is_sqrt_of('signal'))[1] == 0 and not any(isinstance(n, ast.Name) and n.id == 'PARAM_signal' for n in ast.walk(noi)),
              rule, q, 'the noise term does not scale with the signal strength', f'`{ast.unparse(noi)[:80]}`', '', where(prog, f, cs[0].node))
    obs.check(not has_call(sig, 'ppf') or has_call(sig, 'make_signal'), rule, q, 'signal and noise are separate draws', '', '',
              where(prog, f, cs[0].node))


def design(ctx, obs, rule='DESIGN'):
    prog = ctx.prog
    q = S + 'make_design'
    f = prog.func(q)
    r = ctx.dep.result(q)
    inl = Inliner(r, None, ('n_cond', 'n_part'))
    rets = [n for n, _, _ in r.returns if n is not None and isinstance(n.value, ast.Tuple) and len(n.value.elts) == 2]
    if not rets:
        raise AnalysisError('make_design: no (cond_vec, part_vec) return')
    c, p = (inl.inline(x) for x in rets[0].value.elts)

    def kron_args(e):
        if isinstance(e, ast.Call) and _leaf(e.func) == 'kron' and len(e.args) == 2:
            return [ast.unparse(a) for a in e.args]
        return None
    ca, pa = kron_args(c), kron_args(p)
    ok_c = ca is not None and 'ones' in ca[0] and 'SRC1' in ca[0] and 'SRC0' in ca[1] and 'ones' not in ca[1]
    obs.check(ok_c, rule, q, 'cond_vec = kron(ones(n_part), arange(n_cond)): every condition once per partition',
              f'cond_vec = `{ast.unparse(c)[:90]}`', '', where(prog, f, rets[0]))
    ok_p = pa is not None and 'ones' in pa[1] and 'SRC0' in pa[1] and 'SRC1' in pa[0] and 'ones' not in pa[0]
    obs.check(ok_p, rule, q, 'part_vec = kron(arange(n_part), ones(n_cond)): partition label constant within a partition',
              f'part_vec = `{ast.unparse(p)[:90]}`', '', where(prog, f, rets[0]))


def fresh(ctx, obs, rule='FRESH'):
    prog, heap = ctx.prog, ctx.heap
    for q in ('data.base.DatasetBase.__init__', 'data.dataset.TemporalDataset.__init__'):
        f = prog.func(q)
        s = heap.summary(q)
        for fld in ('descriptors', 'obs_descriptors', 'channel_descriptors', 'time_descriptors'):
            v = s.stores.get(('P:self', fld))
            if v is None:
                continue
            shared = sorted(l for l in v if is_param_loc(l))
            obs.check(not shared, rule, q, f'the dataset keeps its own copy of {fld}',
                      f'self.{fld} may be the caller\'s dict {shared}: all datasets simulated in one call share (and relabel) '
                      f'one descriptor dict', '', where(prog, f, f.node))


def rng(ctx, obs, rule='RNG'):
    prog = ctx.prog
    from ..flow import _canon_ext, CLOCK_FUNCS, OTHER_RNG_PREFIX, OTHER_RNG_FUNCS, RNG_NUMPY_OBJECTS
    for fn in ('make_dataset', 'make_signal', 'make_design'):
        q = S + fn
        f = prog.func(q)
        r = ctx.dep.result(q)
        bad = []
        for c in r.calls:
            if c.ext:
                canon = _canon_ext(c.ext)
                leaf = canon.split('.')[-1]
                if canon in CLOCK_FUNCS or canon.startswith(OTHER_RNG_PREFIX) or canon in OTHER_RNG_FUNCS or \
                        (canon.startswith('numpy.random.') and leaf in RNG_NUMPY_OBJECTS
                         and not (c.node.args or any(k.arg == 'seed' for k in c.node.keywords))):
                    bad.append(c)
        obs.check(not bad, rule, q, 'randomness only from re-seedable np.random module functions',
                  f'`{norm(bad[0].node)[:70]}` is not controlled by np.random.seed' if bad else '', '', where(prog, f, f.node))


def second_moment(ctx, obs, rule='ND'):
    """G = -0.5 * H D H with H the centering matrix of the model RDM's size"""
    prog = ctx.prog
    q = S + 'make_dataset'
    f = prog.func(q)
    from ..rules import poly
    # the matrix handed to make_signal as second moment: -1/2 * (H @ D @ H)
    r = ctx.dep.result(q)
    ms = [c for c in r.calls if any(x.endswith('make_signal') for x in c.callees)]
    gname = ms[0].node.args[0].id if ms and ms[0].node.args and isinstance(ms[0].node.args[0], ast.Name) else 'G'
    g = [s for s in ast.walk(f.node) if isinstance(s, ast.Assign) and isinstance(s.targets[0], ast.Name) and s.targets[0].id == gname]

    def leaf(e):
        if isinstance(e, ast.BinOp) and isinstance(e.op, ast.MatMult):
            chain = []

            def flat(x):
                if isinstance(x, ast.BinOp) and isinstance(x.op, ast.MatMult):
                    flat(x.left)
                    flat(x.right)
                else:
                    chain.append(x.id if isinstance(x, ast.Name) else None)
            flat(e)
            if len(chain) == 3 and None not in chain and chain[0] == chain[2] and chain[0] != chain[1]:
                return poly.sym('HDH')
        return None
    got = poly.from_expr(g[-1].value, leaf) if g else None
    ref = poly.mul(poly.const(poly.Fraction(-1, 2)), poly.sym('HDH'))
    if got is None:
        obs.unk(rule, q, 'the second moment is the double-centred model RDM: G = -0.5 * H D H', f'{[norm(s) for s in g]}')
    else:
        obs.check(got == ref, rule, q, 'the second moment is the double-centred model RDM: G = -0.5 * H D H',
                  f'G = `{norm(g[-1].value)}` == {poly.show(got)}, expected -1/2 * H D H', '', where(prog, f, g[-1]))
    h = [s for s in ast.walk(f.node) if isinstance(s, ast.Assign) and isinstance(s.targets[0], ast.Name) and s.targets[0].id == 'H']
    ok = any(isinstance(s.value, ast.Call) and _leaf(s.value.func) == 'centering' and 'shape[0]' in norm(s.value) for s in h)
    obs.soft(ok, rule, q, 'H is the centering matrix of the RDM\'s size', f'{[norm(s) for s in h]}', '', where(prog, f, f.node))
    q2 = 'util.matrix.centering'
    f2 = prog.func(q2)
    t = norm([n for n in ast.walk(f2.node) if isinstance(n, ast.Return)][0].value if any(isinstance(n, ast.Return) for n in ast.walk(f2.node)) else f2.node)
    from ..rules.common import Inliner as _I
    r2 = ctx.dep.result(q2)
    e = _I(r2, None, ('size',)).inline([n for n, _, _ in r2.returns if n is not None][0].value)
    et = ast.unparse(e).replace(' ', '')
    obs.soft('identity(SRC0)' in et and 'ones(SRC0)/SRC0' in et or 'eye(SRC0)' in et and '/SRC0' in et, 'ND', q2,
              'centering(n) = I - 1/n', f'`{ast.unparse(e)}`', '', where(prog, f2, f2.node))


def truncation_boundary(ctx, obs, rule='BOUND'):
    """make_signal: the exact-second-moment construction needs at least as many channels as conditions.  Only for FEWER channels the
    code generates n_cond channels and truncates afterwards (which gives up exactness).  With n_channel == n_cond - the edge of the
    property's premise - the truncation branch must not be taken: its guard has to be false at equality (a strict comparison)."""
    prog = ctx.prog
    q = S + 'make_signal'
    f = prog.func(q)
    size_names = {s.targets[0].id for s in f.node.body if isinstance(s, ast.Assign) and isinstance(s.targets[0], ast.Name)
                  and isinstance(s.value, ast.Subscript) and isinstance(s.value.value, ast.Attribute) and s.value.value.attr == 'shape'}
    params = set(f.params)
    guards = [g for g in f.node.body if isinstance(g, ast.If) and isinstance(g.test, ast.Compare) and len(g.test.ops) == 1
              and isinstance(g.test.left, ast.Name) and isinstance(g.test.comparators[0], ast.Name)
              and {g.test.left.id, g.test.comparators[0].id} & size_names and {g.test.left.id, g.test.comparators[0].id} & params]
    if not guards:
        obs.unk(rule, q, 'the truncation branch is taken only for fewer channels than conditions', 'size comparison not found',
                where(prog, f, f.node))
        return
    g = guards[0]
    at_equality = isinstance(g.test.ops[0], (ast.GtE, ast.LtE, ast.Eq))
    con = 'with as many channels as conditions the signal is generated in its final dimension (no truncation)'
    if not at_equality:
        obs.ok(rule, q, con, f'`{norm(g.test)}` is false for n_channel == n_cond', where(prog, f, g))
        return
    # the branch is taken at equality: harmless only if it generates exactly n_cond (= n_channel) channels there
    size = next(iter({g.test.left.id, g.test.comparators[0].id} & size_names))
    chan = next(iter({g.test.left.id, g.test.comparators[0].id} & params))
    gen = [s_.value for s_ in g.body if isinstance(s_, ast.Assign) and isinstance(s_.targets[0], ast.Name) and s_.targets[0].id == chan]
    same = bool(gen) and all(isinstance(v, ast.Name) and v.id in (size, chan) for v in gen)
    if same:
        obs.ok(rule, q, con, f'`{norm(g.test)}` holds at equality but the branch generates `{norm(gen[0])}` channels', where(prog, f, g))
    else:
        obs.bad(rule, q, con, f'`{norm(g.test)}` holds for n_channel == n_cond and the branch generates '
                f'`{norm(gen[0]) if gen else "?"}` channels before truncating to n_channel: the truncated signal no longer has exactly the '
                f'model\'s second moment', where(prog, f, g))
