"""C02 - Cross-validated distances are the mean of between-fold products only."""
from __future__ import annotations
import ast

from ..flow import depends_on_param, params_of, root_name
from ..rules.common import (acc_named, calls_to, bound_args, where, norm, expr_sources, call_tokens,
                            is_complement_of)
from ..rules import scale as scale_rule

EXPLANATION = (
    'Static necessary-condition analysis of calc_rdm_crossnobis / calc_rdm_poisson_cv / _calc_rdm_crossnobis_single: '
    'every fold iteration is accumulated (ACC), the two operands of the bilinear kernel come from the held-out fold '
    'and from its complement (fold separation), distinct fold indices in the per-fold-precision arm, the result is the '
    'mean over the accumulated fold products with the 1/n_channel factor, labels come from the sorted copy that the '
    'fold means were computed from, and the input dataset is copied before it is sorted. It does NOT decide the numeric '
    'value nor permutation invariance.'
    ' Also: (MEAN-FIRST) fold means are taken before any non-linear map; (LOG-SIDE) in poisson_cv the logarithm is taken of the held-out fold and the rates come from the training folds; (LOOP-CARRY) the precision of a fold pair does not carry state from earlier pairs.'
    ' Round 6: (KERNEL-SYM) the asymmetric cross-fold kernel enters the distance together with its transpose.')
ASSUMPTIONS = [
    'dependence is over-approximated; CALL tokens identify individual call sites',
    'complement idioms accepted: np.setdiff1d(U, x), U[U != x], U[~np.isin(U, x)], np.delete(U, i)',
]
FLOOR = 14
ANALYSED_FLOORS = {'remove_mean_centrings': 2}
RULE_FLOORS = {'ACC': 3, 'FOLD-SEP': 4}

CN = 'rdm.calc.calc_rdm_crossnobis'
PCV = 'rdm.calc.calc_rdm_poisson_cv'
SINGLE = 'rdm.calc._calc_rdm_crossnobis_single'


def run(ctx, obs):
    from ..rules import sweeps
    sweeps.run(ctx, obs, 'C02')
    prog, dep = ctx.prog, ctx.dep
    from ..rules.common import call_closure
    for q in (CN, PCV):
        for g in call_closure(ctx, q):
            acc_named(ctx, obs, g)
        fold_separation(ctx, obs, q)
        labels_and_copy(ctx, obs, q)
    from ..rules.common import mean_first
    for q in (CN, PCV):
        if mean_first(ctx, obs, q) == 0:
            obs.unk('MEAN-FIRST', q, 'fold means are computed by average_dataset_by', 'no averaging call found in the function')
    log_side(ctx, obs)
    kernel_symmetrised(ctx, obs)
    distinct_fold_indices(ctx, obs, CN)
    operand_symmetry(ctx, obs, CN)
    centring_axis(ctx, obs)
    # default folds: "the first occurrence of each value forms the first group, the second the second ..." - an argsort-based
    # grouping keeps the occurrences of a value in order only if it is stable
    from ..rules.containers import stable_sorts
    stable_sorts(ctx, obs, 'rdm.calc._gen_default_cv_descriptor')
    scale_rule.check_return(ctx, obs, SINGLE, {'chan': -1})
    scale_rule.check_value_at_build(ctx, obs, CN, {'chan': -1})
    scale_rule.check_value_at_build(ctx, obs, PCV, {'chan': -1})
    # dispatch from calc_rdm
    from .c01 import method_dispatch
    method_dispatch(ctx, obs, 'rdm.calc.calc_rdm', {'crossnobis': CN, 'poisson_cv': PCV})
    fwd_from_calc_rdm(ctx, obs)


def _subset_calls(r):
    return [c for c in r.calls if c.attr == 'subset_obs']


def fold_separation(ctx, obs, q0, rule='FOLD-SEP'):
    """in the leave-one-fold-out loop the test selection is the loop's fold, the training selection its complement
    within the set of folds, and the two kernel operands derive from one selection each.  The loop is looked for in q0 and in the
    same-module helpers it calls (a split into helpers moves it)."""
    from ..rules.common import call_closure
    cands = [g for g in call_closure(ctx, q0) if any(c.in_loops and len(c.node.args) >= 2 for c in _subset_calls(ctx.dep.result(g)))]
    if not cands:
        obs.unk(rule, q0, 'leave-one-fold-out loop', 'no loop over subset_obs selections found in the function or its helpers',
                where(ctx.prog, ctx.prog.func(q0), ctx.prog.func(q0).node))
        return
    found_comp = False
    for q in cands:
        found_comp = _fold_separation_in(ctx, obs, q, rule, report_missing=False) or found_comp
    if not found_comp:
        f0 = ctx.prog.func(q0)
        obs.bad(rule, q0, 'training selection is the complement of the held-out fold within the set of folds',
                'no subset_obs call inside the fold loop selects the complement of the current fold '
                '(accepted idioms: setdiff1d(folds, fold), folds[folds != fold], folds[~isin(folds, fold)])',
                where(ctx.prog, f0, f0.node))


def _fold_separation_in(ctx, obs, q, rule, report_missing=True):
    prog = ctx.prog
    f = prog.func(q)
    r = ctx.dep.result(q)
    subs = _subset_calls(r)
    comp_calls, fold_calls = [], []
    for c in subs:
        if len(c.node.args) < 2 or not c.in_loops:
            continue
        sel = c.node.args[1]
        sel_src = c.arg(1) or frozenset()
        if not any(t.startswith('ITER:') for t in sel_src):
            continue

        def is_fold(e):
            return any(t.startswith('ITER:') for t in expr_sources(r, e)) and not isinstance(e, ast.Call)

        def is_universe(e, call=c):
            s = expr_sources(r, e)
            if any(t.startswith('ITER:') for t in s):
                return False
            if any('unique' in t for t in s if t.startswith('CALL:')):
                return True
            # the collection the enclosing fold loop iterates over (also when it is a parameter of a helper)
            for lp in _enclosing_loops(f.node, call.node):
                it = lp.iter
                if isinstance(it, ast.Call) and isinstance(it.func, ast.Name) and it.func.id in ('enumerate', 'tqdm') and it.args:
                    it = it.args[0]
                if isinstance(e, ast.Name) and isinstance(it, ast.Name) and it.id == e.id:
                    return True
            return False
        # follow a single-definition name to its expression
        sel_e = _follow(r, sel)
        comp = is_complement_of(sel_e, is_universe, is_fold)
        if comp is True:
            comp_calls.append(c)
        elif comp is False:
            obs.bad(rule, q, 'training selection is the complement of the held-out fold within the set of folds',
                    f'`{norm(sel_e)}`: recognised complement idiom but its slots are not (set of all folds, current '
                    f'fold)', where(prog, f, c.node))
        elif is_fold(sel_e) or isinstance(sel_e, (ast.Name, ast.Subscript)):
            fold_calls.append(c)
    # per-fold arm of crossnobis uses one subset per fold (no complement): handled by distinct_fold_indices
    kernels = _kernel_operands(ctx, q, r)
    for node, left, right, desc in kernels:
        ls, rs = expr_sources(r, left), expr_sources(r, right)
        lt, rt = call_tokens(ls, '.subset_obs'), call_tokens(rs, '.subset_obs')
        comp_tok = {c.token for c in comp_calls}
        fold_tok = {c.token for c in fold_calls}
        comp_loops = {id(l) for c in comp_calls for l in _enclosing_loops(f.node, c.node)}
        if not ({id(l) for l in _enclosing_loops(f.node, node)} & comp_loops):
            continue    # not inside a leave-one-fold-out loop (per-fold arm)
        ok_sep = bool(lt) and bool(rt) and not (lt & rt)
        obs.check(ok_sep, rule, q, f'{desc}: the two kernel operands derive from different fold selections',
                  f'operands of `{norm(node)[:90]}` derive from selections {sorted(lt)} and {sorted(rt)}: a fold '
                  f'is multiplied with itself', '', where(prog, f, node))
        one_comp = (bool(lt & comp_tok) != bool(rt & comp_tok))
        obs.check(one_comp, rule, q, f'{desc}: one operand is the held-out fold, the other its complement',
                  f'operands derive from {sorted(lt)} / {sorted(rt)}; complement selections are {sorted(comp_tok)}',
                  '', where(prog, f, node))
    for c in comp_calls:
        obs.ok(rule, q, f'training selection #{c.ordinal} is the complement of the held-out fold', norm(c.node)[:100],
               where(prog, f, c.node))
    for c in fold_calls:
        obs.ok(rule, q, f'selection #{c.ordinal} is the current fold', norm(c.node)[:100], where(prog, f, c.node))
    return bool(comp_calls)


def _follow(r, e, depth=0):
    while isinstance(e, ast.Name) and depth < 5:
        ids = r.load_defs.get(id(e))
        if not ids or len(ids) != 1:
            break
        d = r.defs[next(iter(ids))]
        if d.kind != 'assign' or not isinstance(d.node, ast.Assign) or isinstance(d.node.targets[0], (ast.Tuple, ast.List)):
            break
        e = d.node.value
        depth += 1
    return e


def _kernel_operands(ctx, q, r):
    """(node, left operand, right operand) of the bilinear kernels: calls to _calc_rdm_crossnobis_single and
    A @ log(B).T products"""
    f = ctx.prog.func(q)
    out = []
    for c in calls_to(r, SINGLE):
        if len(c.node.args) >= 2:
            out.append((c.node, c.node.args[0], c.node.args[1], f'kernel call #{c.ordinal}'))
    k = 0
    for n in ast.walk(f.node):
        if isinstance(n, ast.BinOp) and isinstance(n.op, ast.MatMult):
            # outermost product only
            if any(isinstance(ch, ast.BinOp) and isinstance(ch.op, ast.MatMult) for ch in (n.left,)):
                continue
            if any(isinstance(x, ast.Call) and isinstance(x.func, ast.Attribute) and x.func.attr == 'log'
                   for x in ast.walk(n.right)):
                out.append((n, n.left, n.right, f'log-kernel product #{k}'))
                k += 1
    return out


def kernel_symmetrised(ctx, obs, rule='KERNEL-SYM'):
    """The cross-fold kernel K = X_m P X_n' (or L_m log(L_n)') is NOT symmetric: entry (a, b) pairs condition a of one fold with
    condition b of the other.  The distance d_ab = K_aa + K_bb - K_ab - K_ba needs both K and K' - writing `- 2 * K` is the
    same only for a symmetric kernel (one fold with itself, or after the sum over both orders of a fold pair has been taken with a
    symmetric P); with one precision per fold each unordered fold pair is visited once and nothing symmetrises the result."""
    prog = ctx.prog
    for q in (SINGLE, PCV):
        f = prog.func(q)
        for st in ast.walk(f.node):
            if not (isinstance(st, ast.Assign) and len(st.targets) == 1 and isinstance(st.targets[0], ast.Name) and isinstance(st.value, ast.BinOp)
                    and isinstance(st.value.op, ast.MatMult)):
                continue
            ops = []
            e = st.value
            while isinstance(e, ast.BinOp) and isinstance(e.op, ast.MatMult):
                ops.insert(0, e.right)
                e = e.left
            ops.insert(0, e)

            def root(x):
                names = [n.id for n in ast.walk(x) if isinstance(n, ast.Name) and n.id not in ('np', 'numpy')]
                return names[0] if names else None
            a, b = root(ops[0]), root(ops[-1])
            if a is None or b is None or a == b:
                continue
            k = st.targets[0].id
            uses = [x for x in ast.walk(f.node) if isinstance(x, ast.Name) and x.id == k and isinstance(x.ctx, ast.Load)]
            if not uses:
                continue
            transposed = [x for x in ast.walk(f.node) if (isinstance(x, ast.Attribute) and x.attr == 'T' and isinstance(x.value, ast.Name) and x.value.id == k)
                          or (isinstance(x, ast.Call) and norm(x.func).split('.')[-1] == 'transpose' and any(isinstance(y, ast.Name) and y.id == k for y in ast.walk(x)))]
            con = f'the cross-fold kernel `{k}` of {q.split(".")[-1]} enters the distance together with its transpose'
            if transposed:
                obs.ok(rule, q, con, f'`{norm(st)[:60]}`', where(prog, f, st))
            else:
                obs.bad(rule, q, con, f'`{norm(st)[:70]}` pairs `{a}` with `{b}` (two different folds), and `{k}` is never transposed: the distance '
                        f'uses K_ab twice instead of K_ab + K_ba, which differs whenever the two folds (or their precisions) differ',
                        where(prog, f, st))


def log_side(ctx, obs, rule='LOG-SIDE'):
    """poisson_cv: (l_a - l_b) comes from the TRAINING folds (the mean rate over the remaining folds) and the logarithm is taken
    of the held-out fold's rates.  Swapped, the value is the same for two folds only: log(mean over folds) is not the mean of the
    logs.  Decided on data flow: the operand inside np.log derives from the held-out selection (no complement / setdiff), the
    other operand from the complement."""
    from ..rules.common import expr_sources
    prog = ctx.prog
    q = PCV
    f = prog.func(q)
    r = ctx.dep.analyze(q, data_only=True)
    ops = [(n, a, b, what) for n, a, b, what in _kernel_operands(ctx, q, r) if what.startswith('log-kernel')]
    if not ops:
        obs.unk(rule, q, 'the logarithm is taken of the held-out fold', 'no `A @ log(B).T` product recognised', where(prog, f, f.node))
        return

    def side(e):
        t = expr_sources(r, e)
        comp = any(x.startswith('CALL:') and x.split('@')[0].split('.')[-1] in ('setdiff1d', 'delete', 'logical_not', 'invert') for x in t)
        return 'train' if comp else 'test'
    for n, a, b, what in ops:
        con = f'{what}: rates from the training folds, logarithm of the held-out fold'
        sa_, sb = side(a), side(b)
        if (sa_, sb) == ('train', 'test'):
            obs.ok(rule, q, con, f'`{norm(n)[:70]}`', where(prog, f, n))
        elif (sa_, sb) == ('test', 'train'):
            obs.bad(rule, q, con, f'`{norm(n)[:80]}` takes the logarithm of the training-fold average and the rates from the held-out fold: '
                    f'the roles are exchanged, which changes the value for more than two folds', where(prog, f, n))
        else:
            obs.unk(rule, q, con, f'`{norm(n)[:70]}`: both operands come from the same side ({sa_})', where(prog, f, n))


def distinct_fold_indices(ctx, obs, q, rule='FOLD-SEP'):
    """per-fold-precision arm: kernel(measurements[i], measurements[j], ...) with i != j by construction"""
    prog = ctx.prog
    f = prog.func(q)
    r = ctx.dep.result(q)
    for c in calls_to(r, SINGLE):
        a = c.node.args
        if len(a) < 2 or not (isinstance(a[0], ast.Subscript) and isinstance(a[1], ast.Subscript)):
            continue
        i, j = a[0].slice, a[1].slice
        if not (isinstance(i, ast.Name) and isinstance(j, ast.Name)):
            obs.unk(rule, q, 'per-fold arm: fold indices are distinct', f'indices `{norm(i)}`, `{norm(j)}` not plain names')
            continue
        same_list = ast.dump(a[0].value) == ast.dump(a[1].value)
        con = 'per-fold arm: the two fold indices of the kernel are distinct by construction'
        if i.id == j.id:
            obs.bad(rule, q, con, f'`{norm(c.node)[:80]}` multiplies fold `{i.id}` with itself', where(prog, f, c.node))
            continue
        ok = _distinct_by_loops(f.node, c.node, i.id, j.id)
        if ok is None:
            obs.unk(rule, q, con, 'neither an inner range(i+1, ..) loop nor an i != j guard recognised')
        else:
            obs.check(ok and same_list, rule, q, con,
                      f'loops/guards around `{norm(c.node)[:80]}` allow `{i.id} == {j.id}`', '', where(prog, f, c.node))


def _distinct_by_loops(fn, call, i, j):
    # enclosing For loops and If guards of the call
    path = _path_to(fn, call)
    if path is None:
        return None
    loops = {n.target.id: n for n in path if isinstance(n, ast.For) and isinstance(n.target, ast.Name)}
    guards = [n for n in path if isinstance(n, ast.If)]
    for g in guards:
        t = g.test
        if isinstance(t, ast.Compare) and len(t.ops) == 1 and isinstance(t.ops[0], ast.NotEq) \
                and isinstance(t.left, ast.Name) and isinstance(t.comparators[0], ast.Name) \
                and {t.left.id, t.comparators[0].id} == {i, j} and call in list(ast.walk(ast.Module(body=g.body, type_ignores=[]))):
            return True
    for inner, outer in ((j, i), (i, j)):
        lp = loops.get(inner)
        if lp is not None and isinstance(lp.iter, ast.Call) and isinstance(lp.iter.func, ast.Name) \
                and lp.iter.func.id == 'range' and len(lp.iter.args) >= 2:
            start = lp.iter.args[0]
            if isinstance(start, ast.BinOp) and isinstance(start.op, ast.Add) and isinstance(start.left, ast.Name) \
                    and start.left.id == outer and isinstance(start.right, ast.Constant) and start.right.value >= 1:
                return True
    if i in loops and j in loops:
        return False
    return None


def _enclosing_loops(root, target):
    p = _path_to(root, target) or []
    return [n for n in p if isinstance(n, (ast.For, ast.While))]


def _path_to(root, target):
    path = []

    def rec(n):
        if n is target:
            return True
        for ch in ast.iter_child_nodes(n):
            if rec(ch):
                path.append(n)
                return True
        return False
    return list(reversed(path)) if rec(root) else None


def labels_and_copy(ctx, obs, q):
    """_build_rdms gets the sorted copy the fold means were computed from; the input is copied before sorting"""
    prog = ctx.prog
    f = prog.func(q)
    r = ctx.dep.result(q)
    first = f.pos_params[0]
    sites = calls_to(r, 'util.build_rdm._build_rdms')
    subs = [c for c in _subset_calls(r) if c.in_loops]
    sorts = [c for c in r.calls if c.attr == 'sort_by']
    for c in sites:
        b = bound_args(prog, 'util.build_rdm._build_rdms', c)
        ds = b.get('ds')
        if ds is None or not isinstance(ds[0], ast.Name):
            obs.unk('PAIR', q, 'dataset handed to _build_rdms is the sorted copy', 'ds argument is not a plain name')
            continue
        from ..rules.common import root_defs
        ds_defs = root_defs(r, ds[0])
        recv_defs = set()
        for s in subs + sorts:
            rv = s.node.func.value
            if isinstance(rv, ast.Name):
                recv_defs |= set(root_defs(r, rv))
        obs.check(bool(ds_defs) and ds_defs <= recv_defs, 'PAIR', q,
                  'labels: _build_rdms receives the object that was sorted and split into folds',
                  f'`{norm(ds[0])}` handed to _build_rdms is not the object on which sort_by/subset_obs were called: '
                  f'condition labels would be taken from a differently ordered dataset', '', where(prog, f, c.node))
        nm = b.get('obs_desc_name')
        obs.check(nm is not None and depends_on_param(nm[1], 'descriptor'), 'PAIR', q,
                  'labels: condition descriptor name reaches _build_rdms', 'descriptor name not forwarded', '',
                  where(prog, f, c.node))
    # ALIGN: per-fold condition means come in order of first appearance WITHIN the fold (order typing of average_dataset_by); they
    # are combined row by row across folds, so the dataset must have been sorted by the condition descriptor beforehand (then
    # every order-preserving subset lists the conditions in sorted order).  The sort key is compared with the averaging key.
    from ..rules import order as _order
    _, osumm = _order._analysis(ctx)
    avg = [c for c in r.calls if any(x.endswith('average_dataset_by') for x in c.callees) and c.in_loops]
    t = osumm.get('data.computations.average_dataset_by')
    rows = t.comps[0] if t is not None and t.kind == 'Tuple' and t.comps else None
    for c in avg:
        con = f'fold means (#{c.ordinal}) list the conditions in the same order in every fold'
        if rows is None:
            obs.unk('ALIGN', q, con, 'row order of average_dataset_by could not be typed', where(prog, f, c.node))
            continue
        if rows.o == _order.SORTED:
            obs.ok('ALIGN', q, con, 'average_dataset_by returns sorted order', where(prog, f, c.node))
            continue
        from ..rules.common import Inliner as _Inl
        _inl = _Inl(r, None, tuple(f.params))
        akey_e = ast.dump(_inl.inline(c.node.args[1])) if len(c.node.args) > 1 else None
        good = [s for s in sorts if not s.in_loops and s.node.args and akey_e is not None
                and ast.dump(_inl.inline(s.node.args[0])) == akey_e]
        if good:
            obs.ok('ALIGN', q, con, f'`{norm(good[0].node)}` precedes the fold loop', where(prog, f, c.node))
        elif sorts:
            obs.bad('ALIGN', q, con, f'the dataset is sorted by `{norm(sorts[0].node.args[0]) if sorts[0].node.args else "?"}` but the fold '
                    f'means are taken by `{norm(c.node.args[1]) if len(c.node.args) > 1 else "?"}`: within a fold the conditions appear in '
                    f'observation order, which differs between folds, so rows of different conditions are multiplied', where(prog, f, c.node))
        else:
            obs.bad('ALIGN', q, con, 'no sort_by on the condition descriptor precedes the fold loop: per-fold means are in order of first '
                    'appearance within each fold', where(prog, f, c.node))
    # copy before sort (DOM + PURE at alias level)
    for s in sorts:
        rv = s.node.func.value
        src = expr_sources(r, rv)
        copied = any(t.startswith('CALL:') and ('deepcopy' in t or '.copy' in t) for t in src)
        obs.check(copied and first not in r.mut, 'PURE', q,
                  'the input dataset is copied before the in-place sort_by / descriptor insertion',
                  f'`{norm(s.node)}` sorts an object that may be the caller\'s dataset (no deepcopy/copy on the path), '
                  f'or the function writes into parameter `{first}`', '', where(prog, f, s.node))
    # cv descriptor reaches subset_obs
    for s in subs:
        a0 = s.arg(0) or frozenset()
        obs.check(depends_on_param(a0, 'cv_descriptor'), 'FWD', q, f'cv_descriptor selects the folds (subset_obs #{s.ordinal})',
                  f'`{norm(s.node)[:80]}` does not select by the cv descriptor', '', where(prog, f, s.node))
    for c in r.calls:
        if any(x.endswith('average_dataset_by') for x in c.callees) and c.in_loops:
            a1 = c.arg(1) or frozenset()
            obs.check(depends_on_param(a1, 'descriptor'), 'FWD', q, f'fold means are taken per condition descriptor (#{c.ordinal})',
                      f'`{norm(c.node)[:80]}` does not average by the condition descriptor', '', where(prog, f, c.node))


def fwd_from_calc_rdm(ctx, obs):
    prog = ctx.prog
    q = 'rdm.calc.calc_rdm'
    f = prog.func(q)
    r = ctx.dep.result(q)
    want = {CN: ['descriptor', 'noise', 'cv_descriptor', 'remove_mean'],
            PCV: ['descriptor', 'cv_descriptor', 'prior_lambda', 'prior_weight']}
    for callee, ps in want.items():
        for c in calls_to(r, callee):
            b = bound_args(prog, callee, c)
            for p in ps:
                obs.check(p in b and depends_on_param(b[p][1], p), 'FWD', q, f'calc_rdm passes {p} to {callee.split(".")[-1]}',
                          f'`{norm(c.node)[:90]}` does not pass `{p}` in the slot of parameter `{p}`', '',
                          where(prog, f, c.node))


def operand_symmetry(ctx, obs, q, rule='SYM-prep'):
    """crossnobis: the two fold-mean matrices multiplied by the kernel get the SAME preparation (with remove_mean: both are
    centred per condition) - the product x_train P x_test' is only the cross-validated distance of the centred patterns when both
    factors are centred (a constant offset in one factor survives whenever the precision is not the identity)"""
    prog = ctx.prog
    f = prog.func(q)
    ifs = [n for n in ast.walk(f.node) if isinstance(n, ast.If) and isinstance(n.test, ast.Name) and n.test.id == 'remove_mean']
    from ..rules.common import Inliner
    for mode, force in (('remove_mean=True', {id(n): 'body' for n in ifs}), ('remove_mean=False', {id(n): 'orelse' for n in ifs})):
        r = ctx.dep.analyze(q, force=force)
        inl = Inliner(r, None, tuple(f.params))
        for c in ast.walk(f.node):
            if isinstance(c, ast.Call) and isinstance(c.func, ast.Name) and c.func.id == SINGLE.split('.')[-1] and len(c.args) >= 2:
                a, b = (_abstract_means(inl.inline(x)) for x in c.args[:2])
                if a is None or b is None:
                    continue
                con = f'{mode}: both fold-mean operands of the kernel are prepared alike'
                if a[1] == 0 and b[1] == 0:
                    continue        # operands are not built from average_dataset_by here (list-of-precisions arm: same list)
                obs.check(a[0] == b[0], rule, q, con,
                          f'`{norm(c)[:70]}`: first operand is `{a[0][:80]}`, second is `{b[0][:80]}` (M = the fold means): one side '
                          f'misses a step the other has', '', where(prog, f, c))


def _abstract_means(e):
    """replace every average_dataset_by(...)[k] / its tuple element by the placeholder M; returns (text, number of replacements)"""
    n = [0]

    class Tr(ast.NodeTransformer):
        def visit_Subscript(self, node):
            if isinstance(node.value, ast.Call) and isinstance(node.value.func, ast.Name) and node.value.func.id == 'average_dataset_by':
                n[0] += 1
                return ast.Name(id='M', ctx=ast.Load())
            return self.generic_visit(node)

        def visit_Call(self, node):
            if isinstance(node.func, ast.Name) and node.func.id == 'average_dataset_by':
                n[0] += 1
                return ast.Name(id='M', ctx=ast.Load())
            if isinstance(node.func, ast.Name) and node.func.id == 'ELEM' and node.args and isinstance(node.args[0], ast.Call) \
                    and isinstance(node.args[0].func, ast.Name) and node.args[0].func.id == 'average_dataset_by':
                n[0] += 1
                return ast.Name(id='M', ctx=ast.Load())
            return self.generic_visit(node)
    import copy
    t = Tr().visit(copy.deepcopy(e))
    return ast.unparse(t), n[0]


def centring_axis(ctx, obs, rule='SIB-axis'):
    """every `remove_mean` centring in rdm.calc removes, from each pattern (row of the conditions x channels matrix), its mean over
    channels: axis=1 with keepdims.  The sites are siblings (crossnobis single-precision arm x2, per-fold arm, _parse_input); a
    site centring along another axis subtracts a per-channel constant, which cancels in every pattern difference - the option
    silently does nothing there."""
    prog = ctx.prog
    sites = []
    for q, f in sorted(prog.functions.items()):
        if not q.startswith('rdm.calc.'):
            continue
        for g in ast.walk(f.node):
            if isinstance(g, ast.If) and isinstance(g.test, ast.Name) and g.test.id == 'remove_mean':
                for s in ast.walk(g):
                    val = None
                    if isinstance(s, ast.AugAssign) and isinstance(s.op, ast.Sub):
                        val = s.value
                    elif isinstance(s, ast.Assign) and isinstance(s.value, ast.BinOp) and isinstance(s.value.op, ast.Sub):
                        val = s.value.right
                    if isinstance(val, ast.Call) and isinstance(val.func, ast.Attribute) and val.func.attr in ('mean', 'nanmean'):
                        ax = next((k.value for k in val.keywords if k.arg == 'axis'), None)
                        if ax is None and isinstance(val.func.value, ast.Name) and val.func.value.id in ('np', 'numpy') and len(val.args) > 1:
                            ax = val.args[1]
                        elif ax is None and val.args and not (isinstance(val.func.value, ast.Name) and val.func.value.id in ('np', 'numpy')):
                            ax = val.args[0]
                        sites.append((q, f, s, ax))
    obs.analysed['remove_mean_centrings'] = len(sites)
    for q, f, s, ax in sites:
        ok = isinstance(ax, ast.Constant) and ax.value in (1, -1)
        obs.check(ok, rule, q, 'remove_mean subtracts each pattern\'s mean over channels (axis=1)',
                  f'`{norm(s)[:80]}` centres along axis {norm(ax) if ax is not None else None}: a per-channel offset cancels in every '
                  f'difference of two patterns, so remove_mean has no effect on this path', '', where(prog, f, s))
