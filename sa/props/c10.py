"""C10 - RDM container operations never change which value belongs to which pair (structural clauses)."""
from __future__ import annotations
import ast

from ..heap import is_param_loc, param_of
from ..rules.common import where, norm, Inliner, calls_to, bound_args
from ..rules.containers import (field_provenance, selection_pairing, stable_sorts, desc_normalised, table_agreement,
                                no_axisless_squeeze)

EXPLANATION = (
    'Static necessary-condition analysis of rdm/rdms.py, rdm/combine.py, rdm/transform.py, util/pooling, io/pandas: '
    '(ND-field) every operation that returns an RDMs passes descriptors / rdm_descriptors / pattern_descriptors derived '
    'from the source field of the same kind, as a mapping; (AXIS-pair) a selection that indexes dissimilarities on the RDM '
    'axis is the one applied to rdm_descriptors, one that indexes the matrix form on the condition axes (or builds the '
    'upper-triangle mask) is the one applied to pattern_descriptors; (REORDER) reorder permutes rows, columns and every '
    'pattern descriptor with one and the same order, sort_by reaches reorder with a stable argsort; (PURE-scope) the '
    'in-place API writes only the object it is called on; (DESC) descriptor values are normalised before ndarray-only '
    'operations; (TAB) to_dict / rdms_from_dict / rdms_to_df cover all five fields. Value association after arbitrary '
    'histories and size recovery from the vector length are NOT decided.'
    ' Also: (SEL-DESC) selectors read the descriptor values; (REORDER) what sort_by hands to reorder is a permutation (no first-occurrence look-ups); (HALF-FILLED) one-triangle look-up matrices are read with ascending indices only.')
ASSUMPTIONS = ['axis/descriptor table: dissimilarities axis 0 <-> rdm_descriptors, matrix axes 1,2 <-> pattern_descriptors',
               'exceptions to field provenance listed in sa/props/c10.py EXC with reasons']
FLOOR = 60
RULE_FLOORS = {'ND-field': 30, 'AXIS-pair': 4, 'TAB': 5}

R = 'rdm.rdms.'
FIELDS = ['descriptors', 'rdm_descriptors', 'pattern_descriptors']
PRODUCERS = [R + 'RDMs.__getitem__', R + 'RDMs.copy', R + 'RDMs.subset_pattern', R + 'RDMs.subsample_pattern',
             R + 'RDMs.subset', R + 'RDMs.subsample', R + 'RDMs.mean', R + 'concat', R + 'permute_rdms',
             'rdm.combine.from_partials', 'rdm.combine.rescale', 'rdm.transform.rank_transform',
             'rdm.transform.sqrt_transform', 'rdm.transform.positive_transform', 'rdm.transform.transform',
             'rdm.transform.minmax_transform', 'rdm.transform.geotopological_transform',
             'rdm.transform.geodesic_transform', 'util.pooling.pool_rdm', 'util.inference_util.pool_rdm',
             'model.model.ModelWeighted.predict_rdm', 'model.model.ModelInterpolate.predict_rdm']
EXC = {
    (R + 'RDMs.mean', 'rdm_descriptors'): 'the mean of a stack is one RDM: per-RDM descriptors do not apply',
    ('util.pooling.pool_rdm', 'rdm_descriptors'): 'pooled RDM: per-RDM descriptors do not apply (passes None)',
    ('util.inference_util.pool_rdm', 'rdm_descriptors'): 'pooled RDM: per-RDM descriptors do not apply (passes None)',
    ('rdm.combine.from_partials', 'pattern_descriptors'): 'rebuilt from the union of the partial RDMs\' patterns',
    ('model.model.ModelWeighted.predict_rdm', 'rdm_descriptors'): 'a prediction is one RDM',
    ('model.model.ModelInterpolate.predict_rdm', 'rdm_descriptors'): 'a prediction is one RDM',
}


def run(ctx, obs):
    from .c12 import value_immutability
    value_immutability(ctx, obs, prefixes=('rdm.rdms.', 'util.descriptor_utils.', 'util.rdm_utils.'))
    from ..rules import sweeps
    sweeps.run(ctx, obs, 'C10')
    from ..rules import order as _ord
    _ord.report(ctx, obs, ['rdm.rdms.', 'util.descriptor_utils.', 'util.rdm_utils.', 'rdm.combine.'])
    prog = ctx.prog
    for q in PRODUCERS:
        n = field_provenance(ctx, obs, q, ['RDMs'], FIELDS, exceptions=EXC)
        if n == 0:
            obs.unk('ND-field', q, 'RDMs constructor call', 'no RDMs(...) call found')
    for m in ('subset', 'subsample', 'subsample_pattern', '__getitem__'):
        selection_pairing(ctx, obs, R + 'RDMs.' + m)
    selection_pairing(ctx, obs, R + 'permute_rdms', self_name='rdms')
    from ..rules.containers import selection_consults_descriptor
    for m in ('subset', 'subsample', 'subset_pattern', 'subsample_pattern'):
        selection_consults_descriptor(ctx, obs, R + 'RDMs.' + m)
    subset_pattern_pairing(ctx, obs)
    from .c01 import partial_placement
    partial_placement(ctx, obs)
    keep_index(ctx, obs)
    co_permutation(ctx, obs)
    reorder(ctx, obs)
    inplace_scope(ctx, obs)
    for q in (R + 'concat', R + 'RDMs.subsample_pattern', R + 'RDMs.subset_pattern', R + 'RDMs.sort_by',
              R + 'RDMs.reorder', 'rdm.combine.from_partials', 'io.pandas.rdms_to_df'):
        desc_normalised(ctx, obs, q)
    table_agreement(ctx, obs, R + 'RDMs.to_dict', R + 'rdms_from_dict')
    to_df_fields(ctx, obs)
    append_pairing(ctx, obs)
    merged_descriptors(ctx, obs)


def merged_descriptors(ctx, obs, rule='COVER'):
    """concat / from_partials merge the rdm descriptors of ALL their inputs (`_merged_rdm_descriptors`):
    (1) the names are collected from every input - a loop over a proper slice (`inputs[1:]`) that is the only place where
        `.rdm_descriptors` keys are gathered forgets the names that only the first object has;
    (2) a descriptor that one input lacks leaves a hole at that RDM's position - assigning to the whole entry
        (`merged[name] = None`) inside the fill loop throws away what the earlier RDMs contributed (and the next store fails)."""
    prog = ctx.prog
    q = 'rdm.combine._merged_rdm_descriptors'
    if q not in prog.functions:
        obs.unk(rule, 'rdm.combine.from_partials', 'rdm descriptors of all inputs are merged', '_merged_rdm_descriptors not found')
        return
    f = prog.func(q)
    src = f.pos_params[0] if f.pos_params else None
    # (1)
    gathers = []
    for lp in [x for x in ast.walk(f.node) if isinstance(x, ast.For)]:
        reads = [c for c in ast.walk(lp) if isinstance(c, ast.Attribute) and c.attr == 'rdm_descriptors'
                 and any(isinstance(p_, ast.Call) and isinstance(p_.func, ast.Attribute) and p_.func.attr == 'keys' and p_.func.value is c
                         for p_ in ast.walk(lp))]
        if reads:
            gathers.append(lp)
    con = 'the rdm-descriptor names of every input are collected'
    full = [lp for lp in gathers if isinstance(lp.iter, ast.Name) and lp.iter.id == src]
    sliced = [lp for lp in gathers if isinstance(lp.iter, ast.Subscript) and isinstance(lp.iter.value, ast.Name) and lp.iter.value.id == src
              and isinstance(lp.iter.slice, ast.Slice) and lp.iter.slice.lower is not None]
    first_separately = any(isinstance(c, ast.Attribute) and c.attr == 'rdm_descriptors' and isinstance(c.value, ast.Subscript)
                           and isinstance(c.value.value, ast.Name) and c.value.value.id == src and isinstance(c.value.slice, ast.Constant)
                           and c.value.slice.value == 0 for c in ast.walk(f.node))
    if full or (sliced and first_separately):
        obs.ok(rule, q, con, '', where(prog, f, (full or sliced)[0]))
    elif sliced:
        obs.bad(rule, q, con, f'`for ... in {norm(sliced[0].iter)}` is the only loop that gathers `.rdm_descriptors.keys()`: an rdm descriptor that '
                f'only the first object carries is dropped from the merged object (concat([a, b]) loses a\'s descriptors, concat([a]) all)',
                where(prog, f, sliced[0]))
    else:
        obs.unk(rule, q, con, 'no loop gathering the names recognised', where(prog, f, f.node))
    # (2)
    con2 = 'a descriptor missing in one input leaves a hole only at that RDM'
    bad2 = None
    for lp in [x for x in ast.walk(f.node) if isinstance(x, ast.For)]:
        for st in ast.walk(lp):
            if isinstance(st, ast.Assign) and isinstance(st.targets[0], ast.Subscript) and isinstance(st.value, ast.Constant) and st.value.value is None:
                t = st.targets[0]
                # merged[name] = None  (one subscript level) while other stores in the loop use merged[name][pos]
                if isinstance(t.value, ast.Name) and any(
                        isinstance(o, ast.Assign) and isinstance(o.targets[0], ast.Subscript) and isinstance(o.targets[0].value, ast.Subscript)
                        and isinstance(o.targets[0].value.value, ast.Name) and o.targets[0].value.value.id == t.value.id for o in ast.walk(lp)):
                    bad2 = st
    if bad2 is not None:
        obs.bad(rule, q, con2, f'`{norm(bad2)}` replaces the whole list of that descriptor: the values of the RDMs seen so far are lost and the '
                f'next `[...][pos] = value` raises TypeError', where(prog, f, bad2))
    else:
        obs.ok(rule, q, con2, '', where(prog, f, f.node))


def subset_pattern_pairing(ctx, obs, rule='AXIS-pair'):
    """subset_pattern: the pair mask and the descriptor selection are both computed from (pattern_descriptors[by], value)"""
    prog = ctx.prog
    q = R + 'RDMs.subset_pattern'
    f = prog.func(q)
    r = ctx.dep.result(q)
    inl = Inliner(r, None, ())
    diss = None
    for n in ast.walk(f.node):
        if isinstance(n, ast.Subscript) and isinstance(n.value, ast.Attribute) and n.value.attr == 'dissimilarities' \
                and isinstance(n.slice, ast.Tuple) and len(n.slice.elts) == 2:
            diss = n
    ext = [n for n in ast.walk(f.node) if isinstance(n, ast.Call) and isinstance(n.func, ast.Name)
           and n.func.id in ('extract_dict', 'subset_descriptor') and len(n.args) >= 2]
    if diss is None or not ext:
        obs.unk(rule, q, 'pair mask and descriptor selection', 'not recognised')
        return
    mask = inl.inline(diss.slice.elts[1])
    obs.check(isinstance(diss.slice.elts[0], ast.Slice), rule, q, 'pair mask is applied on the pair axis (axis 1)',
              f'`{norm(diss)}`: mask not on axis 1', '', where(prog, f, diss))

    def reads(e):
        names = {n.id for n in ast.walk(e) if isinstance(n, ast.Name)}
        pd = any(isinstance(n, ast.Attribute) and n.attr == 'pattern_descriptors' for n in ast.walk(e))
        return pd and 'PARAM_value' in names or pd and any('value' in x for x in names)
    obs.check(reads(mask), rule, q, 'pair mask is computed from pattern_descriptors[by] and value',
              f'mask `{ast.unparse(mask)[:100]}` does not derive from the pattern descriptor and the requested values', '',
              where(prog, f, diss))
    tri = any(isinstance(n, ast.Call) and isinstance(n.func, ast.Attribute) and n.func.attr == 'triu_indices'
              for n in ast.walk(mask))
    obs.check(tri, rule, q, 'pair mask follows the upper-triangle pair order (triu_indices)',
              'the mask is not built over np.triu_indices(n_cond, 1): it does not follow the vector form\'s pair order', '',
              where(prog, f, diss))
    both = isinstance(mask, ast.BinOp) and isinstance(mask.op, ast.BitAnd)
    obs.check(both, rule, q, 'a pair is kept only if both of its conditions are selected (&)',
              f'mask `{ast.unparse(mask)[:80]}` is not the conjunction over the two conditions of a pair', '', where(prog, f, diss))
    for e in ext:
        d = e.args[0]
        if isinstance(d, ast.Attribute) and d.attr == 'pattern_descriptors':
            sel = inl.inline(e.args[1])
            obs.check(reads(sel), rule, q, 'pattern descriptors are extracted with the selection computed from (by, value)',
                      f'`{norm(e)[:80]}`: selection `{ast.unparse(sel)[:80]}` not derived from pattern_descriptors[by] and value',
                      '', where(prog, f, e))


def reorder(ctx, obs, rule='REORDER'):
    prog = ctx.prog
    q = R + 'RDMs.reorder'
    f = prog.func(q)
    param = f.pos_params[1] if len(f.pos_params) > 1 else 'new_order'
    ix = [n for n in ast.walk(f.node) if isinstance(n, ast.Call) and isinstance(n.func, ast.Attribute) and n.func.attr == 'ix_']
    if not ix:
        obs.unk(rule, q, 'rows and columns permuted by np.ix_', 'no np.ix_ call')
    for c in ix:
        ok = len(c.args) == 2 and all(isinstance(a, ast.Name) and a.id == param for a in c.args)
        obs.check(ok, rule, q, 'rows and columns are permuted by the same order',
                  f'`{norm(c)}` does not use `{param}` for both rows and columns: values move to other condition pairs', '',
                  where(prog, f, c))
    # every value stored into self.pattern_descriptors[...] is a GATHER by the order (new[i] = old[order[i]]), like the matrices;
    # a scatter (buf[order] = old) applies the inverse permutation and detaches labels from values
    stores = [n for n in ast.walk(f.node) if isinstance(n, ast.Assign) and isinstance(n.targets[0], ast.Subscript)
              and isinstance(n.targets[0].value, ast.Attribute) and n.targets[0].value.attr == 'pattern_descriptors']
    if not stores:
        obs.bad(rule, q, 'every pattern descriptor is permuted by the same order',
                'no store into self.pattern_descriptors[...]: the descriptors keep the old order', where(prog, f, f.node))
    for st in stores:
        kind, why = _perm_application(f.node, st.value, param)
        con = 'every pattern descriptor is permuted by the same order (gathered like rows and columns)'
        if kind == 'gather':
            obs.ok(rule, q, con, why, where(prog, f, st))
        elif kind in ('scatter', 'none'):
            obs.bad(rule, q, con, f'`{norm(st)[:80]}`: {why}', where(prog, f, st))
        else:
            obs.unk(rule, q, con, f'`{norm(st)[:80]}`: {why}', where(prog, f, st))
    # stored back as vectors
    obs.check(any(isinstance(n, ast.Assign) and isinstance(n.targets[0], ast.Attribute) and n.targets[0].attr == 'dissimilarities'
                  for n in ast.walk(f.node)), rule, q, 'the permuted matrices are stored back', 'no assignment to '
              'self.dissimilarities', '', where(prog, f, f.node))
    q2 = R + 'RDMs.sort_by'
    f2 = prog.func(q2)
    r2 = ctx.dep.result(q2)
    cs = [c for c in r2.calls if c.attr == 'reorder']
    obs.check(len(cs) >= 2, rule, q2, 'sort_by delegates the permutation to reorder (alpha and explicit order)',
              f'{len(cs)} reorder calls', '', where(prog, f2, f2.node))
    stable_sorts(ctx, obs, q2)
    # what reaches reorder is a permutation (each position once): an argsort is; positions looked up with `list.index(label)` are
    # FIRST occurrences - with a repeated label the same position is returned for every copy, one condition is duplicated and
    # another one lost.  Accepted: a look-up that consumes positions (pop / remove / a running set of used positions), or a guard
    # that raises when the labels are not unique.
    for c in cs:
        a = c.node.args[0] if c.node.args else None
        if a is None:
            continue
        e = a
        if isinstance(e, ast.Name):
            vals = [d.rhs for i in r2.load_defs.get(id(e), ()) for d in [r2.defs[i]] if d.rhs is not None]
            e = vals[0] if len(vals) == 1 else e
        con = f'`{norm(c.node)[:50]}`: the order handed to reorder lists every position once'
        idx_calls = [x for x in ast.walk(e) if isinstance(x, ast.Call) and isinstance(x.func, ast.Attribute) and x.func.attr == 'index']
        if any(isinstance(x, ast.Call) and _leaf(x.func) in ('argsort', 'lexsort', 'arange', 'permutation') for x in ast.walk(e)) and not idx_calls:
            obs.ok(rule, q2, con, 'a sorting permutation', where(prog, f2, c.node))
        elif idx_calls:
            guard = any(isinstance(x, ast.Call) and _leaf(x.func) in ('set', 'unique') for st in ast.walk(f2.node) if isinstance(st, ast.If)
                        and any(isinstance(y, ast.Raise) for y in ast.walk(st)) for x in ast.walk(st.test)
                        if any(isinstance(z, ast.Call) and _leaf(z.func) == 'len' for z in ast.walk(st.test)))
            if guard:
                obs.ok(rule, q2, con, 'repeated labels are rejected before the look-up', where(prog, f2, c.node))
            else:
                obs.bad(rule, q2, con, f'`{norm(idx_calls[0])[:50]}` returns the FIRST position of a label: when a label occurs more than once '
                        f'every copy maps to the same position - that condition is duplicated (with a zero between its copies) and the '
                        f'others of that label are dropped', where(prog, f2, c.node))
        elif any(isinstance(x, ast.Call) and isinstance(x.func, ast.Attribute) and x.func.attr in ('pop', 'popleft', 'remove') for x in ast.walk(e)):
            obs.ok(rule, q2, con, 'every looked-up position is consumed (pop): copies of a label get successive positions', where(prog, f2, c.node))
        else:
            obs.unk(rule, q2, con, f'construction of `{norm(a)[:50]}` not recognised', where(prog, f2, c.node))


def _leaf(fn):
    return fn.attr if isinstance(fn, ast.Attribute) else (fn.id if isinstance(fn, ast.Name) else '')


def inplace_scope(ctx, obs, rule='PURE-scope'):
    prog, heap = ctx.prog, ctx.heap
    for m in ('reorder', 'sort_by', 'append'):
        q = R + 'RDMs.' + m
        f = prog.func(q)
        s = heap.summary(q)
        me = f.pos_params[0]
        other = sorted({l for (l, kind, key) in s.writes if is_param_loc(l) and param_of(l) != me and key != 'index'})
        obs.check(not other, rule, q, 'the in-place operation writes only the object it is called on',
                  f'{q} also writes {other}', '', where(prog, f, f.node))


def to_df_fields(ctx, obs, rule='TAB'):
    prog = ctx.prog
    q = 'io.pandas.rdms_to_df'
    f = prog.func(q)
    attrs = {n.attr for n in ast.walk(f.node) if isinstance(n, ast.Attribute)}
    for fld in ('dissimilarities', 'rdm_descriptors', 'pattern_descriptors'):
        obs.check(fld in attrs, rule, q, f'data frame export covers {fld}', f'rdms_to_df never reads .{fld}', '',
                  where(prog, f, f.node))
    tri = any(isinstance(n, ast.Call) and isinstance(n.func, ast.Attribute) and n.func.attr == 'triu_indices'
              for n in ast.walk(f.node))
    obs.check(tri, rule, q, 'pattern labels follow the upper-triangle pair order', 'no triu_indices in rdms_to_df', '',
              where(prog, f, f.node))


def append_pairing(ctx, obs, rule='AXIS-pair'):
    prog = ctx.prog
    q = R + 'RDMs.append'
    f = prog.func(q)
    r = ctx.dep.result(q)
    conc = [c for c in r.calls if c.ext and c.ext.endswith('concatenate')]
    app = [c for c in r.calls if any(x.endswith('append_descriptor') for x in c.callees)]
    ok = bool(conc) and bool(app)
    obs.check(ok, rule, q, 'append extends dissimilarities and rdm_descriptors together',
              'append does not extend both the values and the rdm descriptors', '', where(prog, f, f.node))
    for c in conc:
        ax = next((k.value for k in c.node.keywords if k.arg == 'axis'), None)
        obs.check(isinstance(ax, ast.Constant) and ax.value == 0, rule, q, 'appended RDMs are stacked on the RDM axis',
                  f'`{norm(c.node)[:80]}` does not concatenate on axis 0', '', where(prog, f, c.node))
    for c in app:
        a = c.node.args
        ok2 = len(a) == 2 and all(isinstance(x, ast.Attribute) and x.attr == 'rdm_descriptors' for x in a)
        obs.check(ok2, rule, q, 'rdm descriptors of the appended RDMs are appended to the rdm descriptors',
                  f'`{norm(c.node)[:80]}`', '', where(prog, f, c.node))


def _perm_application(fnode, value: ast.expr, order: str, depth=0):
    """how `value` applies the permutation held in variable `order`: 'gather' (old[order] / [old[i] for i in order] / take),
    'scatter' (a buffer filled through buf[order] = old), else 'unknown'"""
    def is_order(x):
        if isinstance(x, ast.Name) and x.id == order:
            return True
        return isinstance(x, ast.Call) and x.args and is_order(x.args[0]) and \
            (getattr(x.func, 'attr', None) or getattr(x.func, 'id', '')) in ('asarray', 'array', 'list', 'tuple')
    v = value
    if isinstance(v, ast.Call) and (getattr(v.func, 'attr', None) or getattr(v.func, 'id', '')) in ('array', 'asarray', 'list', 'tuple') and v.args:
        return _perm_application(fnode, v.args[0], order, depth)
    if isinstance(v, ast.ListComp) and len(v.generators) == 1 and is_order(v.generators[0].iter) \
            and isinstance(v.generators[0].target, ast.Name) and isinstance(v.elt, ast.Subscript) \
            and isinstance(v.elt.slice, ast.Name) and v.elt.slice.id == v.generators[0].target.id:
        return 'gather', 'list comprehension over the order'
    if isinstance(v, ast.Subscript) and is_order(v.slice):
        return 'gather', 'indexed by the order'
    if isinstance(v, ast.Call) and (getattr(v.func, 'attr', None) or '') == 'take' and any(is_order(a) for a in v.args):
        return 'gather', 'np.take by the order'
    if isinstance(v, ast.Name) and depth < 3:
        scat = [n for n in ast.walk(fnode) if isinstance(n, ast.Assign) and isinstance(n.targets[0], ast.Subscript)
                and isinstance(n.targets[0].value, ast.Name) and n.targets[0].value.id == v.id and is_order(n.targets[0].slice)]
        if scat:
            return 'scatter', (f'`{norm(scat[0])[:60]}` writes old entry i to position {order}[i] (the inverse permutation), while rows '
                               f'and columns take entry {order}[i] to position i')
        defs = [n for n in ast.walk(fnode) if isinstance(n, ast.Assign) and isinstance(n.targets[0], ast.Name) and n.targets[0].id == v.id]
        kinds = {_perm_application(fnode, d.value, order, depth + 1)[0] for d in defs}
        if kinds == {'gather'}:
            return 'gather', 'through a local'
        if (defs and kinds == {'none'}) or (not defs and v.id != order):
            return 'none', f'the stored value does not involve `{order}`: the descriptor keeps the old order'
        return 'unknown', 'value is a local that is not recognisably gathered by the order'
    if not any(isinstance(n, ast.Name) and n.id == order for n in ast.walk(v)) and not isinstance(v, ast.Name):
        return 'none', f'the stored value does not involve `{order}`: the descriptor keeps the old order'
    return 'unknown', 'not a recognised way of applying the order'


def keep_index(ctx, obs, rule='KEEP-INDEX'):
    """The value-returning selection operations hand the constructor descriptor dicts extracted from the source.  Bootstrap copies of
    one RDM / condition are recognised by their shared `index` value (fold generators group by it), so after the extraction no
    entry of such a dict may be overwritten with a regenerated value (a fresh running index splits the copies of a group between
    training and test).  Only the in-place API (append, sort_by with reindex) and the constructor may renumber."""
    prog = ctx.prog
    n = 0
    for m in ('subset', 'subsample', 'subset_pattern', 'subsample_pattern', '__getitem__'):
        q = R + 'RDMs.' + m
        if q not in prog.functions:
            continue
        f = prog.func(q)
        local_dicts = {s.targets[0].id for s in ast.walk(f.node) if isinstance(s, ast.Assign) and isinstance(s.targets[0], ast.Name)
                       and 'descriptors' in s.targets[0].id}
        bad = None
        for s in ast.walk(f.node):
            if isinstance(s, ast.Assign) and isinstance(s.targets[0], ast.Subscript) and isinstance(s.targets[0].value, ast.Name) \
                    and s.targets[0].value.id in local_dicts and isinstance(s.targets[0].slice, ast.Constant):
                v = s.value
                regenerated = any(isinstance(c, ast.Call) and getattr(c.func, 'id', getattr(c.func, 'attr', '')) in ('range', 'arange')
                                  for c in ast.walk(v))
                if regenerated:
                    bad = s
        n += 1
        obs.check(bad is None, rule, q, 'descriptor entries of the result are the selected entries of the source (no renumbering)',
                  f'`{norm(bad)[:80] if bad is not None else ""}` replaces the extracted `{bad.targets[0].slice.value if bad is not None else ""}` '
                  f'values by a running number: repeated (bootstrap) copies of one item no longer share a value and are split across folds',
                  '', where(prog, f, bad if bad is not None else f.node))
    return n


def co_permutation(ctx, obs, rule='COPERM'):
    """permute_rdms: matrices rows, columns and every label array are gathered with ONE permutation.  The permutation parameter and
    everything derived from it is typed as a word of the free group (p, p^-1 = arange[argsort(p)], ...); all gathers whose index is
    such a word must use the same word - mixing p and p^-1 leaves the round trip permute / inverse_permute intact but attaches
    every label to another condition's values whenever p is not an involution."""
    from ..rules import order as _order
    prog = ctx.prog
    q = R + 'permute_rdms'
    f = prog.func(q)
    pname = f.pos_params[1] if len(f.pos_params) > 1 else 'p'
    r = ctx.dep.result(q)
    by_node = {id(c.node): c for c in r.calls}

    def resolve(call):
        cr = by_node.get(id(call))
        return cr.callees[0] if cr is not None and len(cr.callees) == 1 else None
    a = _order.OrderAnalysis(prog, f, {}, resolve, seed={pname: _order.T('Perm', ((pname, 1),))})
    # the `if p is None: p = np.random.permutation(...)` default must not erase the seed: re-seed after every rebinding of p
    orig_bind = a.bind

    def bind(tgt, t, env):
        if isinstance(tgt, ast.Name) and tgt.id == pname:
            env[pname] = _order.T('Perm', ((pname, 1),))
            return
        orig_bind(tgt, t, env)
    a.bind = bind
    a.run()
    words = {}
    for w, node in a.perm_gathers:
        words.setdefault(w, []).append(node)
    # extractor calls  subset_descriptor(d, <perm>)
    for c in ast.walk(f.node):
        if isinstance(c, ast.Call) and getattr(c.func, 'id', getattr(c.func, 'attr', '')) in ('subset_descriptor', 'extract_dict') \
                and len(c.args) >= 2 and isinstance(c.args[1], ast.Name):
            t = a.final_env.get(c.args[1].id)
            if t is not None and t.kind == 'Perm':
                words.setdefault(t.o, []).append(c)
    # scatters: buf[.., perm, ..] = old / buf[np.ix_(.., perm, perm)] = old put old entry i at position perm[i] - as a gather that is
    # the INVERSE permutation
    for st in ast.walk(f.node):
        if isinstance(st, ast.Assign) and isinstance(st.targets[0], ast.Subscript):
            sl = st.targets[0].slice
            items = list(sl.elts) if isinstance(sl, ast.Tuple) else [sl]
            names = []
            for it in items:
                if isinstance(it, ast.Call) and getattr(it.func, 'attr', getattr(it.func, 'id', '')) == 'ix_':
                    names += [x for x in it.args if isinstance(x, ast.Name)]
                elif isinstance(it, ast.Name):
                    names.append(it)
            for nm in names:
                t = a.final_env.get(nm.id)
                if t is not None and t.kind == 'Perm' and t.o != _order.SORTED and not (isinstance(st.value, ast.Call) and getattr(
                        st.value.func, 'attr', getattr(st.value.func, 'id', '')) == 'arange'):
                    words.setdefault(_order.winv(t.o), []).append(st)
                    break
    con = 'rows, columns and all labels are gathered with one and the same permutation'
    if not words:
        obs.unk(rule, q, con, 'no gather by the permutation recognised', where(prog, f, f.node))
        return
    if len(words) == 1:
        obs.ok(rule, q, con, f'{sum(len(v) for v in words.values())} gathers by {_order.wname(next(iter(words)))}', where(prog, f, f.node))
    else:
        major = max(words, key=lambda w: len(words[w]))
        for w, nodes in words.items():
            if w != major:
                obs.bad(rule, q, con, f'`{norm(nodes[0])[:70]}` gathers with {_order.wname(w)} while {len(words[major])} other gathers use '
                        f'{_order.wname(major)}: labels and values are permuted differently', where(prog, f, nodes[0]))
