"""C13 - Missing dissimilarities are ignored consistently or rejected, never misaligned (structural clauses)."""
from __future__ import annotations
import ast

from ..model import AnalysisError
from ..rules.common import where, norm, Inliner, mentions, rename
from ..rules import nant

EXPLANATION = (
    'Static necessary-condition analysis of the NaN handling in rdm/compare.py, util/rdm_utils.py, rdm/combine.py, '
    'RDMs.mean and the pooling helpers: (MASK) in the three input parsers the two returned vectors are selected by the same '
    'mask or by two masks whose element-wise equality is tested on a path that raises - comparing shapes or counts is not '
    'an equality test; (NANT) NaN-bearing arrays reach only nan-aware reducers or are masked by a mask computed from the '
    'same array (_mean, _ss, _scale, _rescale, pool_rdm, _nan_mean, _nan_rank_data); (REJECT) the 2-D sigma_k arm with '
    'missing values raises; (WEIGHT) a per-RDM weight vector is expanded along the RDM axis before it is multiplied with '
    'the (RDM, pair) array, and weights of missing entries are masked; (VBLOCK) the whitened slow path cuts rows and '
    'columns of V with one and the same mask. Equality with the entry-deleted computation and convergence of rescale are '
    'NOT decided.'
    ' Also: (VBLOCK) the raw get_v(..) never reaches a linear solve uncut (missing entries are deleted from V, not zero-filled).')
ASSUMPTIONS = ['RDMs of one stack share their NaN pattern (first row is representative), as the parsers assume',
               'numpy nan* reducers ignore NaN']
FLOOR = 20
RULE_FLOORS = {'MASK': 3, 'NANT': 6}

PARSERS = [('rdm.compare._parse_input_rdms', ('rdm1', 'rdm2')),
           ('util.rdm_utils._parse_nan_vectors', ('vector1', 'vector2'))]


def _leaf(fn):
    return fn.attr if isinstance(fn, ast.Attribute) else (fn.id if isinstance(fn, ast.Name) else '')


def run(ctx, obs):
    from ..rules import sweeps
    sweeps.run(ctx, obs, 'C13')
    for q, params in PARSERS:
        mask_alignment(ctx, obs, q, params)
        row_coverage(ctx, obs, q, params)
    wrapper(ctx, obs)
    for q, tp in (('rdm.combine._mean', ('vectors',)), ('rdm.combine._ss', ('vectors',)), ('rdm.combine._scale', ('vectors',)),
                  ('rdm.combine._rescale', ('dissim',))):
        nant.check_function(ctx, obs, q, taint_params=tp, aware_helpers=('_mean', '_ss', '_scale'))
    for q in ('util.inference_util.pool_rdm', 'util.pooling.pool_rdm'):
        nant.check_function(ctx, obs, q, taint_sources=('get_vectors',))
        mod = q.rsplit('.', 1)[0]
        for h in ('_nan_mean', '_nan_rank_data'):
            nant.check_function(ctx, obs, mod + '.' + h, taint_params=('rdm_vector',))
    reject_arm(ctx, obs)
    weights(ctx, obs)
    vblock(ctx, obs)
    v_restricted(ctx, obs)
    rescale_mask(ctx, obs)


def _isnan_of(e, src):
    return any(isinstance(n, ast.Call) and _leaf(n.func) in ('isnan', 'isfinite') and mentions(n, src) for n in ast.walk(e))


def mask_alignment(ctx, obs, q, params, rule='MASK'):
    prog = ctx.prog
    f = prog.func(q)
    r = ctx.dep.result(q)
    inl = Inliner(r, None, params)
    rets = [n for n, _, _ in r.returns if n is not None and isinstance(n.value, ast.Tuple) and len(n.value.elts) >= 2]
    if not rets:
        raise AnalysisError(f'{q}: no (vector1, vector2, mask) return')
    for node in rets:
        v1, v2 = inl.inline(node.value.elts[0]), inl.inline(node.value.elts[1])
        m1, m2 = _mask_of(v1), _mask_of(v2)
        if m1 is None or m2 is None:
            obs.unk(rule, q, 'both returned vectors are NaN-masked', f'masks not recognised: {ast.unparse(v1)[:50]} / {ast.unparse(v2)[:50]}')
            continue
        own1 = _isnan_of(m1, 'SRC0') and not _isnan_of(m1, 'SRC1')
        own2 = _isnan_of(m2, 'SRC1') and not _isnan_of(m2, 'SRC0')
        same = ast.dump(m1) == ast.dump(m2)
        if same:
            obs.ok(rule, q, 'both vectors are selected by one and the same mask', ast.unparse(m1)[:80], where(prog, f, node))
            continue
        # different masks: an element-wise equality test of the two masks must guard a raise before the return
        guard = _equality_guard(f, inl)
        obs.check(guard is not None, rule, q,
                  'the NaN masks of the two inputs are compared element-wise on a path that raises',
                  f'vector 1 is masked by `{ast.unparse(m1)[:60]}` and vector 2 by `{ast.unparse(m2)[:60]}`; the only '
                  f'consistency checks compare shapes / counts, so inputs whose NaNs sit at different positions are '
                  f'compared entry-shifted instead of being rejected', f'guard: {guard}', where(prog, f, node))


def _mask_of(e):
    """x[mask].reshape(...) / x[mask] / x[:, mask] -> mask expression"""
    for n in ast.walk(e):
        if isinstance(n, ast.Subscript):
            items = list(n.slice.elts) if isinstance(n.slice, ast.Tuple) else [n.slice]
            for it in items:
                if any(isinstance(x, ast.Call) and _leaf(x.func) in ('isnan', 'isfinite') for x in ast.walk(it)):
                    return it
    return None


def _equality_guard(f, inl):
    for s in ast.walk(f.node):
        if isinstance(s, ast.If) and any(isinstance(x, ast.Raise) for x in s.body):
            t = inl.inline(s.test)
            # a position check that only runs when some other condition on the inputs holds is no check for the inputs that fail
            # that condition: stacks with different numbers of RDMs are legal (compare() returns an n1 x n2 matrix), so a conjunct
            # comparing the full mask shapes switches the check off for them
            if isinstance(t, ast.BoolOp) and isinstance(t.op, ast.And) and any(
                    isinstance(c, ast.Compare) and any(isinstance(x, ast.Attribute) and x.attr == 'shape' and not _is_indexed(c, x)
                                                       for x in ast.walk(c)) for c in t.values):
                continue
            for n in ast.walk(t):
                cmp_args = None
                if isinstance(n, ast.Call) and _leaf(n.func) in ('array_equal', 'array_equiv', 'allclose') and len(n.args) >= 2:
                    cmp_args = n.args[:2]
                elif isinstance(n, ast.Compare) and len(n.comparators) == 1 and isinstance(n.ops[0], (ast.Eq, ast.NotEq)):
                    cmp_args = [n.left, n.comparators[0]]
                if not cmp_args:
                    continue
                a, b = cmp_args
                if any(isinstance(x, ast.Attribute) and x.attr in ('shape', 'size') for y in (a, b) for x in _walk_values(y)):
                    continue
                if any(isinstance(x, ast.Call) and _leaf(x.func) in ('sum', 'count_nonzero', 'len') for y in (a, b) for x in _walk_values(y)):
                    continue
                if (_isnan_of(a, 'SRC0') and _isnan_of(b, 'SRC1')) or (_isnan_of(a, 'SRC1') and _isnan_of(b, 'SRC0')):
                    return ast.unparse(n)[:90]
    return None


def _walk_values(e):
    """like ast.walk, but does not descend into the TEST of a conditional expression: `x.reshape(1, -1) if len(x.shape) == 1 else x`
    is a value that happens to be chosen by a shape test, not a shape"""
    todo = [e]
    while todo:
        n = todo.pop()
        yield n
        for fld, ch in ast.iter_fields(n):
            if isinstance(n, ast.IfExp) and fld == 'test':
                continue
            if isinstance(ch, list):
                todo += [c for c in ch if isinstance(c, ast.AST)]
            elif isinstance(ch, ast.AST):
                todo.append(ch)


def _is_indexed(root, attr_node) -> bool:
    """x.shape[k] (one axis) rather than the whole x.shape"""
    return any(isinstance(n, ast.Subscript) and n.value is attr_node for n in ast.walk(root))


def wrapper(ctx, obs, rule='MASK'):
    """util.rdm_utils._parse_input_rdms delegates to _parse_nan_vectors with (vectors of rdm1, vectors of rdm2)"""
    prog = ctx.prog
    q = 'util.rdm_utils._parse_input_rdms'
    f = prog.func(q)
    r = ctx.dep.result(q)
    inl = Inliner(r, None, ('rdm1', 'rdm2'))
    cs = [c for c in r.calls if any(x.endswith('_parse_nan_vectors') for x in c.callees)]
    obs.check(len(cs) == 1, rule, q, 'delegates to _parse_nan_vectors', f'{len(cs)} calls', '', where(prog, f, f.node))
    for c in cs:
        a = [inl.inline(x) for x in c.node.args[:2]]
        ok = len(a) == 2 and mentions(a[0], 'SRC0') and not mentions(a[0], 'SRC1') and mentions(a[1], 'SRC1') \
            and not mentions(a[1], 'SRC0')
        obs.check(ok, rule, q, 'passes the vectors of rdm1 and rdm2 in order', f'`{norm(c.node)}`', '', where(prog, f, c.node))


def reject_arm(ctx, obs, rule='REJECT'):
    prog = ctx.prog
    q = 'rdm.compare._cov_weighting'
    f = prog.func(q)
    found = False
    for s in ast.walk(f.node):
        if isinstance(s, ast.If) and any(isinstance(n, ast.Call) and _leaf(n.func) == 'all' for n in ast.walk(s.test)) \
                and any(isinstance(n, ast.Name) and n.id == 'nan_idx' for n in ast.walk(s.test)):
            found = True
            ok = False
            for n in ast.walk(ast.Module(body=s.orelse, type_ignores=[])):
                if isinstance(n, ast.If) and isinstance(n.test, ast.Compare) and isinstance(n.test.left, ast.Attribute) \
                        and n.test.left.attr == 'ndim' and isinstance(n.test.comparators[0], ast.Constant) \
                        and n.test.comparators[0].value == 2 and any(isinstance(x, ast.Raise) for x in n.body):
                    ok = True
            obs.check(ok, rule, q, 'a 2-D sigma_k together with missing values is rejected',
                      'the missing-value arm has no `sigma_k.ndim == 2` case that raises: a matrix sigma_k would be silently '
                      'ignored or misapplied when dissimilarities are missing', '', where(prog, f, s))
    if not found:
        obs.unk(rule, q, 'missing-value arm', 'no `if np.all(nan_idx)` split found')


def weights(ctx, obs, rule='WEIGHT'):
    prog = ctx.prog
    q = 'rdm.rdms.RDMs.mean'
    f = prog.func(q)
    r = ctx.dep.result(q)
    inl = Inliner(r, None, ('self', 'weights'))
    cs = [c for c in r.calls if any(x.endswith('combine._mean') for x in c.callees)]
    if not cs:
        raise AnalysisError('RDMs.mean: no call to _mean')
    for c in cs:
        if len(c.node.args) < 2:
            obs.bad(rule, q, 'weights are handed to _mean', f'`{norm(c.node)}` passes no weights', where(prog, f, c.node))
            continue
        e = inl.inline(c.node.args[1])
        reads_desc = any(isinstance(n, ast.Attribute) and n.attr == 'rdm_descriptors' for n in ast.walk(e))
        obs.check(reads_desc, rule, q, 'a descriptor name selects the weights from rdm_descriptors',
                  'weights argument never reads rdm_descriptors', '', where(prog, f, c.node))
        expands = any((isinstance(n, ast.Call) and _leaf(n.func) in ('tile', 'repeat', 'broadcast_to', 'expand_dims', 'outer'))
                      or (isinstance(n, ast.Call) and _leaf(n.func) == 'reshape'
                          and any(isinstance(a, ast.Tuple) or isinstance(a, ast.UnaryOp) or isinstance(a, ast.Constant) for a in n.args))
                      or (isinstance(n, ast.Subscript) and isinstance(n.slice, ast.Tuple)
                          and any(isinstance(x, ast.Constant) and x.value is None for x in n.slice.elts))
                      for n in ast.walk(e))
        obs.check(expands, rule, q, 'per-RDM weights are expanded along the RDM axis before weighting the (RDM, pair) array',
                  f'weights `{ast.unparse(e)[:90]}` (one value per RDM when read from rdm_descriptors) are multiplied with the '
                  f'(n_rdm, n_pair) array as they are: numpy aligns them with the pair axis (broadcast error / wrong pairing)',
                  '', where(prog, f, c.node))
        # on every path on which weights are given (the `weights is not None` arm forced), the weights that reach _mean carry the
        # NaN mask: each alternative reaching definition is inspected, not just one of them
        wparam = f.pos_params[1] if len(f.pos_params) > 1 else 'weights'
        given = [n for n in ast.walk(f.node) if isinstance(n, ast.If) and isinstance(n.test, ast.Compare) and len(n.test.ops) == 1
                 and isinstance(n.test.ops[0], ast.IsNot) and isinstance(n.test.left, ast.Name) and n.test.left.id == wparam
                 and isinstance(n.test.comparators[0], ast.Constant) and n.test.comparators[0].value is None]
        if given:
            rf = ctx.dep.analyze(q, force={id(g): 'body' for g in given})
            ef = Inliner(rf, None, ('self', wparam)).inline(c.node.args[1])
            alts = _phi_alternatives(ef)
        else:
            alts = [e]
        unmasked = [a for a in alts if not any(isinstance(n, ast.Call) and _leaf(n.func) in ('isnan', 'isfinite') for n in ast.walk(a))]
        masked = not unmasked
        obs.check(masked, rule, q, 'weights of missing entries are masked out of the weight sum',
                  'weights are not masked by the NaN pattern of the dissimilarities' +
                  (f' when they are `{ast.unparse(unmasked[0])[:70]}`' if unmasked else '') + ': the weighted mean divides by '
                  'weights of entries that are missing', '', where(prog, f, c.node))
    # _mean itself: numerator and denominator are nan-aware sums over the RDM axis
    q2 = 'rdm.combine._mean'
    f2 = prog.func(q2)
    sums = [c for c in ast.walk(f2.node) if isinstance(c, ast.Call) and _leaf(c.func) in ('nansum', 'sum')]
    for c in sums:
        ax = next((k.value for k in c.keywords if k.arg == 'axis'), None)
        obs.check(_leaf(c.func) == 'nansum' and isinstance(ax, ast.Constant) and ax.value == 0, rule, q2,
                  'weighted sum and weight sum are nan-aware sums over the RDM axis', f'`{norm(c)}`', '', where(prog, f2, c))
    for n in ast.walk(f2.node):
        if isinstance(n, ast.If) and isinstance(n.test, ast.Compare) and isinstance(n.test.left, ast.Name) \
                and n.test.left.id == 'weights':
            mentions_mask = any(isinstance(y, ast.Call) and _leaf(y.func) in ('isnan', 'isfinite') for y in ast.walk(n))
            idiom = nan_mask_idiom(n)
            con = 'default weights are NaN where the dissimilarity is missing'
            if idiom:
                obs.ok(rule, q2, con, idiom, where(prog, f2, n))
            elif not mentions_mask:
                obs.bad(rule, q2, con, 'default weights are not masked by isnan(vectors)', where(prog, f2, n))
            else:
                obs.unk(rule, q2, con, 'an isnan / isfinite mask is computed but the masking idiom is not recognised', where(prog, f2, n))


def vblock(ctx, obs, rule='VBLOCK'):
    prog = ctx.prog
    q = 'rdm.compare._cosine_cov_weighted_slow'
    f = prog.func(q)
    n_found = 0
    for n in ast.walk(f.node):
        if isinstance(n, ast.Subscript) and isinstance(n.value, ast.Subscript) and isinstance(n.value.value, ast.Name) \
                and n.value.value.id == 'v':
            n_found += 1
            rows = n.value.slice
            cols = n.slice.elts[-1] if isinstance(n.slice, ast.Tuple) else None
            ok = cols is not None and ast.dump(rows) == ast.dump(cols) and isinstance(rows, ast.Name) and rows.id == 'nan_idx'
            obs.check(ok, rule, q, 'rows and columns of V are cut with the same mask (the mask that produced the vectors)',
                      f'`{norm(n)}` cuts rows by `{norm(rows)}` and columns by `{norm(cols) if cols is not None else None}`', '',
                      where(prog, f, n))
    if n_found == 0:
        obs.unk(rule, q, 'V sub-block', 'no v[mask][:, mask] expression')
    for q2 in ('model.fitter.fit_regress', 'model.fitter.fit_regress_nn', 'util.pooling.pool_rdm'):
        f2 = prog.func(q2)
        for n in ast.walk(f2.node):
            if isinstance(n, ast.Subscript) and isinstance(n.value, ast.Subscript) and isinstance(n.value.value, ast.Name) \
                    and n.value.value.id == 'v':
                rows = n.value.slice
                cols = n.slice.elts[-1] if isinstance(n.slice, ast.Tuple) else None
                obs.check(cols is not None and ast.dump(rows) == ast.dump(cols), rule, q2,
                          'rows and columns of V are cut with the same mask', f'`{norm(n)}`', '', where(prog, f2, n))


def v_restricted(ctx, obs, rule='VBLOCK'):
    """whitened pooling / fitting on RDMs with missing entries works on V with the rows and columns of the missing entries DELETED.
    Every use of the matrix returned by get_v as the operator of a linear solve (cg / solve / spsolve / lstsq / inv) must see a
    definition of it that was cut by a mask (`v = v[ok][:, ok]`); the raw get_v(..) result reaching the solve means missing
    entries are treated as measured zeros (zero-filling) instead of being left out."""
    prog = ctx.prog
    for q in ('util.pooling.pool_rdm', 'util.inference_util.pool_rdm', 'model.fitter.fit_regress', 'model.fitter.fit_regress_nn'):
        if not prog.has_func(q):
            continue
        f = prog.func(q)
        r = ctx.dep.result(q)
        raw_defs = {i for i, d in r.defs.items() if d.kind == 'assign' and isinstance(d.rhs, ast.Call) and _leaf(d.rhs.func) == 'get_v'}
        if not raw_defs:
            continue
        for c in ast.walk(f.node):
            if not (isinstance(c, ast.Call) and _leaf(c.func) in ('cg', 'solve', 'spsolve', 'lstsq', 'inv', 'gmres', 'minres') and c.args
                    and isinstance(c.args[0], ast.Name)):
                continue
            ids = r.load_defs.get(id(c.args[0]), frozenset())
            if not ids:
                continue
            hit = [i for i in ids if i in raw_defs]
            con = f'the V handed to `{norm(c)[:50]}` has the rows and columns of missing entries deleted'
            if hit:
                d = r.defs[hit[0]]
                obs.bad(rule, q, con, f'`{norm(d.node)[:60]}` reaches the solve uncut: the entries missing from the RDMs stay in V (as if they '
                        f'had been measured), so the whitened norms differ from those of the RDMs with these entries deleted',
                        where(prog, f, c))
            else:
                obs.ok(rule, q, con, '', where(prog, f, c))


def rescale_mask(ctx, obs, rule='MASK'):
    """_rescale: weights and tiled estimates are masked by isnan(dissim) - the array they are combined with"""
    prog = ctx.prog
    q = 'rdm.combine._rescale'
    f = prog.func(q)
    n = 0
    r = ctx.dep.result(q)
    inl = Inliner(r, None, (f.pos_params[0],))
    for s in ast.walk(f.node):
        if isinstance(s, ast.Assign) and isinstance(s.targets[0], ast.Subscript):
            m = s.targets[0].slice
            if any(isinstance(x, ast.Call) and _leaf(x.func) == 'isnan' for x in ast.walk(m)):
                n += 1
                arg = [x.args[0] for x in ast.walk(m) if isinstance(x, ast.Call) and _leaf(x.func) == 'isnan'][0]
                # the masked array is the input itself or a plain alias of it (reaching definitions, no computation in between)
                e = inl.inline(arg)
                alts = _phi_alternatives(e)
                con = f'`{norm(s.targets[0].value)}` is masked by the NaN pattern of the input dissimilarities'
                if all(isinstance(a, ast.Name) and a.id == 'SRC0' for a in alts):
                    obs.ok(rule, q, con, '', where(prog, f, s))
                elif any(not mentions(a, 'SRC0') for a in alts):
                    obs.bad(rule, q, con, f'`{norm(s)}` masks by `{norm(arg)}`, which does not derive from the input dissimilarities',
                            where(prog, f, s))
                else:
                    obs.unk(rule, q, con, f'`{norm(s)}` masks by `{norm(arg)}` = `{ast.unparse(e)[:60]}`', where(prog, f, s))
    if n < 2:
        obs.unk(rule, q, 'NaN masks in _rescale', f'{n} masks found')


def _phi_alternatives(e: ast.expr, limit=16):
    """expand PHI(...) alternatives (joins of several reaching definitions) at the top of an inlined expression"""
    if isinstance(e, ast.Call) and isinstance(e.func, ast.Name) and e.func.id == 'PHI':
        out = []
        for a in e.args:
            out += _phi_alternatives(a, limit)
        return out[:limit]
    return [e]


def row_coverage(ctx, obs, q, params, rule='MASK-rows'):
    """The parsers reshape `x[~isnan(x)]` to (n_rdm, -1) and return one mask for the whole comparison, which is only meaningful if
    EVERY row of both stacks lacks the same entries.  So for each input some raising guard must test the input's full 2-D mask
    (not just row 0) element-wise against the reference mask; a test of row 0 only lets a later RDM with other missing entries
    (same count) through, compared entry-shifted."""
    prog = ctx.prog
    f = prog.func(q)
    r = ctx.dep.result(q)
    inl = Inliner(r, None, params)
    covered = {0: None, 1: None}
    for s in ast.walk(f.node):
        if not (isinstance(s, ast.If) and any(isinstance(x, ast.Raise) for x in s.body)):
            continue
        t = inl.inline(s.test)
        if isinstance(t, ast.BoolOp) and isinstance(t.op, ast.And) and any(
                isinstance(c, ast.Compare) and any(isinstance(x, ast.Attribute) and x.attr == 'shape' and not _is_indexed(c, x)
                                                   for x in ast.walk(c)) for c in t.values):
            continue
        for n in ast.walk(t):
            args = None
            if isinstance(n, ast.Call) and _leaf(n.func) in ('array_equal', 'array_equiv') and len(n.args) >= 2:
                args = n.args[:2]
            elif isinstance(n, ast.Compare) and len(n.comparators) == 1 and isinstance(n.ops[0], (ast.Eq, ast.NotEq)):
                args = [n.left, n.comparators[0]]
            if not args:
                continue
            if any(isinstance(x, ast.Attribute) and x.attr in ('shape', 'size') for y in args for x in _walk_values(y)):
                continue
            for k in (0, 1):
                src = f'SRC{k}'
                for y in args:
                    if _full_mask_of(y, src):
                        covered[k] = ast.unparse(n)[:80]
    for k in (0, 1):
        pname = params[k] if k < len(params) else f'input {k + 1}'
        obs.check(covered[k] is not None, rule, q, f'every RDM of `{pname}` is checked for missing entries at the reference positions',
                  f'no raising guard compares the full mask of `{pname}` (only row 0 / counts are tested): a stack whose RDMs miss '
                  f'different entries (equally many) is reshaped and compared entry-shifted', f'guard `{covered[k]}`', where(prog, f, f.node))


def _full_mask_of(e, src) -> bool:
    """e contains isnan/isfinite applied to the whole array `src` (not to a constant row of it)"""
    for n in ast.walk(e):
        if isinstance(n, ast.Call) and _leaf(n.func) in ('isnan', 'isfinite') and n.args:
            a = n.args[0]
            mentions_src = any(isinstance(x, ast.Name) and x.id == src for x in ast.walk(a))
            row_inside = any(isinstance(x, ast.Subscript) and isinstance(x.slice, ast.Constant) and isinstance(x.slice.value, int)
                             for x in ast.walk(a))
            if mentions_src and not row_inside:
                # the mask itself must not be reduced to one row afterwards: x = isnan(src)[0]
                if not any(isinstance(p, ast.Subscript) and p.value is n and isinstance(p.slice, ast.Constant) for p in ast.walk(e)) \
                        and not _row_of_unary(e, n) and not _reduced_over_rows(e, n):
                    return True
    return False


def _reduced_over_rows(e, call) -> bool:
    """np.all(~isnan(src), axis=0) / mask.any(0) / .sum(axis=0): the per-RDM masks are merged into one before the comparison, so
    two RDMs that miss different entries are no longer told apart"""
    for p in ast.walk(e):
        if isinstance(p, ast.Call) and _leaf(p.func) in ('all', 'any', 'sum', 'prod', 'min', 'max', 'logical_and', 'logical_or'):
            is_np = isinstance(p.func, ast.Attribute) and isinstance(p.func.value, ast.Name) and p.func.value.id in ('np', 'numpy')
            operand = (p.args[0] if p.args else None) if is_np else (p.func.value if isinstance(p.func, ast.Attribute) else None)
            if operand is None or not any(x is call for x in ast.walk(operand)):
                continue
            ax = next((k.value for k in p.keywords if k.arg == 'axis'), None)
            if ax is None:
                rest = p.args[1:] if is_np else p.args
                ax = rest[0] if rest else None
            if isinstance(ax, ast.Constant) and ax.value == 0:
                return True
    return False


def _row_of_unary(e, call) -> bool:
    """(~isnan(src))[0]"""
    for p in ast.walk(e):
        if isinstance(p, ast.Subscript) and isinstance(p.slice, ast.Constant) and isinstance(p.value, ast.UnaryOp) and p.value.operand is call:
            return True
    return False


def nan_mask_idiom(root) -> str:
    """one of the ways of writing NaN into an array where a missing-entry mask holds:
       w[mask] = nan ; np.putmask(w, mask, nan) ; np.place(w, mask, nan) ; w = np.where(mask, nan, w) ; np.copyto(w, nan, where=mask)"""
    def is_mask(e):
        return any(isinstance(y, ast.Call) and _leaf(y.func) in ('isnan', 'isfinite') for y in ast.walk(e)) or isinstance(e, ast.Name)

    def is_nan(e):
        return (isinstance(e, ast.Attribute) and e.attr == 'nan') or (isinstance(e, ast.Name) and e.id.lower() == 'nan')
    for x in ast.walk(root):
        if isinstance(x, ast.Assign) and isinstance(x.targets[0], ast.Subscript) and is_nan(x.value) and is_mask(x.targets[0].slice) \
                and any(isinstance(y, ast.Call) and _leaf(y.func) in ('isnan', 'isfinite') for y in ast.walk(root)):
            return 'w[mask] = nan'
        if isinstance(x, ast.Call) and _leaf(x.func) in ('putmask', 'place') and len(x.args) == 3 and is_nan(x.args[2]) and is_mask(x.args[1]):
            return f'np.{_leaf(x.func)}(w, mask, nan)'
        if isinstance(x, ast.Call) and _leaf(x.func) == 'where' and len(x.args) == 3 and is_mask(x.args[0]) \
                and (is_nan(x.args[1]) or is_nan(x.args[2])):
            return 'np.where(mask, nan, w)'
        if isinstance(x, ast.Call) and _leaf(x.func) == 'copyto' and any(k.arg == 'where' for k in x.keywords) and len(x.args) >= 2 \
                and is_nan(x.args[1]):
            return 'np.copyto(w, nan, where=mask)'
    return ''
