"""C14 - Noise covariance is the pooled residual covariance; precision is its inverse (structural clauses)."""
from __future__ import annotations
import ast

from ..model import AnalysisError
from ..heap import is_param_loc
from ..flow import depends_on_param
from ..rules.common import where, norm, par_chain, fwd_list, fwd_same_name, bound_args, calls_to, Inliner
from ..rules import poly
from .c03 import _keys

EXPLANATION = (
    'Static necessary-condition analysis of data/noise.py: (POLY) wherever a matrix is centred and a dof defined, dof is '
    'identically (#rows entering the covariance) - (#means removed per channel) as a polynomial in the shape symbols (2-D: '
    's0 - 1; condition x channel x repetition tensor centred over repetitions: s0*s2 - s0; unbalanced: s0 - len(values)); '
    '(PAR/FWD-list) the three dof cases of every list arm pass the loop element and differ only in dof; (FWD) prec_from_* '
    'forward all their arguments to cov_from_* and invert every element; (EXH) _estimate_covariance dispatches every '
    'documented method; (CLAMP) shrinkage intensities are clamped to [0, 1] before they scale the estimate; (PURE) inputs '
    'are not modified (E3). PSD-ness, symmetry, the numeric inverse and agreement of estimators are NOT decided.'
    ' Round 6: (DOF-EXIT) every return of the covariance helpers derives from the dof handed in.')
ASSUMPTIONS = ['tensor layout (condition, channel, repetition) as returned by Dataset.get_measurements_tensor',
               'the channel axis is axis 1 in every layout handled by _check_demean']
FLOOR = 40
ANALYSED_FLOORS = {'order_obligations': 1}   # means[inverse] in cov_from_unbalanced
RULE_FLOORS = {'POLY': 3, 'PAR': 3, 'FWD': 3}   # one per estimator: collapsing the three list-arm calls into one is a legitimate refactoring

N = 'data.noise.'


def _leaf(fn):
    return fn.attr if isinstance(fn, ast.Attribute) else (fn.id if isinstance(fn, ast.Name) else '')


def run(ctx, obs):
    from ..rules import order as _order
    _order.contracts(ctx, obs, ['data.computations.average_dataset_by'])
    obs.analysed['order_obligations'] = _order.report(ctx, obs, ['data.noise.'])
    from ..rules import sweeps
    sweeps.run(ctx, obs, 'C14')
    dof_polynomials(ctx, obs)
    for fn in ('cov_from_residuals', 'cov_from_measurements', 'cov_from_unbalanced'):
        q = N + fn
        n = par_chain(ctx, obs, q, 'dof')
        if n == 0:
            obs.unk('PAR', q, 'dof chain', 'no if/elif chain on dof with one repo call per arm')
        list_element(ctx, obs, q)
    for fn in ('residuals', 'measurements', 'unbalanced'):
        prec(ctx, obs, N + 'prec_from_' + fn, N + 'cov_from_' + fn)
    methods(ctx, obs)
    clamps(ctx, obs)
    purity(ctx, obs)
    estimator_formulas(ctx, obs)
    every_exit_uses_dof(ctx, obs)


def every_exit_uses_dof(ctx, obs, rule='DOF-EXIT'):
    """The estimates are "with the stated degrees of freedom": whatever `_variance`, `_covariance_full`, `_covariance_eye` and
    `_covariance_diag` return - on EVERY exit, shortcuts included - derives (explicit data flow) from their `dof` argument and from
    the data.  A return whose value does not depend on `dof` has taken its normaliser from somewhere else (the number of rows)."""
    prog = ctx.prog
    for fn in ('_variance', '_covariance_full', '_covariance_eye', '_covariance_diag'):
        q = N + fn
        f = prog.func(q)
        r = ctx.dep.analyze(q, data_only=True)
        for node, tok, _ in r.returns:
            if node is None or node.value is None:
                continue
            con = f'the value returned at `{norm(node)[:50]}` is normalised with the dof handed in'
            ps = {t for t in tok if t.startswith('P:')}
            if 'P:dof' in ps and 'P:matrix' in ps:
                obs.ok(rule, q, con, '', where(prog, f, node))
            elif 'P:matrix' in ps:
                obs.bad(rule, q, con, f'`{norm(node)[:70]}` does not derive from `dof`: this exit uses another normaliser (e.g. the number of '
                        f'rows - 1), so the estimate is not the one with the stated degrees of freedom whenever dof was passed in or '
                        f'differs from rows - 1', where(prog, f, node))
            else:
                obs.unk(rule, q, con, f'return depends on {sorted(ps)}', where(prog, f, node))


def dof_polynomials(ctx, obs, rule='POLY'):
    prog = ctx.prog
    q = N + '_check_demean'
    f = prog.func(q)
    pname = f.pos_params[0]

    def leaf(e):
        if isinstance(e, ast.Subscript) and isinstance(e.value, ast.Attribute) and e.value.attr == 'shape' \
                and isinstance(e.value.value, ast.Name) and e.value.value.id == pname and isinstance(e.slice, ast.Constant):
            return poly.sym('s%d' % e.slice.value)
        return None
    arms = [n for n in ast.walk(f.node) if isinstance(n, ast.If)]
    seen = 0
    # the dof is the second element of the returned pair
    dofn = None
    for rn in ast.walk(f.node):
        if isinstance(rn, ast.Return) and isinstance(rn.value, ast.Tuple) and len(rn.value.elts) == 2 \
                and isinstance(rn.value.elts[1], ast.Name):
            dofn = rn.value.elts[1].id
    if dofn is None:
        raise AnalysisError('_check_demean: does not return (matrix, dof)')
    for arm in arms:
        ndims = _ndims(arm.test, pname)
        if not ndims:
            continue
        body = arm.body
        mean_axis = None
        for s in body:
            for c in ast.walk(s):
                if isinstance(c, ast.Call) and _leaf(c.func) in ('mean', 'nanmean'):
                    ax = next((k.value for k in c.keywords if k.arg == 'axis'), c.args[1] if len(c.args) > 1 else None)
                    if isinstance(ax, ast.Constant):
                        mean_axis = ax.value
        dofs = [s for s in body if isinstance(s, ast.Assign) and isinstance(s.targets[0], ast.Name) and s.targets[0].id == dofn]
        if mean_axis is None or not dofs:
            continue
        d = max(ndims)
        rows = poly.const(1)
        for i in range(d):
            if i != 1 or d == 1:
                rows = poly.mul(rows, poly.sym('s%d' % i))
        if d == 1:
            rows = poly.sym('s0')
        if d >= 2 and mean_axis == 1:
            obs.bad(rule, q, f'ndim {sorted(ndims)}: means are removed along an observation axis',
                    'the mean is taken over the channel axis', where(prog, f, arm))
            continue
        # rows / |mean axis|
        other = poly.const(1)
        for i in range(d):
            if i != 1 and i != mean_axis:
                other = poly.mul(other, poly.sym('s%d' % i))
        if d == 1:
            other = poly.const(1)
        ref = poly.add(rows, other, -1)
        got = poly.from_expr(dofs[-1].value, leaf)
        seen += 1
        con = f'ndim {sorted(ndims)}: dof == rows - means removed per channel == {poly.show(ref)}'
        if got is None:
            obs.unk(rule, q, con, f'`{norm(dofs[-1].value)}` is not a polynomial in the shape')
        else:
            obs.check(got == ref, rule, q, con,
                      f'dof = `{norm(dofs[-1].value)}` == {poly.show(got)}, but centring over axis {mean_axis} removes '
                      f'{poly.show(other)} means per channel from {poly.show(rows)} rows: expected {poly.show(ref)}', '',
                      where(prog, f, dofs[-1]))
    if seen < 2:
        raise AnalysisError('_check_demean: centring arms with a dof not found')
    # unbalanced estimator: dof = n_obs - number of conditions
    q = N + 'cov_from_unbalanced'
    f = prog.func(q)
    r = ctx.dep.result(q)
    inl = Inliner(r, None, ('dataset',))
    dofs = [s for s in ast.walk(f.node) if isinstance(s, ast.Assign) and isinstance(s.targets[0], ast.Name)
            and s.targets[0].id == 'dof']
    for s in dofs:
        e = s.value

        def leaf2(x):
            if isinstance(x, ast.Subscript) and isinstance(x.value, ast.Attribute) and x.value.attr == 'shape' \
                    and isinstance(x.slice, ast.Constant):
                src = inl.inline(x.value.value)
                if any(isinstance(n, ast.Attribute) and n.attr == 'measurements' for n in ast.walk(src)):
                    return poly.sym('obs' if x.slice.value == 0 else 'chan')
            if isinstance(x, ast.Call) and isinstance(x.func, ast.Name) and x.func.id == 'len' and x.args:
                src = inl.inline(x.args[0])
                if any(isinstance(n, ast.Call) and _leaf(n.func) in ('get_unique_inverse', 'average_dataset_by', 'unique',
                                                                    'get_unique_unsorted') for n in ast.walk(src)):
                    return poly.sym('cond')
            if isinstance(x, ast.Attribute) and x.attr == 'n_obs':
                return poly.sym('obs')
            return None
        got = poly.from_expr(e, leaf2)
        ref = poly.add(poly.sym('obs'), poly.sym('cond'), -1)
        con = 'unbalanced: dof == observations - conditions'
        if got is None:
            obs.unk(rule, q, con, f'`{norm(e)}` not recognised')
        else:
            obs.check(got == ref, rule, q, con, f'dof = `{norm(e)}` == {poly.show(got)}, expected obs - cond', '', where(prog, f, s))
        guard = [n for n in ast.walk(f.node) if isinstance(n, ast.If) and any(x is s for x in ast.walk(n))]
        ok = any(isinstance(g.test, ast.Compare) and isinstance(g.test.left, ast.Name) and g.test.left.id == 'dof'
                 and isinstance(g.test.ops[0], ast.Is) for g in guard)
        obs.check(ok, rule, q, 'a dof passed in by the caller is kept', 'the default dof overwrites a caller-supplied dof', '',
                  where(prog, f, s))
    q = N + '_estimate_covariance'
    f = prog.func(q)
    ok = False
    for n in ast.walk(f.node):
        if isinstance(n, ast.If) and isinstance(n.test, ast.Compare) and isinstance(n.test.left, ast.Name) and n.test.left.id == 'dof' \
                and isinstance(n.test.ops[0], ast.Is):
            ok = True
    obs.check(ok, rule, q, 'the natural dof is used only when none was passed in', 'no `if dof is None` default', '', where(prog, f, f.node))


def _ndims(test, pname):
    out = set()
    if isinstance(test, ast.Compare) and isinstance(test.left, ast.Attribute) and test.left.attr == 'ndim' \
            and isinstance(test.left.value, ast.Name) and test.left.value.id == pname:
        c = test.comparators[0]
        if isinstance(test.ops[0], ast.Eq) and isinstance(c, ast.Constant):
            out.add(c.value)
        elif isinstance(test.ops[0], ast.In) and isinstance(c, (ast.List, ast.Tuple, ast.Set)):
            out |= {e.value for e in c.elts if isinstance(e, ast.Constant)}
    return out


def list_element(ctx, obs, q, rule='FWD-list'):
    """every per-element call of the list arm receives the loop element, method (and obs_desc)"""
    prog = ctx.prog
    f = prog.func(q)
    r = ctx.dep.result(q)
    first = f.pos_params[0]
    n = 0
    for c in r.calls:
        if not c.in_loops or not c.callees or not any(x.startswith(N + 'cov_from_') for x in c.callees):
            continue
        n += 1
        a0 = c.node.args[0] if c.node.args else None
        src = c.arg(0) or frozenset()
        is_elem = isinstance(a0, ast.Name) and any(t.startswith('ITER:') for t in src) and a0.id != first
        obs.check(is_elem, rule, q, f'per-element call #{c.ordinal} receives the loop element',
                  f'`{norm(c.node)[:80]}` passes `{norm(a0) if a0 is not None else None}`, not the element of `{first}` being '
                  f'iterated: every entry of the result is computed from the whole list', '', where(prog, f, c.node))
        b = bound_args(prog, c.callees[0], c)
        for p in ('method', 'obs_desc'):
            if p in f.params:
                obs.check(p in b and depends_on_param(b[p][1], p), rule, q, f'per-element call #{c.ordinal} forwards {p}',
                          f'`{norm(c.node)[:80]}` drops `{p}`', '', where(prog, f, c.node))
        if 'dof' in b:
            e = b['dof'][0]
            inl_d = Inliner(r, None, ('dof',))

            def _alts_d(x):
                if isinstance(x, ast.Call) and isinstance(x.func, ast.Name) and x.func.id == 'PHI':
                    return [z for a_ in x.args for z in _alts_d(a_)]
                if isinstance(x, ast.IfExp):
                    return _alts_d(x.body) + _alts_d(x.orelse)
                return [x]
            alts = _alts_d(inl_d.inline(e))

            def _is_dof(x):
                if isinstance(x, ast.Name) and x.id == 'SRC0':
                    return True
                return (isinstance(x, ast.Subscript) and isinstance(x.value, ast.Name) and x.value.id == 'SRC0') or \
                    (isinstance(x, ast.Call) and isinstance(x.func, ast.Name) and x.func.id == 'ELEM' and x.args
                     and isinstance(x.args[0], ast.Name) and x.args[0].id == 'SRC0')
            ok = bool(alts) and all(_is_dof(a_) for a_ in alts)
            con_d = f'per-element call #{c.ordinal} uses the caller\'s dof (scalar or this element\'s entry)'
            # a helper that is handed the caller's dof (and the position) decides; its body is out of this rule's sight
            opaque = [a_ for a_ in alts if isinstance(a_, ast.Call) and isinstance(a_.func, ast.Name) and a_.func.id not in ('PHI', 'ELEM')
                      and any(isinstance(x, ast.Name) and x.id == 'SRC0' for x in ast.walk(a_))]
            if not ok and opaque and all(_is_dof(a_) or a_ in opaque for a_ in alts):
                obs.unk(rule, q, con_d, f'dof is `{norm(e)}`: chosen by `{norm(opaque[0].func)}`, which receives the caller\'s dof', where(prog, f, c.node))
            else:
                obs.check(ok, rule, q, con_d, f'dof is `{norm(e)}` = `{ast.unparse(inl_d.inline(e))[:80]}`', '', where(prog, f, c.node))
            for a_ in alts:
                if isinstance(a_, ast.Subscript):
                    idx_src = {t for t in (c.arg('dof') or frozenset()) if t.startswith('ITER:')}
                    obs.check(bool(idx_src), rule, q, 'a dof list is indexed by the position of the element',
                              f'`{norm(e)}` is not indexed by the loop counter', '', where(prog, f, c.node))
    if n < 3:
        obs.unk(rule, q, 'per-element calls', f'{n} found')


def prec(ctx, obs, q, cov_q, rule='FWD'):
    prog = ctx.prog
    f = prog.func(q)
    r = ctx.dep.result(q)
    cs = calls_to(r, cov_q)
    if not cs:
        leaf = cov_q.split('.')[-1]
        con = f'precision is computed from {leaf}'
        handed = [n for n in ast.walk(f.node) if isinstance(n, ast.Name) and n.id == leaf and isinstance(n.ctx, ast.Load)]
        others = [c for c in r.calls for g in c.callees if g.startswith(N + 'cov_from_') and g != cov_q]
        from ..check import _is_new_function
        via_new = [c for c in r.calls if any(_is_new_function(g) for g in c.callees)]
        if handed:
            obs.unk(rule, q, con, f'`{leaf}` is not called here but handed on as a callable', where(prog, f, handed[0]))
        elif others:
            obs.bad(rule, q, con, f'`{norm(others[0].node)[:70]}` is called instead of {leaf}: the precision belongs to another estimator',
                    where(prog, f, others[0].node))
        elif via_new:
            obs.unk(rule, q, con, f'no direct call; the work is done in `{norm(via_new[0].node)[:60]}`', where(prog, f, via_new[0].node))
        else:
            obs.bad(rule, q, con, f'no call to {cov_q}', where(prog, f, f.node))
        return
    for c in cs:
        b = bound_args(prog, cov_q, c)
        for p in f.params:
            obs.check(p in b and depends_on_param(b[p][1], p), rule, q, f'{p} is passed on to {cov_q.split(".")[-1]}',
                      f'`{norm(c.node)[:90]}` drops `{p}`: the precision is computed with the default', '', where(prog, f, c.node))
    inv = [c for c in r.calls if c.ext and c.ext.endswith('linalg.inv')]
    obs.check(len(inv) >= 3, rule, q, 'every form of the covariance (list, stack, single) is inverted',
              f'{len(inv)} np.linalg.inv calls for 3 result forms', '', where(prog, f, f.node))
    for c in inv:
        a = c.node.args[0] if c.node.args else None
        ok = isinstance(a, ast.Name)
        if ok and c.in_loops:
            # stored at the element's own index
            stores = [s for s in ast.walk(f.node) if isinstance(s, ast.Assign) and s.value is c.node
                      and isinstance(s.targets[0], ast.Subscript)]
            ok = bool(stores)
        obs.check(ok, rule, q, f'inverse #{c.ordinal} is taken of the covariance element and stored at its position',
                  f'`{norm(c.node)}`', '', where(prog, f, c.node))
    for node, _, _ in r.returns:
        if node is not None and node.value is not None:
            inl = Inliner(r, None, ())
            e = inl.inline(node.value)
            ok = any(isinstance(x, ast.Call) and _leaf(x.func) == 'inv' for x in ast.walk(e)) or isinstance(node.value, ast.Name)
            obs.check(ok, rule, q, 'the returned value is the inverted covariance', f'returns `{norm(node.value)}`', '',
                      where(prog, f, node))


def methods(ctx, obs, rule='EXH'):
    prog = ctx.prog
    q = N + '_estimate_covariance'
    f = prog.func(q)
    want = {'shrinkage_eye': '_covariance_eye', 'shrinkage_diag': '_covariance_diag', 'diag': '_variance',
            'full': '_covariance_full'}
    arms = {}
    for n in ast.walk(f.node):
        if isinstance(n, ast.If):
            for k in _keys(n.test, 'method'):
                arms.setdefault(k, n)
    for k, helper in want.items():
        if k not in arms:
            obs.bad(rule, q, f'method {k!r} has an arm', f'no arm for {k!r}', where(prog, f, f.node))
            continue
        cs = [c for s in arms[k].body for c in ast.walk(s) if isinstance(c, ast.Call)]
        ok = any(_leaf(c.func) == helper for c in cs)
        obs.check(ok, rule, q, f'method {k!r} dispatches to {helper}', f'calls {[_leaf(c.func) for c in cs]}', '', where(prog, f, arms[k]))
        for c in cs:
            if _leaf(c.func) == helper:
                args = [norm(a) for a in c.args]
                obs.check(args[:2] == ['matrix', 'dof'], rule, q, f'{helper} receives the centred matrix and the dof', f'{args}', '',
                          where(prog, f, c))
    tails = [n for n in ast.walk(f.node) if isinstance(n, ast.If) and _keys(n.test, 'method')
             and not (len(n.orelse) == 1 and isinstance(n.orelse[0], ast.If))]
    for t in tails:
        if not (t.orelse and isinstance(t.orelse[-1], ast.Raise)):
            obs.note(rule, q, 'unknown method string', 'falls through to an unbound local (UnboundLocalError) - informational, '
                     'not in the property\'s quantifier', where(prog, f, t))
    # the matrix handed on is the centred one
    r = ctx.dep.result(q)
    dem = calls_to(r, N + '_check_demean')
    obs.check(len(dem) == 1, rule, q, 'the input is centred exactly once', f'{len(dem)} _check_demean calls', '', where(prog, f, f.node))


def clamps(ctx, obs, rule='CLAMP'):
    prog = ctx.prog
    q = N + '_covariance_diag'
    f = prog.func(q)
    # dataflow form: every `1 - L` (the weight left for the sample covariance) uses an intensity L all of whose reaching definitions
    # are clamps to [0, 1]: max(min(x, 1), 0) / min(max(x, 0), 1) / np.clip(x, 0, 1)
    from ..rules.common import Inliner
    r = ctx.dep.result(q)
    inl = Inliner(r, None, ())
    con = 'the shrinkage intensity is clamped to [0, 1]'

    def alternatives(e):
        if isinstance(e, ast.Call) and isinstance(e.func, ast.Name) and e.func.id == 'PHI':
            out = []
            for a_ in e.args:
                out += alternatives(a_)
            return out
        return [e]

    def is_clamp(e):
        if not isinstance(e, ast.Call):
            return False
        names = {_leaf(c.func) for c in ast.walk(e) if isinstance(c, ast.Call)}
        consts = {x.value for x in ast.walk(e) if isinstance(x, ast.Constant) and isinstance(x.value, (int, float))}
        top = _leaf(e.func)
        if top == 'clip':
            return {0, 1} <= consts
        if top in ('max', 'maximum'):
            return 0 in consts and bool(names & {'min', 'minimum'}) and 1 in consts
        if top in ('min', 'minimum'):
            return 1 in consts and bool(names & {'max', 'maximum'}) and 0 in consts
        return False
    uses = [x for x in ast.walk(f.node) if isinstance(x, ast.BinOp) and isinstance(x.op, ast.Sub) and isinstance(x.left, ast.Constant)
            and x.left.value == 1 and isinstance(x.right, ast.Name)]
    if not uses:
        obs.unk(rule, q, con, 'no `1 - <intensity>` weight found', where(prog, f, f.node))
    for u in uses:
        alts = alternatives(inl.inline(u.right))
        if all(is_clamp(a_) for a_ in alts):
            obs.ok(rule, q, con, f'`{norm(u)}`', where(prog, f, u))
        elif any(isinstance(a_, (ast.BinOp, ast.Call)) and not is_clamp(a_) for a_ in alts):
            wrong = [a_ for a_ in alts if not is_clamp(a_)][0]
            obs.bad(rule, q, con, f'the intensity in `{norm(u)}` is `{ast.unparse(wrong)[:70]}` on some path: not bounded to [0, 1], the '
                    f'off-diagonal weight can leave [0, 1]', where(prog, f, u))
        else:
            obs.unk(rule, q, con, f'`{norm(u)}`: intensity is `{ast.unparse(alts[0])[:60]}`', where(prog, f, u))
    q = N + '_covariance_eye'
    f = prog.func(q)
    ok = False
    pair = None
    for s in f.node.body:
        if isinstance(s, ast.Assign) and isinstance(s.targets[0], ast.Name) and isinstance(s.value, ast.Call) \
                and _leaf(s.value.func) in ('min', 'minimum') and len(s.value.args) == 2 \
                and all(isinstance(a, ast.Name) for a in s.value.args) and s.targets[0].id in {a.id for a in s.value.args}:
            other = [a.id for a in s.value.args if a.id != s.targets[0].id]
            if other:
                ok = True
                pair = (s.targets[0].id, other[0])
    clipped = any(isinstance(c, ast.Call) and _leaf(c.func) == 'clip' for c in ast.walk(f.node))
    obs.check(ok or clipped, rule, q, 'the shrinkage weight is bounded by 1 (b = min(d, b) before b / d is used)',
              'the numerator of the shrinkage weight is not bounded by its denominator: the weight on the target can exceed 1 and '
              'the weight on the sample covariance become negative', '', where(prog, f, f.node))
    # convex combination: weights v/d and (d - v)/d
    ok2 = False
    if pair:
        v, d = pair
        for s in f.node.body:
            if isinstance(s, ast.Assign) and isinstance(s.value, ast.BinOp) and isinstance(s.value.op, ast.Add):
                txt = norm(s.value).replace(' ', '')
                if f'{v}/{d}' in txt and f'({d}-{v})/{d}' in txt:
                    ok2 = True
    obs.soft(ok2, rule, q, 'the estimate is the convex combination w * target + (1 - w) * sample covariance',
             'weights v/d and (d - v)/d not recognised', '', where(prog, f, f.node))


def purity(ctx, obs, rule='PURE'):
    prog, heap = ctx.prog, ctx.heap
    for fn in ('cov_from_residuals', 'prec_from_residuals', 'cov_from_measurements', 'prec_from_measurements',
               'cov_from_unbalanced', 'prec_from_unbalanced'):
        q = N + fn
        f = prog.func(q)
        s = heap.summary(q)
        w = []
        for (l, k, key) in s.writes:
            if is_param_loc(l) and key != 'index':
                origin = s.write_sites.get((l, k, key))
                if origin and origin[0] == N + '_check_demean':
                    continue
                w.append(l)
        obs.check(not w, rule, q, 'the estimator does not modify its input', f'writes {sorted(set(w))}', '', where(prog, f, f.node))
    # support for the exemption of _check_demean's in-place 3-D arm: the tensor it receives is freshly allocated - the tensor
    # builder never hands out (a view of) the dataset's own measurements
    qt = 'data.dataset.Dataset.get_measurements_tensor'
    ft = prog.func(qt)
    st = heap.summary(qt)
    locs = set(st.ret) | (set(st.ret_comps[0]) if st.ret_comps else set())
    shared = sorted(l for l in locs if is_param_loc(l))
    obs.check(not shared, 'STATE', qt, 'the measurements tensor is a new array (the in-place centring of _check_demean relies on it)',
              f'get_measurements_tensor may return {shared} (a view of the dataset\'s own data): the in-place 3-D centring in _check_demean '
              f'then demeans the caller\'s dataset', '', where(prog, ft, ft.node))
    # grouping the observations of each condition: a reshape(<groups>, -1, ..) of the rows sorted by group cuts the rows into EQUAL
    # blocks whatever the group sizes are - for an unbalanced design whose observation count happens to be a multiple of the number
    # of conditions rows of different conditions land in one block, silently (np.stack of per-group selections raises instead)
    con = 'observations are grouped by condition, not cut into equal blocks'
    reshapes = [c for c in ast.walk(ft.node) if isinstance(c, ast.Call) and _leaf(c.func) == 'reshape'
                and any(isinstance(a, ast.UnaryOp) and isinstance(a.op, ast.USub) and isinstance(a.operand, ast.Constant) and a.operand.value == 1
                        for a in (c.args[0].elts if len(c.args) == 1 and isinstance(c.args[0], (ast.Tuple, ast.List)) else c.args))]
    sorted_rows = [c for c in reshapes if any(isinstance(x, ast.Call) and _leaf(x.func) == 'argsort' for x in ast.walk(c))
                   or any(isinstance(x, ast.Name) and any(isinstance(d_, ast.Assign) and isinstance(d_.targets[0], ast.Name) and d_.targets[0].id == x.id
                                                          and any(isinstance(y, ast.Call) and _leaf(y.func) == 'argsort' for y in ast.walk(d_.value))
                                                          for d_ in ast.walk(ft.node)) for x in ast.walk(c))]
    if sorted_rows:
        balance_guard = any(isinstance(g, (ast.If, ast.Assert)) and any(isinstance(x, ast.Call) and _leaf(x.func) in ('bincount', 'unique', 'Counter')
                                                                         or (isinstance(x, ast.Name) and 'count' in x.id.lower())
                                                                         for x in ast.walk(g.test))
                            and (isinstance(g, ast.Assert) or any(isinstance(x, ast.Raise) for x in ast.walk(g))) for g in ast.walk(ft.node))
        if balance_guard:
            obs.unk('STATE', qt, con, 'rows sorted by group are reshaped into blocks behind a test of the group sizes', where(prog, ft, sorted_rows[0]))
        else:
            obs.bad('STATE', qt, con, f'`{norm(sorted_rows[0])[:80]}` cuts the rows (sorted by condition) into equal blocks without checking '
                    f'that every condition has the same number of observations: an unbalanced design with a divisible observation count is '
                    f'accepted and rows of different conditions are pooled in one block', where(prog, ft, sorted_rows[0]))
    else:
        obs.ok('STATE', qt, con, 'no equal-block reshape of sorted rows', where(prog, ft, ft.node))
    # the 2-D arm of _check_demean centres a new array
    q = N + '_check_demean'
    f = prog.func(q)
    for arm in [n for n in ast.walk(f.node) if isinstance(n, ast.If)]:
        nd = _ndims(arm.test, f.pos_params[0])
        if nd and 2 in nd:
            aug = [s for s in arm.body if isinstance(s, ast.AugAssign)]
            obs.check(not aug, rule, q, 'the 2-D arm centres a copy (matrix = matrix - mean)',
                      f'`{norm(aug[0]) if aug else ""}` centres the caller\'s residual matrix in place', '', where(prog, f, arm))


def estimator_formulas(ctx, obs, rule='AXIS'):
    """sample second moment over the row axis divided by dof"""
    prog = ctx.prog
    for fn, spec in (('_variance', 'ij,ij->j'), ('_covariance_full', 'ij,ik->jk')):
        q = N + fn
        f = prog.func(q)
        es = [c for c in ast.walk(f.node) if isinstance(c, ast.Call) and _leaf(c.func) == 'einsum']
        ok = bool(es) and all(isinstance(c.args[0], ast.Constant) and c.args[0].value.replace(' ', '') == spec
                              and norm(c.args[1]) == norm(c.args[2]) for c in es)
        obs.check(ok, rule, q, f'second moment sums over the row (observation) axis: einsum {spec}',
                  f'{[norm(c)[:60] for c in es]}', '', where(prog, f, f.node))
        div = [n for n in ast.walk(f.node) if isinstance(n, ast.BinOp) and isinstance(n.op, ast.Div) and isinstance(n.right, ast.Name)
               and n.right.id == 'dof']
        obs.check(bool(div), rule, q, 'the second moment is divided by the degrees of freedom', 'no division by dof', '',
                  where(prog, f, f.node))
