"""C15 - Unbalanced (compiled) estimator matches the balanced one, skips missing channels (structural clauses)."""
from __future__ import annotations
import ast
import os
from typing import Dict, List, Optional

from ..model import AnalysisError
from ..flow import depends_on_param
from ..rules.common import where, norm, par_chain, fwd_list, bound_args, calls_to, Inliner
from ..rules import poly
from .c03 import _keys

EXPLANATION = (
    'Static analysis of cengine/similarity.pyx (lowered to a Python AST by sa/pyx.py) and rdm/calc_unbalanced.py: (BUF) every '
    'raw buffer of k elements is indexed only by a range(k) variable or by a counter incremented under the guard that counted '
    'k, and every PyMem_Malloc is freed or returned; (GUARD) a kernel that skips NaN channels under a guard with a counter '
    'uses that counter, not n_dim, in its later arithmetic, and callers take the kernel\'s own count as the weight; (POLY) '
    'the condensed index equals n + n*a - a(a+1)/2 + (b - a - 1) and the a > b arm is its mirror image; (TAB) the '
    'method/weighting string->index tables of the two wrappers agree and every index has an arm assigning sim and weight '
    'in calc, calc_one and similarity; (FOLD) the pair loop is guarded by `not crossval or cv_desc[i] != cv_desc[j]`, the '
    'self-pair block by `not crossval`, and the wrapper sets crossval exactly when a fold descriptor is in force; (FWD) '
    'ensure_double wraps every measurement array, the distance is self_i + self_j - 2 cross, labels and values use one '
    'get_unique_inverse result. The compiled .so cannot be rebuilt here (Cython is not installed), so defects in the .pyx '
    'are recorded as known findings. Numeric agreement with calc_rdm is NOT decided.'
    ' Also: (MASK-WEIGHT) self similarities are indexed per pair, not spread by dense indicator products (NaN of one condition stays with its pairs); the distance formula is recognised in product and in indexed form.'
    ' Round 6: (STALE-DEFAULT) the crossval flag and the fold codes are computed from the same version of cv_descriptor; (FWD) noise and priors reach the compiled kernels as the caller passed them; (OR-FALSY) table look-ups are not overridden by `or`.')
ASSUMPTIONS = ['the lowering in sa/pyx.py preserves the statement structure of the .pyx (fails closed outside its subset)',
               'the shipped .so was built from this .pyx']
FLOOR = 45
RULE_FLOORS = {'BUF': 8, 'GUARD': 4, 'POLY': 2, 'TAB': 10, 'FOLD': 3}

PYX = 'src/rsatoolbox/cengine/similarity.pyx'
W = 'rdm.calc_unbalanced.'


def _leaf(fn):
    return fn.attr if isinstance(fn, ast.Attribute) else (fn.id if isinstance(fn, ast.Name) else '')


def run(ctx, obs):
    from ..rules import order as _order
    _order.contracts(ctx, obs, ['util.data_utils.get_unique_inverse'])
    _order.report(ctx, obs, ['rdm.calc_unbalanced.'])
    from ..rules import sweeps
    sweeps.run(ctx, obs, 'C15')
    mod = ctx.pyx.get(PYX)
    if mod is None:
        raise AnalysisError(f'{PYX} not found')
    need = ['calc', 'calc_one', 'similarity', 'euclid', 'poisson_cv', 'mahalanobis', 'correlation']
    for n in need:
        if n not in mod.funcs:
            raise AnalysisError(f'{PYX}: function {n} not found (renamed/removed?)')
    obs.analysed['pyx_functions_lowered'] = len(mod.funcs)
    for fn in mod.funcs.values():
        buffers(ctx, obs, mod, fn)
    for k in ('euclid', 'poisson_cv', 'correlation', 'mahalanobis'):
        guarded(ctx, obs, mod, mod.funcs[k])
    caller_weights(ctx, obs, mod)
    index_poly(ctx, obs, mod)
    method_arms(ctx, obs, mod)
    fold_guards(ctx, obs, mod)
    int_division(ctx, obs, mod)
    wrapper(ctx, obs)
    tables(ctx, obs)
    fwd_list(ctx, obs, W + 'calc_rdm_unbalanced', split_params={'noise'})
    n = par_chain(ctx, obs, W + 'calc_rdm_unbalanced', 'noise')
    if n == 0:
        obs.unk('PAR', W + 'calc_rdm_unbalanced', 'noise chain', 'not recognised')


def _site(mod, node):
    return f'{PYX}:{getattr(node, "lineno", 0)}'


def _q(fn):
    return 'cengine.similarity.' + fn.name


# ---------------------------------------------------------------------------------------------------------- BUF
def _alloc_size(v: ast.expr) -> Optional[ast.expr]:
    """PyMem_Malloc(K * sizeof(T)) -> K ; cvarray(shape=(K, K), ...) -> K"""
    if isinstance(v, ast.Call) and _leaf(v.func) in ('PyMem_Malloc', 'malloc') and v.args:
        a = v.args[0]
        if isinstance(a, ast.BinOp) and isinstance(a.op, ast.Mult):
            for side, other in ((a.left, a.right), (a.right, a.left)):
                if isinstance(other, ast.Call) and _leaf(other.func) == 'sizeof':
                    return side
        return a
    if isinstance(v, ast.Call) and _leaf(v.func) in ('cvarray', 'array'):
        for k in v.keywords:
            if k.arg == 'shape' and isinstance(k.value, ast.Tuple) and k.value.elts:
                return k.value.elts[0]
    return None


def _loops_binding(fn_node, name) -> List[ast.For]:
    return [n for n in ast.walk(fn_node) if isinstance(n, ast.For) and isinstance(n.target, ast.Name) and n.target.id == name]


def _enclosing(fn_node, target, kinds):
    out = []

    def rec(n, stack):
        if n is target:
            out.extend(stack)
            return True
        for ch in ast.iter_child_nodes(n):
            if rec(ch, stack + ([n] if isinstance(n, kinds) else [])):
                return True
        return False
    rec(fn_node, [])
    return out


def buffers(ctx, obs, mod, fn, rule='BUF'):
    node = fn.node
    bufs: Dict[str, ast.expr] = {}
    for s in ast.walk(node):
        if isinstance(s, ast.Assign) and isinstance(s.targets[0], ast.Name):
            sz = _alloc_size(s.value)
            if sz is not None:
                bufs[s.targets[0].id] = sz
    if not bufs:
        return
    freed = {c.args[0].id for c in ast.walk(node) if isinstance(c, ast.Call) and _leaf(c.func) in ('PyMem_Free', 'free')
             and c.args and isinstance(c.args[0], ast.Name)}
    returned = {n.id for r in ast.walk(node) if isinstance(r, ast.Return) and r.value is not None
                for n in ast.walk(r.value) if isinstance(n, ast.Name)}
    for b, sz in bufs.items():
        is_malloc = any(isinstance(s, ast.Assign) and isinstance(s.targets[0], ast.Name) and s.targets[0].id == b
                        and isinstance(s.value, ast.Call) and _leaf(s.value.func) == 'PyMem_Malloc' for s in ast.walk(node))
        if is_malloc:
            if b in freed or b in returned:
                obs.ok(rule, _q(fn), f'buffer `{b}` is freed or returned', '', _site(mod, node))
            else:
                obs.note(rule, _q(fn), f'buffer `{b}` is freed or returned', 'allocated with PyMem_Malloc and never freed (memory '
                         'leak; informational - no stated property clause depends on it)', _site(mod, node))
    for sub in ast.walk(node):
        if not (isinstance(sub, ast.Subscript) and isinstance(sub.value, ast.Name) and sub.value.id in bufs):
            continue
        b = sub.value.id
        sz = bufs[b]
        idxs = list(sub.slice.elts) if isinstance(sub.slice, ast.Tuple) else [sub.slice]
        for ix in idxs:
            if isinstance(ix, ast.Constant):
                continue
            con = f'`{b}` ({norm(sz)} elements) is indexed within its allocation by `{norm(ix)}`'
            if not isinstance(ix, ast.Name):
                obs.unk(rule, _q(fn), con, 'index is not a plain variable')
                continue
            # the innermost enclosing loop over this index variable
            loops = [l for l in _enclosing(node, sub, (ast.For,)) if isinstance(l.target, ast.Name) and l.target.id == ix.id]
            if loops:
                lp = loops[-1]
                it = lp.iter
                if isinstance(it, ast.Call) and _leaf(it.func) == 'range' and it.args:
                    bound = it.args[-1] if len(it.args) <= 2 else it.args[1]
                    same = ast.dump(bound) == ast.dump(sz) or _commut_eq(bound, sz)
                    if same:
                        obs.ok(rule, _q(fn), con, f'range({norm(bound)})', _site(mod, sub))
                    elif _simple_symbols(bound) and _simple_symbols(sz):
                        obs.bad(rule, _q(fn), con,
                                f'`{norm(sub)}` is indexed by `{ix.id}` from range({norm(bound)}) but `{b}` was allocated with '
                                f'{norm(sz)} elements: whenever {norm(bound)} > {norm(sz)} (a NaN channel was skipped) the loop '
                                f'reads past the end of the buffer', _site(mod, sub))
                    else:
                        obs.unk(rule, _q(fn), con, f'bound {norm(bound)} vs size {norm(sz)} not comparable')
                else:
                    obs.unk(rule, _q(fn), con, 'loop is not a range loop')
                continue
            # counter idiom: initialised to 0 and incremented under an if
            incs = [a for a in ast.walk(node) if isinstance(a, ast.AugAssign) and isinstance(a.target, ast.Name)
                    and a.target.id == ix.id and isinstance(a.op, ast.Add)]
            inits = [a for a in ast.walk(node) if isinstance(a, ast.Assign) and isinstance(a.targets[0], ast.Name)
                     and a.targets[0].id == ix.id and isinstance(a.value, ast.Constant) and a.value.value == 0]
            guarded_inc = incs and all(_enclosing(node, a, (ast.If,)) for a in incs)
            if incs and inits and guarded_inc:
                obs.ok(rule, _q(fn), con, 'counter incremented under a guard (counts the selected entries)', _site(mod, sub))
            elif isinstance(ix, ast.Name) and not incs and not loops:
                # index read from data (desc[i]) or computed: outside this rule
                obs.unk(rule, _q(fn), con, 'index computed from data')
            else:
                obs.unk(rule, _q(fn), con, 'index variable pattern not recognised')


def _simple_symbols(e) -> bool:
    return all(isinstance(n, (ast.Name, ast.BinOp, ast.Add, ast.Mult, ast.Sub, ast.Load, ast.Constant, ast.Attribute,
                              ast.Subscript, ast.Tuple)) for n in ast.walk(e))


def _commut_eq(a, b) -> bool:
    def p(e):
        return poly.from_expr(e, lambda x: poly.sym(x.id) if isinstance(x, ast.Name) else None)
    pa, pb = p(a), p(b)
    return pa is not None and pa == pb


# -------------------------------------------------------------------------------------------------------- GUARD
def guarded(ctx, obs, mod, fn, rule='GUARD'):
    """kernel skipping NaN channels: arithmetic after the guarded loop uses the guarded counter, not n_dim"""
    node = fn.node
    counters = set()
    guard_loops = []
    for lp in ast.walk(node):
        if isinstance(lp, ast.For):
            for g in ast.walk(lp):
                if isinstance(g, ast.If) and any(isinstance(c, ast.Call) and _leaf(c.func) == 'isnan' for c in ast.walk(g.test)):
                    for a in g.body:
                        if isinstance(a, ast.AugAssign) and isinstance(a.target, ast.Name) and isinstance(a.value, ast.Constant) \
                                and a.value.value == 1:
                            counters.add(a.target.id)
                            guard_loops.append(lp)
    con = 'channels skipped under the NaN guard are left out of the normalisation (the guarded counter is used, not n_dim)'
    if not counters:
        obs.bad(rule, _q(fn), 'the kernel counts the channels valid in both vectors under its NaN guard',
                'no counter incremented under an isnan guard', _site(mod, node))
        return
    both = all(_both_operands_tested(g) for lp in guard_loops for g in ast.walk(lp) if isinstance(g, ast.If)
               and any(isinstance(c, ast.Call) and _leaf(c.func) == 'isnan' for c in ast.walk(g.test)))
    obs.check(both, rule, _q(fn), 'the NaN guard tests the channel in both vectors', 'guard tests only one operand', '',
              _site(mod, node))
    bad_uses = []
    for n in ast.walk(node):
        if isinstance(n, ast.Name) and n.id == 'n_dim' and isinstance(n.ctx, ast.Load):
            encl = _parents(node, n)
            in_range = any(isinstance(p, ast.Call) and _leaf(p.func) == 'range' for p in encl)
            in_alloc = any(isinstance(p, ast.Call) and _leaf(p.func) in ('PyMem_Malloc', 'sizeof') for p in encl)
            if not in_range and not in_alloc:
                bad_uses.append(n)
    if bad_uses:
        stmts = sorted({_stmt_of(node, n).lineno for n in bad_uses})
        obs.bad(rule, _q(fn), con,
                f'{fn.name} counts valid channels in `{sorted(counters)[0]}` but uses `n_dim` in its arithmetic at lines {stmts}: '
                f'with a missing (NaN) channel the means / scale are computed with the wrong count', _site(mod, bad_uses[0]))
    else:
        obs.ok(rule, _q(fn), con, f'counter(s) {sorted(counters)}', _site(mod, node))
    if fn.name != 'mahalanobis':
        rets = [r for r in ast.walk(node) if isinstance(r, ast.Return) and r.value is not None]
        ok = all(any(isinstance(x, ast.Name) and x.id in counters for x in ast.walk(r.value)) for r in rets)
        obs.check(ok and bool(rets), rule, _q(fn), 'the kernel returns its count of valid channels as the weight',
                  'the returned weight is not the guarded counter', '', _site(mod, node))


def _both_operands_tested(g: ast.If) -> bool:
    names = {c.args[0].value.id for c in ast.walk(g.test) if isinstance(c, ast.Call) and _leaf(c.func) == 'isnan' and c.args
             and isinstance(c.args[0], ast.Subscript) and isinstance(c.args[0].value, ast.Name)}
    return len(names) >= 2


def _parents(root, target):
    out = []

    def rec(n, stack):
        if n is target:
            out.extend(stack)
            return True
        for ch in ast.iter_child_nodes(n):
            if rec(ch, stack + [n]):
                return True
        return False
    rec(root, [])
    return out


def _stmt_of(root, target):
    ps = _parents(root, target)
    for p in reversed(ps):
        if isinstance(p, ast.stmt):
            return p
    return root


def caller_weights(ctx, obs, mod, rule='GUARD'):
    """weight for mahalanobis pairs at the call sites"""
    for name in ('calc', 'calc_one', 'similarity'):
        fn = mod.funcs[name]
        for s in ast.walk(fn.node):
            if isinstance(s, ast.Assign) and isinstance(s.targets[0], ast.Name) and s.targets[0].id == 'weight' \
                    and isinstance(s.value, ast.Name) and s.value.id == 'n_dim':
                obs.bad(rule, _q(fn), 'the weight of a mahalanobis pair is the number of channels valid in both observations',
                        f'`weight = n_dim` after mahalanobis(...): the kernel drops NaN channels (n_finite) but the pair is '
                        f'weighted as if all {"n_dim"} channels entered', _site(mod, s))
        # other kernels: sim, weight = kernel(...)
        unpack = [s for s in ast.walk(fn.node) if isinstance(s, ast.Assign) and isinstance(s.targets[0], ast.Tuple)
                  and isinstance(s.value, ast.Call) and _leaf(s.value.func) in ('euclid', 'correlation', 'poisson_cv')]
        ok = all([norm(t) for t in s.targets[0].elts] == ['sim', 'weight'] for s in unpack)
        obs.check(ok and bool(unpack), rule, _q(fn), 'for euclid / correlation / poisson_cv the weight is the kernel\'s own count',
                  'kernel results are not unpacked as (sim, weight)', '', _site(mod, fn.node))


# --------------------------------------------------------------------------------------------------------- POLY
def index_poly(ctx, obs, mod, rule='POLY'):
    fn = mod.funcs['calc']
    assigns = [s for s in ast.walk(fn.node) if isinstance(s, ast.Assign) and isinstance(s.targets[0], ast.Name)
               and s.targets[0].id == 'idx' and isinstance(s.value, ast.BinOp)]
    if len(assigns) < 2:
        raise AnalysisError('calc: condensed index assignments not found')
    for s in assigns:
        guard = [g for g in _enclosing(fn.node, s, (ast.If,)) if isinstance(g.test, ast.Compare)
                 and isinstance(g.test.ops[0], (ast.Gt, ast.Lt))]
        if not guard:
            obs.unk(rule, _q(fn), 'condensed index', f'`{norm(s)[:60]}` has no ordering guard')
            continue
        g = guard[-1]
        in_body = any(x is s for st in g.body for x in ast.walk(st))
        l, r = norm(g.test.left), norm(g.test.comparators[0])
        gt = isinstance(g.test.ops[0], ast.Gt)
        # which expression is the smaller one (a) and the larger one (b) in this arm
        if (gt and in_body) or (not gt and not in_body):
            big, small = l, r
        else:
            big, small = r, l

        def leaf(e):
            t = norm(e)
            if t == small:
                return poly.sym('a')
            if t == big:
                return poly.sym('b')
            if isinstance(e, ast.Name) and e.id == 'n':
                return poly.sym('n')
            return None
        got = poly.from_expr(s.value, leaf)
        a, b, n = poly.sym('a'), poly.sym('b'), poly.sym('n')
        ref = poly.add(poly.add(poly.add(n, poly.mul(n, a)), poly.mul(poly.const(poly.Fraction(1, 2)), poly.mul(a, poly.add(a, poly.const(1)))), -1),
                       poly.add(poly.add(b, a, -1), poly.const(1), -1))
        con = f'arm {small} < {big}: idx == n + n*a - a(a+1)/2 + (b - a - 1)'
        if got is None:
            obs.unk(rule, _q(fn), con, f'`{norm(s.value)[:80]}` is not a polynomial in (a, b, n)')
        else:
            obs.check(got == ref, rule, _q(fn), con,
                      f'idx = `{norm(s.value)[:90]}` == {poly.show(got)}; the condensed upper-triangle position of pair (a, b) '
                      f'behind the n self-similarity slots is {poly.show(ref)}', '', _site(mod, s))
    # same-condition pairs go to the self slot
    same = [g for g in ast.walk(fn.node) if isinstance(g, ast.If) and isinstance(g.test, ast.Compare)
            and isinstance(g.test.ops[0], ast.Eq) and 'desc[i]' in norm(g.test) and 'desc[j]' in norm(g.test) and 'cv_desc' not in norm(g.test)]
    ok = any(any(isinstance(s, ast.Assign) and norm(s.targets[0]) == 'idx' and norm(s.value) in ('desc[i]', 'desc[j]') for s in g.body)
             for g in same)
    obs.check(ok, rule, _q(fn), 'pairs of two observations of one condition accumulate in that condition\'s self slot',
              'no `idx = desc[i]` under `desc[i] == desc[j]`', '', _site(mod, fn.node))
    tot = [s for s in ast.walk(fn.node) if isinstance(s, ast.Assign) and norm(s.targets[0]) == 'n_rdm']
    if tot:
        got = poly.from_expr(tot[0].value, lambda e: poly.sym('n') if isinstance(e, ast.Name) and e.id == 'n' else None)
        n = poly.sym('n')
        ref = poly.mul(poly.const(poly.Fraction(1, 2)), poly.mul(n, poly.add(n, poly.const(1), -1)))
        obs.check(got == ref, rule, _q(fn), 'the number of condensed entries is n(n-1)/2', f'n_rdm = {poly.show(got)}', '',
                  _site(mod, tot[0]))


# ---------------------------------------------------------------------------------------------------------- TAB
def method_arms(ctx, obs, mod, rule='TAB'):
    for name in ('calc', 'calc_one', 'similarity'):
        fn = mod.funcs[name]
        # chains `if method_idx == k`
        chains = [g for g in ast.walk(fn.node) if isinstance(g, ast.If) and _idx_eq(g.test) == 1
                  and not any(g in p.orelse for p in ast.walk(fn.node) if isinstance(p, ast.If))]
        if not chains:
            raise AnalysisError(f'{name}: no method_idx chain')
        for ci, g in enumerate(chains):
            arms = {}
            cur = g
            while True:
                k = _idx_eq(cur.test)
                if k is not None:
                    arms[k] = cur
                if len(cur.orelse) == 1 and isinstance(cur.orelse[0], ast.If):
                    cur = cur.orelse[0]
                else:
                    break
            for k in (1, 2, 3, 4):
                con = f'chain {ci}: method index {k} has an arm that assigns sim and weight'
                if k not in arms:
                    obs.bad(rule, _q(fn), con, f'{name} has no arm for method index {k} '
                            f'({ {1: "euclidean", 2: "correlation", 3: "mahalanobis/crossnobis", 4: "poisson/poisson_cv"}[k] }): sim and '
                            f'weight stay uninitialised for that method', _site(mod, g))
                    continue
                assigned = set()
                for s in ast.walk(ast.Module(body=arms[k].body, type_ignores=[])):
                    if isinstance(s, ast.Assign):
                        for t in s.targets:
                            for x in ast.walk(t):
                                if isinstance(x, ast.Name):
                                    assigned.add(x.id)
                obs.check({'sim', 'weight'} <= assigned, rule, _q(fn), con, f'arm {k} assigns {sorted(assigned)}', '',
                          _site(mod, arms[k]))


def _idx_eq(test):
    if isinstance(test, ast.Compare) and isinstance(test.left, ast.Name) and test.left.id == 'method_idx' \
            and isinstance(test.ops[0], ast.Eq) and isinstance(test.comparators[0], ast.Constant):
        return test.comparators[0].value
    return None


def tables(ctx, obs, rule='TAB'):
    prog = ctx.prog
    maps = {}
    wmaps = {}
    for fnq in (W + 'calc_rdm_unbalanced', W + 'calc_one_similarity'):
        f = prog.func(fnq)
        m = {}
        wm = {}
        for g in ast.walk(f.node):
            if isinstance(g, ast.If):
                keys = _keys(g.test, 'method')
                if not keys and isinstance(g.test, ast.Compare) and isinstance(g.test.left, ast.Name) and g.test.left.id == 'method' \
                        and isinstance(g.test.ops[0], ast.In) and isinstance(g.test.comparators[0], (ast.List, ast.Tuple)):
                    keys = [e.value for e in g.test.comparators[0].elts if isinstance(e, ast.Constant)]
                for s in g.body:
                    if keys and isinstance(s, ast.Assign) and isinstance(s.targets[0], ast.Name) and isinstance(s.value, ast.Constant) \
                            and isinstance(s.value.value, int):
                        for k in keys:
                            m[k] = s.value.value
                if isinstance(g.test, ast.Compare) and isinstance(g.test.left, ast.Name) and g.test.left.id == 'weighting' \
                        and isinstance(g.test.comparators[0], ast.Constant):
                    for s in g.body:
                        if isinstance(s, ast.Assign) and isinstance(s.targets[0], ast.Name) and isinstance(s.value, ast.Constant):
                            wm[g.test.comparators[0].value] = s.value.value
                    for s in g.orelse:
                        if isinstance(s, ast.Assign) and isinstance(s.targets[0], ast.Name) and isinstance(s.value, ast.Constant):
                            wm['<other>'] = s.value.value
        maps[fnq] = m
        wmaps[fnq] = wm
    a, b = maps[W + 'calc_rdm_unbalanced'], maps[W + 'calc_one_similarity']
    f = prog.func(W + 'calc_rdm_unbalanced')
    want = {'euclidean': 1, 'correlation': 2, 'mahalanobis': 3, 'crossnobis': 3, 'poisson': 4, 'poisson_cv': 4}
    for k, v in want.items():
        con_ = f'method {k!r} maps to kernel index {v} (as documented in the pyx)'
        if a.get(k) is None:
            # no `if method == ..: idx = <int>` arm for this method: the table is kept elsewhere (an enum, a dict) - not decided
            obs.unk(rule, W + 'calc_rdm_unbalanced', con_, f'no arm assigning an integer for {k!r} found in calc_rdm_unbalanced', where(prog, f, f.node))
        else:
            obs.check(a.get(k) == v, rule, W + 'calc_rdm_unbalanced', con_, f'{k!r} -> {a.get(k)}', '', where(prog, f, f.node))
    f1 = prog.func(W + 'calc_one_similarity')
    if not a or not b:
        obs.unk(rule, W + 'calc_one_similarity', 'both wrappers use the same method -> index table', f'{a} vs {b}: a table is not written as a chain',
                where(prog, f1, f1.node))
    else:
        obs.check(a == b, rule, W + 'calc_one_similarity', 'both wrappers use the same method -> index table', f'{a} vs {b}', '',
                  where(prog, f1, f1.node))
    wa, wb = wmaps[W + 'calc_rdm_unbalanced'], wmaps[W + 'calc_one_similarity']
    if not wa or not wb:
        obs.unk(rule, W + 'calc_one_similarity', 'both wrappers use the same weighting -> index table (equal -> 0, number -> 1)',
                f'{wmaps}: a table is not written as a chain', where(prog, f, f.node))
    else:
        obs.check(wa == wb and wa.get('equal') == 0, rule, W + 'calc_one_similarity',
                  'both wrappers use the same weighting -> index table (equal -> 0, number -> 1)', f'{wmaps}', '', where(prog, f, f.node))
    from .c01 import method_dispatch
    method_dispatch(ctx, obs, 'rdm.calc.calc_rdm', {})   # anchor check only (raises if calc_rdm vanished)


# --------------------------------------------------------------------------------------------------------- FOLD
def fold_guards(ctx, obs, mod, rule='FOLD'):
    fn = mod.funcs['calc']
    outer = [l for l in fn.node.body if isinstance(l, ast.For) and any(isinstance(x, ast.For) for x in l.body)]
    main = [l for l in outer if any('euclid' in norm(x) for x in ast.walk(l))]
    if not main:
        raise AnalysisError('calc: main pair loop not found')
    lp = main[-1]
    self_blocks = [s for s in lp.body if isinstance(s, ast.If)]
    ok = bool(self_blocks) and norm(self_blocks[0].test).replace(' ', '') == 'notcrossval'
    obs.check(ok, rule, _q(fn), 'self-pairs (an observation with itself) are used only without cross-validation',
              f'self-pair block is guarded by `{norm(self_blocks[0].test) if self_blocks else None}`', '', _site(mod, lp))
    inner = [s for s in lp.body if isinstance(s, ast.For)]
    if not inner:
        raise AnalysisError('calc: inner pair loop not found')
    g = [s for s in inner[0].body if isinstance(s, ast.If)]
    t = norm(g[0].test).replace(' ', '') if g else ''
    ok = t in ('notcrossvalornotcv_desc[i]==cv_desc[j]', 'notcrossvalorcv_desc[i]!=cv_desc[j]',
               'notcrossvalornot(cv_desc[i]==cv_desc[j])')
    obs.check(ok, rule, _q(fn), 'observation pairs sharing a fold value are excluded when cross-validating',
              f'pair loop guard is `{norm(g[0].test) if g else None}`', '', _site(mod, inner[0]))
    rng = inner[0].iter
    ok = isinstance(rng, ast.Call) and _leaf(rng.func) == 'range' and len(rng.args) == 2 and norm(rng.args[0]).replace(' ', '') == 'i+1'
    obs.check(ok, rule, _q(fn), 'each unordered pair of observations is visited once (j from i + 1)',
              f'inner loop is `for j in {norm(rng)}`', '', _site(mod, inner[0]))
    fn1 = mod.funcs['calc_one']
    g1 = [s for s in ast.walk(fn1.node) if isinstance(s, ast.If) and 'cv_desc_i' in norm(s.test)]
    ok = bool(g1) and norm(g1[0].test).replace(' ', '') in ('not(cv_desc_i[i]==cv_desc_j[j])', 'cv_desc_i[i]!=cv_desc_j[j]',
                                                           'notcv_desc_i[i]==cv_desc_j[j]')
    obs.check(ok, rule, _q(fn1), 'calc_one excludes pairs sharing a fold value', f'`{norm(g1[0].test) if g1 else None}`', '',
              _site(mod, fn1.node))


def wrapper(ctx, obs, rule='FWD'):
    prog = ctx.prog
    q = W + 'calc_rdm_unbalanced'
    f = prog.func(q)
    r = ctx.dep.result(q)
    inl = Inliner(r, None, ())
    calls = [c for c in ast.walk(f.node) if isinstance(c, ast.Call) and _leaf(c.func) == 'calc']
    if not calls:
        raise AnalysisError('calc_rdm_unbalanced: no call to the compiled calc')
    c = calls[0]
    args = c.args
    obs.check(len(args) == 10, rule, q, 'the compiled calc receives all ten arguments', f'{len(args)} arguments', '', where(prog, f, c))
    if len(args) >= 10:
        a0 = args[0]
        obs.check(isinstance(a0, ast.Call) and _leaf(a0.func) == 'ensure_double' and 'measurements' in norm(a0), rule, q,
                  'measurements are converted to float64 (ensure_double)', f'`{norm(a0)}`', '', where(prog, f, c))
        e1 = inl.inline(args[1])
        obs.check(any(isinstance(n, ast.Call) and _leaf(n.func) == 'get_unique_inverse' for n in ast.walk(e1)) and 'int64' in ast.unparse(e1),
                  rule, q, 'condition codes are the int64 inverse of get_unique_inverse (order of first appearance)',
                  f'`{ast.unparse(e1)[:80]}`', '', where(prog, f, c))
        e3 = inl.inline(args[3])
        obs.check(isinstance(e3, ast.Call) and _leaf(e3.func) == 'len' and any(
            isinstance(n, ast.Call) and _leaf(n.func) == 'get_unique_inverse' for n in ast.walk(e3)), rule, q,
            'n is the number of distinct conditions of the same get_unique_inverse call', f'`{ast.unparse(e3)[:80]}`', '', where(prog, f, c))
        names = [norm(a) for a in args[4:]]
        # slots 5-7 are parameters of the wrapper and must be passed by name; 4, 8, 9 are locals checked by provenance below
        obs.check(names[1:4] == ['noise', 'prior_lambda', 'prior_weight'], rule, q,
                  'noise and the priors are passed in the compiled signature\'s order', f'{names}', '', where(prog, f, c))
        mi, wi, cvn = (a.id if isinstance(a, ast.Name) else None for a in (args[4], args[8], args[9]))
        e4, e8, e9 = (inl.inline(a) for a in (args[4], args[8], args[9]))

        def consts(e):
            alts = e.args if isinstance(e, ast.Call) and _leaf(e.func) == 'PHI' else [e]
            return sorted(a.value for a in alts if isinstance(a, ast.Constant))
        def all_const(e):
            alts = e.args if isinstance(e, ast.Call) and _leaf(e.func) == 'PHI' else [e]
            return all(isinstance(a, ast.Constant) for a in alts)
        con4 = 'slot method_idx receives the method index (1..4)'
        if not all_const(e4):
            obs.unk(rule, q, con4, f'slot 4 receives `{ast.unparse(e4)[:60]}`: not a choice of integer literals (a table / enum look-up)', where(prog, f, c))
        else:
            obs.check(consts(e4) == [1, 2, 3, 4], rule, q, con4, f'slot 4 receives `{ast.unparse(e4)[:60]}`', '', where(prog, f, c))
        con89 = 'slots weighting and crossval receive the weighting index and the crossval flag (two different 0/1 locals)'
        if not (all_const(e8) and all_const(e9)):
            obs.unk(rule, q, con89, f'slot 8 `{ast.unparse(e8)[:40]}`, slot 9 `{ast.unparse(e9)[:40]}`: not choices of integer literals', where(prog, f, c))
        else:
            obs.check(consts(e8) == [0, 1] and consts(e9) == [0, 1] and wi != cvn, rule, q, con89,
                      f'slot 8 `{ast.unparse(e8)[:40]}`, slot 9 `{ast.unparse(e9)[:40]}`', '', where(prog, f, c))
        # which of the two 0/1 locals is the crossval flag: the one assigned next to the fold codes
        cv_local = None
        for g in ast.walk(f.node):
            if isinstance(g, ast.If) and isinstance(g.test, ast.Compare) and isinstance(g.test.left, ast.Name) \
                    and g.test.left.id == 'cv_descriptor' and isinstance(g.test.ops[0], (ast.Is, ast.IsNot)):
                for st in g.body:
                    if isinstance(st, ast.Assign) and isinstance(st.targets[0], ast.Name) and isinstance(st.value, ast.Constant) \
                            and st.value.value in (0, 1):
                        cv_local = st.targets[0].id
        def _aliases(name):
            """names whose value `name` may carry through plain copies: x = y, (x, y) = (a, b)"""
            out, todo = {name}, [name]
            while todo:
                cur = todo.pop()
                for st in ast.walk(f.node):
                    if not isinstance(st, ast.Assign) or len(st.targets) != 1:
                        continue
                    t, v = st.targets[0], st.value
                    pairs = []
                    if isinstance(t, ast.Name) and isinstance(v, ast.Name):
                        pairs = [(t.id, v.id)]
                    elif isinstance(t, (ast.Tuple, ast.List)) and isinstance(v, (ast.Tuple, ast.List)) and len(t.elts) == len(v.elts):
                        pairs = [(a.id, b.id) for a, b in zip(t.elts, v.elts) if isinstance(a, ast.Name) and isinstance(b, ast.Name)]
                    for a, b in pairs:
                        if a == cur and b not in out:
                            out.add(b)
                            todo.append(b)
            return out
        if cv_local is not None and cvn is not None and wi is not None:
            cvn_ok = cv_local in _aliases(cvn)
            wi_bad = cv_local in _aliases(wi)
            cvn, wi = (cv_local if cvn_ok else cvn), (cv_local if wi_bad else wi)
        if cv_local is not None:
            obs.check(cvn == cv_local and wi != cv_local, rule, q, 'the crossval flag is passed in the crossval slot (not in the '
                      'weighting slot)', f'crossval flag `{cv_local}` is passed as argument {8 if wi == cv_local else "?"}; slot 9 gets `{cvn}`',
                      '', where(prog, f, c))
        e2 = inl.inline(args[2])
        alts = e2.args if isinstance(e2, ast.Call) and _leaf(e2.func) == 'PHI' else [e2]
        def _flat(a):
            return [y for x in a.args for y in _flat(x)] if isinstance(a, ast.Call) and _leaf(a.func) == 'PHI' else [a]
        alts = [y for a in alts for y in _flat(a)]

        def _injective(a):
            # np.unique(..., return_inverse=True)[1] relabels distinct values by distinct integers; arange numbers observations
            t = ast.unparse(a)
            return 'return_inverse' in t or any(isinstance(n, ast.Call) and _leaf(n.func) == 'arange' for n in ast.walk(a))
        lossy = [a for a in alts if not _injective(a)]
        ok = bool(alts) and not lossy
        obs.check(ok, rule, q, 'fold codes are an injective integer relabelling of the fold descriptor (np.unique inverse, or one '
                  'code per observation)', (f'`{ast.unparse(lossy[0])[:90]}` reaches the compiled routine as fold code: distinct fold '
                                            f'values (e.g. 1.0 and 1.5) can collapse to one integer') if lossy else '',
                  '', where(prog, f, c))
    # crossval flag: 1 iff a cv descriptor is in force
    for g in ast.walk(f.node):
        if isinstance(g, ast.If) and isinstance(g.test, ast.Compare) and isinstance(g.test.left, ast.Name) \
                and g.test.left.id == 'cv_descriptor' and isinstance(g.test.ops[0], ast.Is) and g.orelse:
            b = {norm(s.targets[0]): s.value for s in g.body if isinstance(s, ast.Assign) and isinstance(s.value, ast.Constant)}
            o = {norm(s.targets[0]): s.value for s in g.orelse if isinstance(s, ast.Assign) and isinstance(s.value, ast.Constant)}
            for name in set(b) & set(o):
                if b[name].value in (0, 1) and o[name].value in (0, 1):
                    ok = b[name].value == 0 and o[name].value == 1
                    obs.check(ok, 'FOLD', q, 'crossval is set exactly when a fold descriptor is in force',
                              f'flag = {b[name].value} without / {o[name].value} with a cv descriptor', '', where(prog, f, g))
    # distance = self_i + self_j - 2 cross (polynomial over row@self, col@self, cross)
    ind = [s for s in ast.walk(f.node) if isinstance(s, ast.Assign) and isinstance(s.targets[0], ast.Tuple)
           and isinstance(s.value, ast.Call) and _leaf(s.value.func) in ('row_col_indicator_rdm', 'triu_indices')]
    if ind and all(isinstance(t, ast.Name) for t in ind[0].targets[0].elts):
        rn, cn = (t.id for t in ind[0].targets[0].elts)
        cands = [s for s in ast.walk(f.node) if isinstance(s, ast.Assign) and isinstance(s.value, ast.BinOp)
                 and any(isinstance(n, ast.Name) and n.id == rn for n in ast.walk(s.value))]

        def leaf(e):
            if isinstance(e, ast.BinOp) and isinstance(e.op, ast.MatMult) and isinstance(e.left, ast.Name) and e.left.id in (rn, cn) \
                    and isinstance(e.right, ast.Name):
                return poly.sym('SELF_' + ('r' if e.left.id == rn else 'c') + ':' + e.right.id)
            if isinstance(e, ast.Subscript) and isinstance(e.value, ast.Name) and isinstance(e.slice, ast.Name) and e.slice.id in (rn, cn):
                return poly.sym('SELF_' + ('r' if e.slice.id == rn else 'c') + ':' + e.value.id)      # self[row] / self[col]
            if isinstance(e, ast.Name) and e.id not in (rn, cn):
                return poly.sym('X:' + e.id)
            return None
        okd = None
        for s2 in cands:
            got = poly.from_expr(s2.value, leaf)
            if got is None:
                continue
            selfs = sorted(m for m in got if len(m) == 1 and m[0].startswith('SELF_'))
            xs = sorted(m for m in got if len(m) == 1 and m[0].startswith('X:'))
            okd = (len(selfs) == 2 and len(xs) == 1 and all(got[m] == 1 for m in selfs) and got[xs[0]] == -2
                   and selfs[0][0].split(':')[1] == selfs[1][0].split(':')[1] and len(got) == 3)
            obs.check(okd, rule, q, 'distance = self_i + self_j - 2 * cross',
                      f'`{norm(s2)[:80]}` == {poly.show(got)}: not row @ self + col @ self - 2 * cross', '', where(prog, f, s2))
        if okd is None:
            obs.unk(rule, q, 'distance = self_i + self_j - 2 * cross', 'combination of self and cross terms not recognised')
    else:
        obs.unk(rule, q, 'distance = self_i + self_j - 2 * cross', 'row / column index of the pairs (row_col_indicator_rdm, triu_indices) not found')
    rc = [s for s in ast.walk(f.node) if isinstance(s, ast.Assign) and isinstance(s.value, ast.Call)
          and _leaf(s.value.func) in ('row_col_indicator_rdm', 'triu_indices') and isinstance(s.targets[0], ast.Tuple)]
    for s in rc:
        e = inl.inline(s.value.args[0])
        obs.check(isinstance(e, ast.Call) and _leaf(e.func) == 'len', rule, q, 'the pair indices are built for the number of conditions',
                  f'`{norm(s)}`', '', where(prog, f, s))
    # self slots first, cross slots after: rdm[:n] / rdm[n:]
    sl = {norm(s.targets[0]): norm(s.value).replace(' ', '') for s in ast.walk(f.node) if isinstance(s, ast.Assign)
          and isinstance(s.value, ast.Subscript) and isinstance(s.value.slice, ast.Slice)}
    ok = sl.get('self_sim', '').startswith('rdm[:len(') and any(v.startswith('rdm[len(') and v.endswith(':]') for v in sl.values())
    obs.soft(ok, rule, q, 'the first n entries are the self-similarities, the rest the condensed cross terms', f'{sl}', '',
              where(prog, f, f.node))
    # labels: same unique_cond to _build_rdms
    for cr in calls_to(r, 'util.build_rdm._build_rdms'):
        b = bound_args(prog, 'util.build_rdm._build_rdms', cr)
        e = inl.inline(b['obs_desc_vals'][0]) if 'obs_desc_vals' in b else None
        ok = e is not None and any(isinstance(n, ast.Call) and _leaf(n.func) == 'get_unique_inverse' for n in ast.walk(e))
        obs.check(ok, 'PAIR', q, 'condition labels handed to _build_rdms are the unique values the codes refer to',
                  f'`{norm(cr.node)[:80]}`', '', where(prog, f, cr.node))
    q2 = W + 'calc_one_similarity'
    f2 = prog.func(q2)
    c2 = [c for c in ast.walk(f2.node) if isinstance(c, ast.Call) and _leaf(c.func) == 'calc_one']
    for c in c2:
        ok = len(c.args) >= 2 and all(isinstance(a, ast.Call) and _leaf(a.func) == 'ensure_double' for a in c.args[:2])
        obs.check(ok, rule, q2, 'both measurement arrays are converted to float64', f'`{norm(c)[:80]}`', '', where(prog, f2, c))
    # the compiled kernels take their branch from the noise / prior arguments (None -> euclidean path with per-pair channel
    # counts): what reaches them is what the caller passed, not a substitute filled in on the way (`noise = np.eye(n)` selects the
    # precision-matrix path, whose weights and buffers ignore missing channels)
    for qq, callee in ((W + 'calc_rdm_unbalanced', 'calc'), (W + 'calc_one_similarity', 'calc_one')):
        ff = prog.func(qq)
        rr = ctx.dep.result(qq)
        for c in [x for x in ast.walk(ff.node) if isinstance(x, ast.Call) and _leaf(x.func) == callee]:
            for a in list(c.args) + [k.value for k in c.keywords]:
                if isinstance(a, ast.Name) and a.id in ('noise', 'prior_lambda', 'prior_weight') and a.id in ff.params:
                    ids = rr.load_defs.get(id(a), frozenset())
                    pdef = {i for i in ids if rr.defs[i].kind == 'param'}
                    con = f'`{a.id}` reaches the compiled `{callee}` as the caller passed it'
                    if ids and ids == pdef:
                        obs.ok(rule, qq, con, '', where(prog, ff, c))
                    elif ids:
                        d = next(rr.defs[i] for i in ids if i not in pdef)
                        obs.bad(rule, qq, con, f'`{norm(d.node)[:70]}` replaces the caller\'s `{a.id}` on some path before the call: the compiled '
                                f'routine then runs the branch for the substitute (e.g. the precision-matrix path instead of the '
                                f'euclidean one, which handles missing channels differently)', where(prog, ff, d.node))
    q3 = W + 'ensure_double'
    f3 = prog.func(q3)
    ok = any(isinstance(c, ast.Call) and _leaf(c.func) in ('astype', 'asarray', 'array', 'ascontiguousarray') and 'float64' in norm(c)
             for c in ast.walk(f3.node))
    obs.check(ok, rule, q3, 'ensure_double converts to float64', 'no conversion to float64', '', where(prog, f3, f3.node))


# -------------------------------------------------------------------------------------------------------- INTDIV
def int_division(ctx, obs, mod, rule='INTDIV'):
    """Under `@cython.cdivision(True)` a `/` whose two operands are C integers (integer literals, variables declared `int` /
    `int_t`) is C integer division.  Where the quotient feeds a float accumulator it silently truncates: `weights[idx] += 1 / 2`
    adds 0.  Quotients stored into integer targets (index arithmetic) are intended integer divisions."""
    import re
    src_path = os.path.join(ctx.prog.root, PYX)
    with open(src_path) as fh:
        raw = fh.read().split('\n')
    cdiv = set()
    for i, line in enumerate(raw):
        m = re.match(r'^\s*(cpdef|cdef|def)\s+.*?(\w+)\s*\(', line)
        if m:
            j = i - 1
            while j >= 0 and raw[j].strip().startswith('@'):
                if 'cdivision(True)' in raw[j].replace(' ', ''):
                    cdiv.add(m.group(2))
                j -= 1
    n = 0
    for fn in mod.funcs.values():
        if fn.name not in cdiv:
            continue
        types = dict(fn.param_types)
        types.update(fn.local_types)

        def is_int(e) -> bool:
            if isinstance(e, ast.Constant):
                return isinstance(e.value, int) and not isinstance(e.value, bool)
            if isinstance(e, ast.Name):
                return types.get(e.id, '').strip() in ('int', 'int_t', 'long', 'Py_ssize_t', 'size_t')
            if isinstance(e, ast.Subscript) and isinstance(e.value, ast.Name):
                return types.get(e.value.id, '').startswith(('int', 'long'))
            if isinstance(e, ast.BinOp) and isinstance(e.op, (ast.Add, ast.Sub, ast.Mult, ast.Div, ast.FloorDiv, ast.Mod)):
                return is_int(e.left) and is_int(e.right)
            if isinstance(e, ast.UnaryOp):
                return is_int(e.operand)
            return False

        def is_float_target(t) -> bool:
            if isinstance(t, ast.Name):
                return 'float' in types.get(t.id, '') or 'double' in types.get(t.id, '')
            if isinstance(t, ast.Subscript) and isinstance(t.value, ast.Name):
                return 'float' in types.get(t.value.id, '') or 'double' in types.get(t.value.id, '')
            return False
        for s in ast.walk(fn.node):
            if isinstance(s, (ast.Assign, ast.AugAssign)):
                tgt = s.targets[0] if isinstance(s, ast.Assign) else s.target
                for d in ast.walk(s.value):
                    if isinstance(d, ast.BinOp) and isinstance(d.op, ast.Div) and is_int(d.left) and is_int(d.right):
                        n += 1
                        # the quotient is truncated only if it is still an integer expression where it meets a float
                        whole_int = is_int(s.value)
                        if is_float_target(tgt):
                            # sim / 2 with sim float is fine (is_int false); only all-integer quotients get here
                            obs.bad(rule, _q(fn), f'`{norm(d)}` feeding `{norm(tgt)}` is a floating-point quotient',
                                    f'`{norm(s)[:70]}`: under cdivision(True) `{norm(d)}` is C integer division (= {_c_int_div(d)}), '
                                    f'so the float accumulator `{norm(tgt)}` receives the truncated value', _site(mod, s))
                        else:
                            obs.ok(rule, _q(fn), f'`{norm(d)[:40]}` is integer index arithmetic', f'target `{norm(tgt)}`' +
                                   (' (integer expression)' if whole_int else ''), _site(mod, s))
    obs.analysed['pyx_integer_divisions'] = n


def _c_int_div(d):
    if isinstance(d.left, ast.Constant) and isinstance(d.right, ast.Constant) and d.right.value:
        return str(int(d.left.value / d.right.value))
    return 'truncated'
