"""C09 - Bootstrap samples are faithful with-replacement resamples of whole groups (structural clauses)."""
from __future__ import annotations
import ast

from ..model import AnalysisError
from ..flow import depends_on_param
from ..rules.common import where, norm, Inliner, calls_to, bound_args
from ..rules.containers import selection_pairing, field_provenance

EXPLANATION = (
    'Static necessary-condition analysis of inference/bootstrap.py and RDMs.subsample / subsample_pattern: (DRAW) every '
    'index draw is np.random.randint(0, len(S), size=len(S)) (or an equivalent choice) over one and the same S = '
    'np.unique(grouping descriptor), and the index array handed back is S[draw]; (PAIR) the returned index arrays are the '
    'ones passed to subsample / subsample_pattern with the descriptor name the draw used; (NAN) in subsample_pattern the '
    'diagonal is set to NaN on a freshly allocated matrix form before the fancy-index expansion, so exactly pairs of '
    'copies of one condition are NaN; (AXIS-pair) one selection indexes matrices on both condition axes and extracts the '
    'pattern descriptors (RDM axis likewise); descriptors of the result derive from the source. RNG discipline is decided '
    'under C04, purity/aliasing under C12. Entry-wise equality with the source and uniformity are NOT decided.'
    ' Also: (SEL-DESC) subsample / subsample_pattern find positions from the descriptor values in every arm.')
ASSUMPTIONS = ['np.random.randint(low, high, size) draws uniformly from [low, high) with replacement',
               'get_matrices() allocates (contracts/effects.json override, guarded by the STATE obligation of C12)']
FLOOR = 25
RULE_FLOORS = {'DRAW': 8, 'PAIR': 6}

B = 'inference.bootstrap.'
FUNCS = {'bootstrap_sample': ('rdm', 'pattern'), 'bootstrap_sample_rdm': ('rdm',), 'bootstrap_sample_pattern': ('pattern',)}


def run(ctx, obs):
    from ..rules import sweeps
    sweeps.run(ctx, obs, 'C09')
    from ..rules import order as _ord
    _ord.report(ctx, obs, ['rdm.rdms.', 'inference.bootstrap.', 'util.descriptor_utils.'])
    for fn, kinds in FUNCS.items():
        draws(ctx, obs, B + fn, kinds)
    nan_placement(ctx, obs)
    for m in ('subsample', 'subsample_pattern'):
        q = 'rdm.rdms.RDMs.' + m
        n = selection_pairing(ctx, obs, q)
        if n == 0:
            obs.unk('AXIS-pair', q, 'selection pairing', 'no selection recognised')
        field_provenance(ctx, obs, q, ['RDMs'], ['descriptors', 'rdm_descriptors', 'pattern_descriptors'])
        from ..rules.containers import selection_consults_descriptor
        selection_consults_descriptor(ctx, obs, q)


def _leaf(fn):
    return fn.attr if isinstance(fn, ast.Attribute) else (fn.id if isinstance(fn, ast.Name) else '')


def draws(ctx, obs, q, kinds):
    prog = ctx.prog
    f = prog.func(q)
    r = ctx.dep.result(q)
    inl = Inliner(r, None, ('rdms',))
    rnd = [c for c in r.calls if c.ext and c.ext.split('.')[-1] in ('randint', 'choice', 'integers', 'random_integers')]
    if len(rnd) != len(kinds):
        obs.bad('DRAW', q, f'one index draw per resampled factor ({len(kinds)})',
                f'{len(rnd)} random index draws found for factors {kinds}', where(prog, f, f.node))
    sel_calls = {'rdm': [c for c in r.calls if c.attr == 'subsample'],
                 'pattern': [c for c in r.calls if c.attr == 'subsample_pattern']}
    for c in rnd:
        leaf = c.ext.split('.')[-1]
        a = c.node.args
        kw = {k.arg: k.value for k in c.node.keywords}
        if leaf == 'randint':
            low = a[0] if len(a) > 0 else kw.get('low')
            high = a[1] if len(a) > 1 else kw.get('high')
            size = a[2] if len(a) > 2 else kw.get('size')
            if high is None:      # randint(n): low is the bound
                low, high = ast.Constant(value=0), low
            ok_low = isinstance(low, ast.Constant) and low.value == 0
            obs.check(ok_low, 'DRAW', q, f'draw #{c.ordinal} starts at group 0', f'`{norm(c.node)}` lower bound is not 0: '
                      f'the first group(s) can never be drawn', '', where(prog, f, c.node))
        elif leaf == 'choice':
            high = a[0] if a else kw.get('a')
            size = a[1] if len(a) > 1 else kw.get('size')
            rep = kw.get('replace')
            obs.check(rep is None or (isinstance(rep, ast.Constant) and rep.value is True), 'DRAW', q,
                      f'draw #{c.ordinal} is with replacement', f'`{norm(c.node)}` draws without replacement', '',
                      where(prog, f, c.node))
        else:
            obs.unk('DRAW', q, f'draw #{c.ordinal} form', f'`{norm(c.node)}` not a recognised draw')
            continue
        hi, sz = inl.inline(high) if high is not None else None, inl.inline(size) if size is not None else None
        S_hi = _len_arg(hi)
        S_sz = _len_arg(sz)
        obs.check(S_hi is not None and S_sz is not None and ast.dump(S_hi) == ast.dump(S_sz), 'DRAW', q,
                  f'draw #{c.ordinal} draws as many groups as there are groups (high == size == len(S))',
                  f'`{norm(c.node)}`: upper bound `{ast.unparse(hi) if hi is not None else None}` and size '
                  f'`{ast.unparse(sz) if sz is not None else None}` are not the length of one and the same group list', '',
                  where(prog, f, c.node))
        if S_hi is None:
            continue
        uniq = any(isinstance(n, ast.Call) and _leaf(n.func) in ('unique', 'add_pattern_index') for n in ast.walk(S_hi))
        obs.check(uniq, 'DRAW', q, f'draw #{c.ordinal} ranges over the distinct descriptor values (np.unique)',
                  f'group list `{ast.unparse(S_hi)[:80]}` is not the set of distinct descriptor values: repeated values '
                  f'are drawn as separate groups', '', where(prog, f, c.node))
        # which factor: the descriptor the group list reads
        factor = 'rdm' if any(isinstance(n, ast.Attribute) and n.attr == 'rdm_descriptors' for n in ast.walk(S_hi)) else 'pattern'
        # the index array is S[draw] and reaches the matching selector and the return value
        sels = sel_calls.get(factor, [])
        if not sels:
            obs.bad('PAIR', q, f'{factor} draw #{c.ordinal} is applied through sub{"sample" if factor == "rdm" else "sample_pattern"}',
                    f'no {"subsample" if factor == "rdm" else "subsample_pattern"} call uses the draw', where(prog, f, c.node))
            continue
        for s in sels:
            args = list(s.node.args) + [k.value for k in s.node.keywords]
            if len(args) < 2:
                continue
            val = inl.inline(args[1])
            ok = isinstance(val, ast.Subscript) and ast.dump(val.value) == ast.dump(S_hi) and _is_call_site(val.slice, c.node)
            obs.check(ok, 'PAIR', q, f'{factor} selection is S[draw] of draw #{c.ordinal}',
                      f'`{norm(s.node)[:80]}` selects `{ast.unparse(val)[:80]}`, not the group list indexed by this draw', '',
                      where(prog, f, s.node))
            by = inl.inline(args[0])
            want = 'PARAM_rdm_descriptor' if factor == 'rdm' else None
            if factor == 'rdm':
                okd = isinstance(by, ast.Name) and by.id == want
            else:
                okd = any(isinstance(n, ast.Name) and n.id == 'PARAM_pattern_descriptor' for n in ast.walk(by))
            con_by = f'{factor} selection uses the descriptor the groups were read from'
            wantp = 'PARAM_rdm_descriptor' if factor == 'rdm' else 'PARAM_pattern_descriptor'
            # a field of a record / the result of a helper that was given the descriptor: which field is which is not decided here
            carried = isinstance(by, (ast.Attribute, ast.Subscript, ast.Call)) and any(isinstance(n, ast.Name) and n.id == wantp for n in ast.walk(by))
            if not okd and carried:
                obs.unk('PAIR', q, con_by, f'`{norm(s.node)[:80]}` selects by `{ast.unparse(by)[:50]}`, which carries the descriptor name', where(prog, f, s.node))
            else:
                obs.check(okd, 'PAIR', q, con_by, f'`{norm(s.node)[:80]}` selects by `{ast.unparse(by)[:50]}`', '', where(prog, f, s.node))
            # returned index is the same expression
            ret_ok = False
            for node, _, _ in r.returns:
                if node is not None and isinstance(node.value, ast.Tuple):
                    for e in node.value.elts[1:]:
                        if ast.dump(inl.inline(e)) == ast.dump(val):
                            ret_ok = True
            obs.check(ret_ok, 'PAIR', q, f'the {factor} index array returned is the one that was applied',
                      'the returned index array is not the array passed to the selector: resampling a prediction with it '
                      'gives other conditions than the sample has', '', where(prog, f, s.node))
    # the sample returned is the result of the selectors applied in sequence
    for node, _, _ in r.returns:
        if node is not None and isinstance(node.value, ast.Tuple):
            e = inl.inline(node.value.elts[0])
            names = [n.func.attr for n in ast.walk(e) if isinstance(n, ast.Call) and isinstance(n.func, ast.Attribute)
                     and n.func.attr in ('subsample', 'subsample_pattern')]
            want = {'rdm': 'subsample', 'pattern': 'subsample_pattern'}
            obs.check(sorted(names) == sorted(want[k] for k in kinds), 'PAIR', q,
                      'the returned sample is the data resampled along every drawn factor',
                      f'returned sample is built by {names}, factors are {kinds}', '', where(prog, f, node))


def _len_arg(e):
    if isinstance(e, ast.Call) and isinstance(e.func, ast.Name) and e.func.id == 'len' and e.args:
        return e.args[0]
    return None


def _is_call_site(e, call_node):
    return isinstance(e, ast.Call) and ast.dump(e.func) == ast.dump(call_node.func) and len(e.args) == len(call_node.args)


def nan_placement(ctx, obs, rule='NAN'):
    """pairs of two copies of one condition are NaN because the DIAGONAL of the source matrices is set to NaN before rows / columns
    are duplicated by the fancy-index expansion.  Recognised ways of setting the diagonal: np.fill_diagonal per RDM (in a loop over
    the stack, value np.nan) or an indexed store M[..., I, I] = np.nan with the same index on the last two axes.  Recognised wrong
    forms are violations (fill value not NaN, fill_diagonal applied once to the 3-D stack, NaN assigned by a test on the VALUES
    such as `== 0`, diagonal set after the expansion); an unrecognised construction is undecided."""
    prog = ctx.prog
    q = 'rdm.rdms.RDMs.subsample_pattern'
    f = prog.func(q)
    r = ctx.dep.result(q)
    inl = Inliner(r, None, ())
    fills = [c for c in r.calls if c.ext and c.ext.endswith('fill_diagonal')]
    diag_events = []          # (statement, description)
    for c in fills:
        tgt = inl.inline(c.node.args[0])
        fresh = any(isinstance(n, ast.Call) and isinstance(n.func, ast.Attribute) and n.func.attr == 'get_matrices'
                    for n in ast.walk(tgt))
        obs.check(fresh, rule, q, 'NaN is written into the freshly allocated matrix form (get_matrices)',
                  f'`{norm(c.node)}` writes into `{ast.unparse(tgt)[:60]}`, not into the matrices returned by get_matrices()',
                  '', where(prog, f, c.node))
        val = c.node.args[1] if len(c.node.args) > 1 else None
        obs.check(isinstance(val, ast.Attribute) and val.attr == 'nan', rule, q, 'the diagonal value is NaN',
                  f'`{norm(c.node)}` fills with `{norm(val) if val is not None else None}`', '', where(prog, f, c.node))
        obs.check(bool(c.in_loops), rule, q, 'every RDM of the stack gets its diagonal set', 'fill_diagonal is not in a loop '
                  'over the RDMs (on a 3-D stack it would set m[i, i, i])', '', where(prog, f, c.node))
        diag_events.append(c.node)
    for s in ast.walk(f.node):
        if isinstance(s, ast.Assign) and isinstance(s.targets[0], ast.Subscript) and isinstance(s.targets[0].slice, ast.Tuple) \
                and len(s.targets[0].slice.elts) >= 2 and _is_nan_value(s.value):
            a, b = s.targets[0].slice.elts[-2:]
            if ast.dump(a) == ast.dump(b) and not isinstance(a, ast.Slice):
                tgt = inl.inline(s.targets[0].value)
                fresh = any(isinstance(n, ast.Call) and isinstance(n.func, ast.Attribute) and n.func.attr == 'get_matrices'
                            for n in ast.walk(tgt))
                obs.check(fresh, rule, q, 'NaN is written into the freshly allocated matrix form (get_matrices)',
                          f'`{norm(s)[:70]}` writes into `{ast.unparse(tgt)[:60]}`', '', where(prog, f, s))
                diag_events.append(s)
        # NaN assigned where the VALUE is 0: also hits genuine zero dissimilarities between different conditions
        if isinstance(s, ast.Assign) and isinstance(s.targets[0], ast.Subscript) and _is_nan_value(s.value) \
                and isinstance(s.targets[0].slice, ast.Compare) and isinstance(s.targets[0].slice.ops[0], ast.Eq) \
                and isinstance(s.targets[0].slice.comparators[0], ast.Constant) and s.targets[0].slice.comparators[0].value == 0:
            obs.bad(rule, q, 'entries become NaN because of WHICH pair they are, not because of their value',
                    f'`{norm(s)[:80]}` turns every zero dissimilarity into NaN, also between two different conditions',
                    where(prog, f, s))
    # NaN placed through np.diff(selection) == 0: only NEIGHBOURING copies are paired; with three or more copies of one condition
    # the first-third (etc.) pairs keep the value 0
    for s_ in ast.walk(f.node):
        if isinstance(s_, ast.Assign) and isinstance(s_.targets[0], ast.Subscript) and _is_nan_value(s_.value):
            idx_e = inl.inline(s_.targets[0].slice)
            if any(isinstance(c, ast.Call) and isinstance(c.func, ast.Attribute) and c.func.attr == 'diff' for c in ast.walk(idx_e)):
                obs.bad(rule, q, 'every pair of copies of one condition becomes NaN',
                        f'`{norm(s_)[:80]}` locates the copies with np.diff(...) == 0, i.e. only adjacent copies: a condition drawn three '
                        f'times leaves the pair (first, third) at 0', where(prog, f, s_))
    if not diag_events:
        obs.unk(rule, q, 'the diagonal of the matrix form is set to NaN', 'no recognised way of setting the diagonal (np.fill_diagonal '
                'per RDM, or M[..., I, I] = np.nan)', where(prog, f, f.node))
        return
    fills = [type('X', (), {'node': diag_events[0]})()]
    # order: fill happens before the expansion by the selection
    top = f.node.body
    fill_pos = next((i for i, s in enumerate(top) if any(n is fills[0].node for n in ast.walk(s))), None)
    exp_pos = None
    for i, s in enumerate(top):
        if isinstance(s, ast.Assign) and isinstance(s.value, ast.Subscript):
            root = s.value
            depth = 0
            while isinstance(root, ast.Subscript):
                root = root.value
                depth += 1
            if depth >= 2 and isinstance(root, ast.Name):
                e = inl.inline(root)
                if any(isinstance(n, ast.Call) and isinstance(n.func, ast.Attribute) and n.func.attr == 'get_matrices'
                       for n in ast.walk(e)) or root.id in ('dissimilarities', 'matrices'):
                    exp_pos = i
    if fill_pos is None or exp_pos is None:
        obs.unk(rule, q, 'diagonal is set before the fancy-index expansion', 'statements not recognised at top level')
    else:
        obs.check(fill_pos < exp_pos, rule, q, 'diagonal is set before the fancy-index expansion',
                  'np.fill_diagonal runs after the rows/columns were duplicated: pairs of two copies of one condition '
                  'off the new diagonal keep the value 0', '', where(prog, f, top[exp_pos]))


def _is_nan_value(v):
    return (isinstance(v, ast.Attribute) and v.attr == 'nan') or (isinstance(v, ast.Call) and isinstance(v.func, ast.Name)
                                                                  and v.func.id == 'float' and v.args
                                                                  and isinstance(v.args[0], ast.Constant) and v.args[0].value == 'nan')
