"""C03 - RDM comparison measures equal their definitions for every pair of RDMs (structural clauses)."""
from __future__ import annotations
import ast

from ..rules.axis import AxisEval, Contract
from ..rules.common import Inliner, fwd_same_name, sym_operands, where, norm, calls_to, bound_args
from .c01 import _eq_const

EXPLANATION = (
    'Static necessary-condition analysis of rdm/compare.py: (EXH) every method string of compare() dispatches to its '
    'compare_* function and unknown strings raise; (AXIS) axis-role inference proves that every measure returns an array '
    'with axes (RDMs of stack 1, RDMs of stack 2) and that every normaliser divides the operand it was reduced from - '
    'a transposed result has the same shape for equal stack sizes, so tests cannot see it; (SYM) operand 1 and operand 2 '
    'are centred / ranked / normalised / whitened by identical code up to renaming; (FWD) sigma_k reaches every '
    'whitening helper. Numeric agreement with the definitions, ranges and permutation invariance are NOT decided.'
    ' Also: (RUNLEN) run-length counting has a sentinel at both ends (joint ties of tau-a).'
    ' Round 6: (LOSSY-GUARD) sigma_k is not discarded on the evidence of its diagonal alone.')
ASSUMPTIONS = [
    'role contracts of the kernels (sa/props/c03.py CONTRACTS) follow the docstrings: vector1 = (A, P), vector2 = (B, P)',
    'numpy broadcasting / einsum / reduction semantics as encoded in sa/rules/axis.py',
]
FLOOR = 40
RULE_FLOORS = {'AXIS': 12, 'SYM': 8, 'EXH': 12}

M = 'rdm.compare.'
AB = ('A', 'B')
VEC = {'vector1': ('A', 'P'), 'vector2': ('B', 'P')}
CONTRACTS = {
    M + '_parse_input_rdms': Contract({}, None, [('A', 'P'), ('B', 'P'), ('P',)]),
    M + '_cosine': Contract(dict(VEC), AB),
    M + '_cosine_cov_weighted': Contract({**VEC, 'nan_idx': ('P',)}, AB),
    M + '_cosine_cov_weighted_slow': Contract({**VEC, 'nan_idx': ('P',)}, AB),
    M + '_cov_weighting': Contract({'vector': ('R', 'P'), 'nan_idx': ('P0',)}, ('R', 'Q')),
    M + '_all_combinations': Contract({'vectors1': ('A', 'P'), 'vectors2': ('B', 'P')}, AB),
    'util.rdm_utils.batch_to_matrices': Contract({'x': ('R', 'P')}, None, [('R', 'C', 'C'), None, None]),
}
COMPARE_FUNCS = ['compare_cosine', 'compare_correlation', 'compare_cosine_cov_weighted',
                 'compare_correlation_cov_weighted', 'compare_spearman', 'compare_rho_a', 'compare_kendall_tau',
                 'compare_kendall_tau_a', 'compare_neg_riemannian_distance', 'compare_bures_similarity',
                 'compare_bures_metric']
for _f in COMPARE_FUNCS:
    CONTRACTS[M + _f] = Contract({}, AB)

DISPATCH = {
    'cosine': 'compare_cosine', 'spearman': 'compare_spearman', 'corr': 'compare_correlation',
    'kendall': 'compare_kendall_tau', 'tau-b': 'compare_kendall_tau', 'tau-a': 'compare_kendall_tau_a',
    'rho-a': 'compare_rho_a', 'corr_cov': 'compare_correlation_cov_weighted',
    'cosine_cov': 'compare_cosine_cov_weighted', 'bures': 'compare_bures_similarity',
    'bures_metric': 'compare_bures_metric',
}


def run(ctx, obs):
    tau_a_formula(ctx, obs)
    putmask_values(ctx, obs)
    isotropic_fast_path(ctx, obs)
    # Kendall tau-a: the second sort (by x) must keep the y-order inside x-ties, which the first sort established - both go
    # through _sort_and_rank, so its argsort has to be a stable one
    from ..rules.containers import stable_sorts
    if stable_sorts(ctx, obs, 'rdm.compare._sort_and_rank') == 0:
        obs.unk('SORT-stable', 'rdm.compare._sort_and_rank', 'argsort', 'no argsort call')
    from ..rules.ranks import tie_averaged, ranked_on_all_paths
    for _fn in ('compare_spearman', 'compare_rho_a'):
        tie_averaged(ctx, obs, 'rdm.compare.' + _fn)
        ranked_on_all_paths(ctx, obs, 'rdm.compare.' + _fn)
    from ..rules import sweeps
    sweeps.run(ctx, obs, 'C03')
    prog = ctx.prog
    xi_linear(ctx, obs, M + '_get_v')
    xi_linear(ctx, obs, 'util.matrix.get_v')
    dispatch(ctx, obs)
    # AXIS: every measure and helper returns (A, B)
    kernels = [M + x for x in COMPARE_FUNCS] + [M + '_cosine', M + '_cosine_cov_weighted',
                                                 M + '_cosine_cov_weighted_slow', M + '_all_combinations']
    typed = 0
    for q in kernels:
        ev = AxisEval(ctx, q, CONTRACTS)
        typed += ev.check_function(obs, 'AXIS', AB)
    ev = AxisEval(ctx, M + '_cov_weighting', CONTRACTS)
    ev.check_function(obs, 'AXIS', None)
    obs.analysed['axis_statements_typed'] = typed
    # SYM
    for fn in COMPARE_FUNCS:
        sym_operands(ctx, obs, M + fn, source_leaf='_parse_input_rdms')
    for fn in ('_cosine', '_cosine_cov_weighted', '_cosine_cov_weighted_slow'):
        sym_operands(ctx, obs, M + fn, source_params=('vector1', 'vector2'))
    # both operands enter the two-operand sinks in stack order
    operand_order(ctx, obs)
    # FWD sigma_k / nan_idx
    fwd_same_name(ctx, obs, M + 'compare', ['sigma_k'])
    for fn in ('compare_cosine_cov_weighted', 'compare_correlation_cov_weighted', '_cosine_cov_weighted',
               '_cosine_cov_weighted_slow'):
        fwd_same_name(ctx, obs, M + fn, ['sigma_k', 'nan_idx'])


def xi_linear(ctx, obs, q, rule='DEG'):
    """Xi = C Sigma C' is linear in the pattern covariance for every form of sigma_k; V = Xi o Xi is then quadratic."""
    from ..rules.degree import degree
    prog = ctx.prog
    f = prog.func(q)
    r = ctx.dep.result(q)
    n = 0
    for node, _, _ in r.returns:
        if node is None or node.value is None:
            continue
        d = degree(r, node.value, 'sigma_k')
        n += 1
        con = 'the RDM covariance V = Xi o Xi is quadratic in sigma_k (Xi = C Sigma C\' is linear in it)'
        if d is None:
            obs.unk(rule, q, con, f'degree of `{norm(node.value)[:50]}` in sigma_k not determined', where(prog, f, node))
        elif d == 2:
            obs.ok(rule, q, con, '', where(prog, f, node))
        else:
            obs.bad(rule, q, con, f'`{norm(node.value)[:50]}` has degree {d} in sigma_k on some path (e.g. the contrast matrix scaled by the '
                    f'variances and multiplied with itself gives C diag(s^2) C\'): vector and matrix forms of the same covariance no '
                    f'longer give the same V', where(prog, f, node))
    if n == 0:
        obs.unk(rule, q, 'degree of V in sigma_k', 'no return value')


def dispatch(ctx, obs, rule='EXH'):
    from ..rules.common import string_dispatch
    prog = ctx.prog
    q = M + 'compare'
    f = prog.func(q)
    r = ctx.dep.result(q)
    form, arms = string_dispatch(f, 'method', prog.module_of(f).tree)
    if form is None:
        obs.unk(rule, q, 'every method string dispatches to its comparison function', 'dispatch on `method` not recognised (neither an '
                'if/elif chain nor a consulted table)', where(prog, f, f.node))
        return
    for key, fn in DISPATCH.items():
        if key not in arms:
            obs.bad(rule, q, f'method {key!r} has an arm', f'compare() has no arm for method {key!r}', where(prog, f, f.node))
            continue
        node, names = arms[key]
        if form == 'table':
            obs.check(fn in names, rule, q, f'method {key!r} dispatches to {fn}',
                      f'the table row for {key!r} names {sorted(names)}', '', where(prog, f, node))
            continue
        s = node
        inside = {id(n) for st in s.body for n in ast.walk(st)}
        cs = [c for c in r.calls if id(c.node) in inside and c.callees]
        callees = {x for c in cs for x in c.callees}
        obs.check(M + fn in callees, rule, q, f'method {key!r} dispatches to {fn}',
                  f'the arm for {key!r} calls {sorted(callees)}', '', where(prog, f, s))
        for c in cs:
            if M + fn in c.callees:
                b = bound_args(prog, M + fn, c)
                ok = ('rdm1' in b and isinstance(b['rdm1'][0], ast.Name) and b['rdm1'][0].id == 'rdm1'
                      and 'rdm2' in b and isinstance(b['rdm2'][0], ast.Name) and b['rdm2'][0].id == 'rdm2')
                obs.check(ok, rule, q, f'method {key!r}: rdm1, rdm2 are passed in order',
                          f'`{norm(c.node)}` does not pass (rdm1, rdm2) in this order: rows/columns of the result swap',
                          '', where(prog, f, c.node))
    if form == 'table':
        # calls through the selected function value: (rdm1, rdm2) in order
        for c in r.calls:
            if not c.callees and isinstance(c.node.func, ast.Name) and len(c.node.args) >= 2:
                a0, a1 = c.node.args[:2]
                if isinstance(a0, ast.Name) and isinstance(a1, ast.Name) and {a0.id, a1.id} == {'rdm1', 'rdm2'}:
                    obs.check(a0.id == 'rdm1', rule, q, 'the selected function receives (rdm1, rdm2) in order',
                              f'`{norm(c.node)}` swaps the two stacks', '', where(prog, f, c.node))
        raises = any(isinstance(n, ast.Raise) for n in ast.walk(f.node))
        obs.soft(raises, rule, q, 'unknown method is rejected', 'no raise found', '', where(prog, f, f.node))
        return
    chain = [n for n, _ in arms.values()]
    last = max(chain, key=lambda n: n.lineno)
    ok = bool(last.orelse) and isinstance(last.orelse[-1], ast.Raise)
    obs.check(ok, rule, q, 'unknown method is rejected (chain ends in raise)',
              'no final else-arm raising for unknown method strings', '', where(prog, f, last))
    # the result of the selected arm is what is returned
    rets = [n for n, _, _ in r.returns if n is not None and n.value is not None]
    for n in rets:
        obs.check(isinstance(n.value, ast.Name) and all(
            any(isinstance(t, ast.Name) and t.id == n.value.id for st in arms[k][0].body if isinstance(st, ast.Assign)
                for t in st.targets) for k in DISPATCH if k in arms) or isinstance(n.value, ast.Call),
                  rule, q, 'the value computed by the selected arm is returned', 'return value is not the arm result',
                  '', where(prog, f, n))


def _keys(test, var):
    k = _eq_const(test, var)
    if k is not None:
        return [k]
    if isinstance(test, ast.Compare) and len(test.ops) == 1 and isinstance(test.ops[0], ast.In) \
            and isinstance(test.left, ast.Name) and test.left.id == var \
            and isinstance(test.comparators[0], (ast.Tuple, ast.List, ast.Set)):
        return [e.value for e in test.comparators[0].elts if isinstance(e, ast.Constant) and isinstance(e.value, str)]
    return []


def operand_order(ctx, obs, rule='AXIS'):
    """in _all_combinations the callback receives (element of stack 1, element of stack 2) and the value is stored at
    [counter over stack 1, counter over stack 2]"""
    prog = ctx.prog
    q = M + '_all_combinations'
    f = prog.func(q)
    r = ctx.dep.result(q)
    from ..rules.common import Inliner, mentions
    inl = Inliner(r, None, ('vectors1', 'vectors2'))
    for c in r.calls:
        if c.fn_text == 'func' and len(c.node.args) >= 2:
            e0, e1 = inl.inline(c.node.args[0]), inl.inline(c.node.args[1])
            ok = (mentions(e0, 'SRC0') and not mentions(e0, 'SRC1') and mentions(e1, 'SRC1') and not mentions(e1, 'SRC0'))
            obs.check(ok, rule, q, 'callback receives (element of stack 1, element of stack 2)',
                      f'`{norm(c.node)}`: first/second argument do not derive from vectors1/vectors2 respectively',
                      '', where(prog, f, c.node))


def isotropic_fast_path(ctx, obs, rule='ISO'):
    """_cov_weighting double-centres the second-moment vectors and THEN rescales them by 1/sqrt(sigma_i sigma_j).  Centring and
    rescaling commute only when all variances are equal, so the fast path equals r1' V^-1 r2 / sqrt(..) (V = (C Sigma C')^2
    elementwise, the definition used by the slow path and for matrix-valued sigma_k) only for an isotropic Sigma.  Structural
    clause: every route from _cosine_cov_weighted to _cov_weighting with a given sigma_k passes a test on the VALUES of sigma_k
    (not only on `is None` / `.ndim`)."""
    prog = ctx.prog
    q = M + '_cosine_cov_weighted'
    f = prog.func(q)
    calls = [c for c in ast.walk(f.node) if isinstance(c, ast.Call) and isinstance(c.func, ast.Name) and c.func.id == '_cov_weighting']
    if not calls:
        obs.unk(rule, q, 'fast whitening path', 'no _cov_weighting call', where(prog, f, f.node))
        return
    sparam = 'sigma_k'

    def value_test(t) -> bool:
        """does the expression look at the entries of sigma_k (anything beyond `sigma_k is None` and `sigma_k.ndim/shape`)?"""
        for n in ast.walk(t):
            if isinstance(n, ast.Name) and n.id == sparam:
                par = parents.get(id(n))
                if isinstance(par, ast.Compare) and any(isinstance(o, (ast.Is, ast.IsNot)) for o in par.ops):
                    continue
                if isinstance(par, ast.Attribute) and par.attr in ('ndim', 'shape', 'size', 'dtype'):
                    continue
                return True
        return False
    parents = {}
    for n in ast.walk(f.node):
        for ch in ast.iter_child_nodes(n):
            parents[id(ch)] = n
    import itertools

    def atoms_of(t, acc):
        """split a boolean expression into atoms; returns a function env -> bool"""
        if isinstance(t, ast.BoolOp):
            subs = [atoms_of(v, acc) for v in t.values]
            if isinstance(t.op, ast.And):
                return lambda env: all(fn(env) for fn in subs)
            return lambda env: any(fn(env) for fn in subs)
        if isinstance(t, ast.UnaryOp) and isinstance(t.op, ast.Not):
            inner = atoms_of(t.operand, acc)
            return lambda env: not inner(env)
        key = ast.dump(t)
        # atoms with a fixed value in the scenario
        if isinstance(t, ast.Compare) and len(t.ops) == 1 and isinstance(t.left, ast.Name) and t.left.id == sparam \
                and isinstance(t.comparators[0], ast.Constant) and t.comparators[0].value is None:
            val = isinstance(t.ops[0], ast.IsNot)
            return lambda env: val
        if isinstance(t, ast.Compare) and len(t.ops) == 1 and isinstance(t.left, ast.Attribute) and t.left.attr == 'ndim' \
                and isinstance(t.left.value, ast.Name) and t.left.value.id == sparam and isinstance(t.comparators[0], ast.Constant):
            k, op = t.comparators[0].value, t.ops[0]

            def ndim_atom(env, k=k, op=op):
                nd = env['ndim']
                return {ast.GtE: nd >= k, ast.Gt: nd > k, ast.Eq: nd == k, ast.NotEq: nd != k, ast.Lt: nd < k, ast.LtE: nd <= k}[type(op)]
            return ndim_atom
        kind = 'VT' if value_test(t) else 'U'
        acc.setdefault(key, kind)
        return lambda env: env[key]
    for c in calls:
        guards = [g for g in ast.walk(f.node) if isinstance(g, ast.If) and any(x is c for x in ast.walk(g))]
        con = 'the centre-then-rescale shortcut is only taken for an isotropic pattern covariance'
        if not guards:
            obs.bad(rule, q, con, f'`{norm(c)[:60]}` is reached unconditionally', where(prog, f, c))
            continue
        g = guards[-1]
        in_body = any(x is c for s_ in g.body for x in ast.walk(s_))
        acc = {}
        fn = atoms_of(g.test, acc)
        bad_forms = []
        for nd in (1, 2):
            vts = [k for k, v in acc.items() if v == 'VT']
            us = [k for k, v in acc.items() if v == 'U']
            ok_form = False
            for vt_vals in itertools.product([False, True], repeat=len(vts)):
                all_slow = True
                for u_vals in itertools.product([False, True], repeat=len(us)):
                    env = {'ndim': nd}
                    env.update(dict(zip(vts, vt_vals)))
                    env.update(dict(zip(us, u_vals)))
                    test_val = fn(env)
                    fast = test_val if in_body else not test_val
                    if fast:
                        all_slow = False
                        break
                if all_slow:
                    ok_form = True
                    break
            if not ok_form:
                bad_forms.append('a variance vector' if nd == 1 else 'a covariance matrix')
        if not bad_forms:
            obs.ok(rule, q, con, 'for vector and matrix sigma_k alike a test on the values of sigma_k can force the exact route',
                   where(prog, f, c))
        else:
            obs.bad(rule, q, con, f'`{norm(c)[:60]}` can be reached for {" and for ".join(bad_forms)} whatever its entries (dispatch '
                    f'`{norm(g.test)[:90]}`): for an anisotropic covariance the result differs from r1\' V^-1 r2 / sqrt(r1\' V^-1 r1 r2\' V^-1 r2) '
                    f'and from the result for the same covariance given in the other form', where(prog, f, c))


def putmask_values(ctx, obs, rule='API', prefix=None):
    """np.putmask(a, mask, values) takes values[n] for the n-th FLAT position of `a` (cycling when values is shorter), not the k-th
    value for the k-th True of the mask - that is np.place / boolean assignment.  Handing it a compacted array (one computed
    from boolean-selected rows) misplaces the results whenever the mask is not all-True.  Sweep over rdm.compare."""
    prog = ctx.prog
    n = 0
    for q, f in sorted(prog.functions.items()):
        if not q.startswith(prefix or M):
            continue
        calls = [c for c in ast.walk(f.node) if isinstance(c, ast.Call) and isinstance(c.func, ast.Attribute) and c.func.attr == 'putmask'
                 and len(c.args) >= 3]
        if not calls:
            continue
        r = ctx.dep.result(q)
        inl = Inliner(r, None, tuple(f.params))
        for c in calls:
            n += 1
            v = inl.inline(c.args[2])
            compacted = None
            for s in ast.walk(v):
                if isinstance(s, ast.Subscript):
                    idx = s.slice.elts[0] if isinstance(s.slice, ast.Tuple) and s.slice.elts else s.slice
                    if isinstance(idx, ast.Compare) or (isinstance(idx, ast.UnaryOp) and isinstance(idx.op, ast.Invert)):
                        compacted = s
                        break
            obs.check(compacted is None, rule, q, f'`{norm(c)[:60]}`: the values handed to putmask are laid out like the target',
                      f'the values derive from `{ast.unparse(compacted)[:60] if compacted is not None else ""}` (rows selected by a boolean mask): '
                      f'putmask reads values by flat position, so entries land in the wrong (i, j) cells when a vector has zero norm',
                      '', where(prog, f, c))
    obs.analysed['putmask_calls'] = n


def tau_a_formula(ctx, obs, rule='POLY'):
    """Kendall tau-a from the sorted-rank algorithm: with tot = n(n-1)/2 pairs, xtie / ytie pairs tied in x / y, ntie pairs tied in
    both and dis discordant pairs,  tot = con + dis + (xtie - ntie) + (ytie - ntie) + ntie, hence
        con - dis = tot - xtie - ytie + ntie - 2*dis         and        tau_a = (con - dis) / tot.
    The numerator is compared as a polynomial (normal form) over the five quantities, each identified by how it is computed
    (tot from size, xtie / ytie from _count_rank_tie of the two rank vectors, dis from _kendall_dis, ntie from the joint-tie count)."""
    from ..rules import poly
    prog = ctx.prog
    q = M + '_tau_a'
    f = prog.func(q)
    roles = {}
    order = []
    for s in f.node.body:
        if not isinstance(s, ast.Assign):
            continue
        t, v = s.targets[0], s.value
        if isinstance(t, ast.Name) and isinstance(v, ast.Call) and _leaf_name(v.func) == '_kendall_dis':
            roles[t.id] = 'dis'
        elif isinstance(t, ast.Tuple) and isinstance(v, ast.Call) and _leaf_name(v.func) == '_count_rank_tie' and t.elts \
                and isinstance(t.elts[0], ast.Name):
            order.append(t.elts[0].id)
        elif isinstance(t, ast.Name) and isinstance(v, ast.BinOp) and isinstance(v.op, ast.FloorDiv) \
                and any(isinstance(n, ast.Name) and n.id == 'size' for n in ast.walk(v)):
            roles[t.id] = 'tot'
        elif isinstance(t, ast.Name) and isinstance(v, ast.Call) and _leaf_name(v.func) == 'sum' \
                and any(isinstance(n, ast.Name) and n.id == 'cnt' for n in ast.walk(v)):
            roles[t.id] = 'ntie'
    for nm, role in zip(order, ('xtie', 'ytie')):
        roles[nm] = role
    if not set(roles.values()) >= {'dis', 'tot', 'xtie', 'ytie'}:
        obs.unk(rule, q, 'tau-a numerator', f'quantities not all identified: {sorted(roles.values())}', where(prog, f, f.node))
        return
    num = None
    for s in f.node.body:
        if isinstance(s, ast.Assign) and isinstance(s.targets[0], ast.Name) and isinstance(s.value, ast.BinOp) \
                and {n.id for n in ast.walk(s.value) if isinstance(n, ast.Name)} >= {k for k, v in roles.items() if v in ('tot', 'dis')}:
            num = s
    if num is None:
        obs.unk(rule, q, 'tau-a numerator', 'no assignment combining tot and dis', where(prog, f, f.node))
        return

    def leaf(e):
        if isinstance(e, ast.Name) and e.id in roles:
            return poly.sym(roles[e.id])
        return None
    got = poly.from_expr(num.value, leaf)
    want = poly.add(poly.add(poly.add(poly.add(poly.sym('tot'), poly.sym('xtie'), -1), poly.sym('ytie'), -1), poly.sym('ntie')),
                    poly.mul(poly.const(2), poly.sym('dis')), -1)
    if got is None:
        obs.unk(rule, q, 'concordant minus discordant pairs = tot - xtie - ytie + ntie - 2 dis', f'`{norm(num)}` is not a polynomial in the '
                f'five quantities', where(prog, f, num))
    else:
        obs.check(got == want, rule, q, 'concordant minus discordant pairs = tot - xtie - ytie + ntie - 2 dis',
                  f'`{norm(num)}` is {poly.show(got)}: pairs tied in both RDMs are ' +
                  ('not added back (they were subtracted twice, once with xtie and once with ytie)' if ('ntie',) not in got else 'mis-counted'),
                  '', where(prog, f, num))


def _leaf_name(fn):
    return fn.attr if isinstance(fn, ast.Attribute) else (fn.id if isinstance(fn, ast.Name) else '')
