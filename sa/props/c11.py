"""C11 - Dataset operations keep every observation attached to its own descriptors (structural clauses)."""
from __future__ import annotations
import ast
from ..model import AnalysisError

from ..rules.common import where, norm, acc_named, Inliner
from ..rules.containers import (field_provenance, selection_pairing, stable_sorts, no_axisless_squeeze, desc_normalised,
                                table_agreement)

EXPLANATION = (
    'Static necessary-condition analysis of data/dataset.py, data/ops.py, data/computations.py: (AXIS-pair) in every '
    'subset_* / split_* / sort_by the selection placed on axis 0 / 1 / 2 of measurements is the one applied to the obs / '
    'channel / time descriptors and every selected axis has its descriptors extracted; (ND-field) the other descriptor '
    'dicts are passed through from the source, as mappings; (SORT-stable) every sort_by uses a stable argsort; (SQUEEZE) '
    'no axis-less squeeze on arrays that must keep their dimensions; (DESC) raw descriptor values are converted before '
    'ndarray-only indexing; (MERGE) merge_datasets concatenates measurements and every descriptor over the same sequence; '
    '(ACC) per-iteration blocks are accumulated; (SIB) TemporalDataset overrides handle the descriptor kinds of their '
    'Dataset counterparts plus time. Multiset equalities and numeric bin means are NOT decided.'
    ' Also: (SEL-DESC) subset_* read the descriptor values; (DESC) raw descriptor values are not compared / subtracted slice against slice; (MASK-WEIGHT) group means select rows instead of multiplying by a membership matrix.')
ASSUMPTIONS = ['axis/descriptor table: measurements axis 0 obs, axis 1 channel, axis 2 time']
FLOOR = 60
ANALYSED_FLOORS = {'order_obligations': 6}
RULE_FLOORS = {'AXIS-pair': 10, 'ND-field': 30, 'SORT-stable': 2}

D = 'data.dataset.'
DS_FIELDS = ['descriptors', 'obs_descriptors', 'channel_descriptors']
TD_FIELDS = DS_FIELDS + ['time_descriptors']
DS_METHODS = ['copy', 'split_obs', 'split_channel', 'subset_obs', 'subset_channel']
TD_METHODS = ['copy', 'split_obs', 'split_channel', 'split_time', 'bin_time', 'subset_obs', 'subset_channel',
              'subset_time', 'time_as_channels', 'time_as_observations']
EXC = {
    (D + 'TemporalDataset.time_as_channels', 'channel_descriptors'):
        'rebuilt: every channel descriptor repeated per time point plus the time descriptors (checked under CONV)',
    (D + 'TemporalDataset.time_as_observations', 'obs_descriptors'):
        'rebuilt: obs descriptors repeated per time point plus the time descriptors (checked under CONV)',
}


def run(ctx, obs):
    from ..rules import order as _order
    _order.contracts(ctx, obs, ['util.data_utils.get_unique_unsorted', 'util.data_utils.get_unique_inverse', 'data.computations.average_dataset_by'])
    # floor: split_obs / split_channel x2, average_dataset_by (x2), get_unique_inverse - confirmed by hand
    obs.analysed['order_obligations'] = _order.report(ctx, obs, ['data.base.', 'data.dataset.', 'data.computations.', 'data.ops.', 'util.data_utils.'])
    from ..rules import sweeps
    sweeps.run(ctx, obs, 'C11')
    prog = ctx.prog
    for m in DS_METHODS:
        q = D + 'Dataset.' + m
        field_provenance(ctx, obs, q, ['Dataset'], DS_FIELDS, exceptions=EXC)
    for m in TD_METHODS:
        q = D + 'TemporalDataset.' + m
        flds = TD_FIELDS if m not in ('time_as_channels', 'time_as_observations') else DS_FIELDS
        field_provenance(ctx, obs, q, ['TemporalDataset', 'Dataset'], flds, exceptions=EXC)
    for cls, ms in (('Dataset', ['split_obs', 'split_channel', 'subset_obs', 'subset_channel', 'sort_by']),
                    ('TemporalDataset', ['split_obs', 'split_channel', 'split_time', 'subset_obs', 'subset_channel',
                                         'subset_time', 'sort_by'])):
        for m in ms:
            q = D + cls + '.' + m
            n = selection_pairing(ctx, obs, q)
            if n == 0:
                obs.unk('AXIS-pair', q, 'selection on a measurements axis', 'no selection variable recognised')
            if m.startswith('subset'):
                from ..rules.containers import selection_consults_descriptor
                selection_consults_descriptor(ctx, obs, q)
    for cls in ('Dataset', 'TemporalDataset'):
        n = stable_sorts(ctx, obs, D + cls + '.sort_by')
        if n == 0:
            obs.unk('SORT-stable', D + cls + '.sort_by', 'argsort', 'no argsort call')
    for q in sorted(prog.functions):
        if q.startswith((D + 'Dataset.', D + 'TemporalDataset.', 'data.ops.', 'data.computations.')):
            no_axisless_squeeze(ctx, obs, q)
    for q in (D + 'TemporalDataset.bin_time', D + 'TemporalDataset.split_time', D + 'TemporalDataset.subset_time',
              D + 'TemporalDataset.time_as_observations', D + 'Dataset.sort_by', D + 'TemporalDataset.sort_by',
              'data.computations.average_dataset_by'):
        desc_normalised(ctx, obs, q)
    merge(ctx, obs)
    merge_uniformity(ctx, obs)
    for q in (D + 'TemporalDataset.time_as_observations', D + 'TemporalDataset.bin_time', D + 'Dataset.split_obs',
              D + 'Dataset.split_channel', D + 'TemporalDataset.split_obs', D + 'TemporalDataset.split_channel',
              D + 'TemporalDataset.split_time', 'data.computations.average_dataset_by', D + 'Dataset.get_measurements_tensor'):
        acc_named(ctx, obs, q)
    siblings(ctx, obs)
    conversions(ctx, obs)
    bin_membership(ctx, obs)
    table_agreement(ctx, obs, 'data.base.DatasetBase.to_dict', D + 'dataset_from_dict', ignore=('time_descriptors',))
    table_agreement(ctx, obs, D + 'TemporalDataset.to_dict', D + 'dataset_from_dict')
    average(ctx, obs)


def merge(ctx, obs, rule='MERGE'):
    prog = ctx.prog
    q = 'data.ops.merge_datasets'
    f = prog.func(q)
    param = f.pos_params[0]
    n = 0
    for c in ast.walk(f.node):
        if isinstance(c, ast.Call) and isinstance(c.func, ast.Name) and c.func.id in ('concatenate', 'repeat'):
            for a in c.args:
                if isinstance(a, ast.ListComp):
                    n += 1
                    it = a.generators[0].iter
                    obs.check(isinstance(it, ast.Name) and it.id == param and not a.generators[0].ifs, rule, q,
                              f'`{norm(a)[:50]}` runs over all datasets in the given order',
                              f'`{norm(c)[:90]}` iterates `{norm(it)}`: measurements and descriptors are concatenated over '
                              f'different sequences / orders', '', where(prog, f, c))
    if n < 3:
        obs.unk(rule, q, 'concatenations over the datasets', f'only {n} comprehension-based concatenations found')
    # obs descriptors concatenated per key, same key on both sides
    for st in ast.walk(f.node):
        if isinstance(st, ast.Assign) and isinstance(st.targets[0], ast.Subscript) and isinstance(st.value, ast.Call) \
                and isinstance(st.value.func, ast.Name) and st.value.func.id == 'concatenate':
            key = st.targets[0].slice
            inner = [x for x in ast.walk(st.value) if isinstance(x, ast.Subscript) and isinstance(x.value, ast.Attribute)
                     and x.value.attr == 'obs_descriptors']
            for x in inner:
                obs.check(ast.dump(x.slice) == ast.dump(key), rule, q, 'each obs descriptor is concatenated under its own key',
                          f'`{norm(st)[:90]}` stores key `{norm(key)}` from descriptor `{norm(x.slice)}`', '', where(prog, f, st))


def merge_uniformity(ctx, obs, rule='MERGE'):
    """merge_datasets keeps a dataset-level descriptor at dataset level only if ALL parts agree on it; otherwise it becomes a
    per-row descriptor.  The test has to look at every part (a set / np.unique of the values, or all(...)); comparing two chosen
    parts (first vs last) lets a differing middle part inherit the first part's value."""
    prog = ctx.prog
    q = 'data.ops.merge_datasets'
    f = prog.func(q)
    r = ctx.dep.result(q)
    inl = Inliner(r, None, tuple(f.params))
    guards = [g for g in ast.walk(f.node) if isinstance(g, ast.If) and g.orelse
              and any(isinstance(c, ast.Call) and isinstance(c.func, ast.Name) and c.func.id == 'repeat' for s_ in g.orelse for c in ast.walk(s_))]
    if not guards:
        obs.unk(rule, q, 'a descriptor stays at dataset level only if all parts agree', 'guard not found', where(prog, f, f.node))
        return
    for g in guards:
        t = inl.inline(g.test)
        con = 'a descriptor stays at dataset level only if all parts agree on its value'
        all_parts = any(isinstance(c, (ast.SetComp, ast.Set)) or (isinstance(c, ast.Call) and (getattr(c.func, 'id', getattr(c.func, 'attr', ''))
                                                                                          in ('set', 'unique', 'all'))) for c in ast.walk(t))
        two_parts = isinstance(t, ast.Compare) and len(t.ops) == 1 and isinstance(t.ops[0], ast.Eq) \
            and all(isinstance(x, ast.Subscript) and isinstance(x.slice, (ast.Constant, ast.UnaryOp)) for x in (t.left, t.comparators[0]))
        if all_parts:
            obs.ok(rule, q, con, f'`{norm(g.test)[:60]}`', where(prog, f, g))
        elif two_parts:
            obs.bad(rule, q, con, f'`{norm(g.test)}` compares two chosen parts only: with three or more parts (A, B, A) the differing part '
                    f'silently gets the first part\'s value', where(prog, f, g))
        else:
            obs.unk(rule, q, con, f'`{norm(g.test)[:60]}` not recognised', where(prog, f, g))


def siblings(ctx, obs, rule='SIB'):
    """TemporalDataset overrides construct with the descriptor kinds of their Dataset counterparts plus time"""
    prog = ctx.prog
    for m in ('copy', 'split_obs', 'split_channel', 'subset_obs', 'subset_channel'):
        qt = D + 'TemporalDataset.' + m
        f = prog.func(qt)
        kws = set()
        open_kw = False
        from ..rules.common import bound_args, has_open_kwargs
        r_ = ctx.dep.result(qt)
        for c in r_.calls:
            if isinstance(c.node.func, ast.Name) and c.node.func.id == 'TemporalDataset':
                cq = next((x for x in c.callees if x.endswith('.__init__')), None)
                kws |= {k.arg for k in c.node.keywords if k.arg}
                if cq:
                    kws |= set(bound_args(prog, cq, c))
                open_kw |= has_open_kwargs(prog, c)
        for need in ('measurements', 'descriptors', 'obs_descriptors', 'channel_descriptors', 'time_descriptors'):
            if need not in kws and open_kw:
                obs.unk(rule, qt, f'override passes {need}', 'the constructor receives a mapping whose keys are not all known', where(prog, f, f.node))
                continue
            obs.check(need in kws, rule, qt, f'override passes {need}', f'{qt} builds a TemporalDataset without `{need}`', '',
                      where(prog, f, f.node))
    # to_dict of the subclass writes a superset of the base class's keys
    base = {n.slice.value for n in ast.walk(prog.func('data.base.DatasetBase.to_dict').node)
            if isinstance(n, ast.Subscript) and isinstance(n.slice, ast.Constant) and isinstance(n.ctx, ast.Store)}
    sub = {n.slice.value for n in ast.walk(prog.func(D + 'TemporalDataset.to_dict').node)
           if isinstance(n, ast.Subscript) and isinstance(n.slice, ast.Constant) and isinstance(n.ctx, ast.Store)}
    f = prog.func(D + 'TemporalDataset.to_dict')
    obs.check(base <= sub and 'time_descriptors' in sub, rule, D + 'TemporalDataset.to_dict',
              'to_dict writes every key of DatasetBase.to_dict plus time_descriptors', f'missing {sorted(base - sub)}', '',
              where(prog, f, f.node))


def conversions(ctx, obs, rule='CONV'):
    prog = ctx.prog
    # time_as_channels: every channel descriptor repeated per time point, every time descriptor tiled per channel
    q = D + 'TemporalDataset.time_as_channels'
    f = prog.func(q)
    src = ast.unparse(f.node)
    rep = [c for c in ast.walk(f.node) if isinstance(c, ast.Call) and isinstance(c.func, ast.Attribute) and c.func.attr == 'repeat']
    til = [c for c in ast.walk(f.node) if isinstance(c, ast.Call) and isinstance(c.func, ast.Attribute) and c.func.attr == 'tile']
    obs.check(bool(rep) and bool(til), rule, q, 'channel descriptors are repeated per time point and time descriptors tiled '
              'per channel', 'np.repeat / np.tile pair not found', '', where(prog, f, f.node))
    # names of the sizes: a, b, c = self.measurements.shape  -> (n_obs, n_channel, n_time)
    sizes = None
    for st in ast.walk(f.node):
        if isinstance(st, ast.Assign) and isinstance(st.targets[0], ast.Tuple) and len(st.targets[0].elts) == 3 \
                and isinstance(st.value, ast.Attribute) and st.value.attr == 'shape' \
                and all(isinstance(t, ast.Name) for t in st.targets[0].elts):
            sizes = [t.id for t in st.targets[0].elts]

    def size_kind(e):
        if isinstance(e, ast.Name) and sizes and e.id in sizes:
            return ('obs', 'chan', 'time')[sizes.index(e.id)]
        if isinstance(e, ast.Attribute) and e.attr in ('n_time', 'n_channel', 'n_obs'):
            return {'n_time': 'time', 'n_channel': 'chan', 'n_obs': 'obs'}[e.attr]
        return None
    for c in rep:
        k = size_kind(c.args[1]) if len(c.args) == 2 else None
        if k is None:
            obs.unk(rule, q, 'channel descriptors are repeated n_time times', f'`{norm(c)}`: repeat count not recognised')
        else:
            obs.check(k == 'time', rule, q, 'channel descriptors are repeated n_time times',
                      f'`{norm(c)}` repeats by the number of {k}s', '', where(prog, f, c))
    for c in til:
        k = size_kind(c.args[1]) if len(c.args) == 2 else None
        if k is None:
            obs.unk(rule, q, 'time descriptors are tiled n_channel times', f'`{norm(c)}`: tile count not recognised')
        else:
            obs.check(k == 'chan', rule, q, 'time descriptors are tiled n_channel times',
                      f'`{norm(c)}` tiles by the number of {k}s', '', where(prog, f, c))
    # time_as_observations: measurements and obs descriptors grow in the same loop, time descriptor repeated n_obs times
    q = D + 'TemporalDataset.time_as_observations'
    f = prog.func(q)
    loops = [n for n in f.node.body if isinstance(n, ast.For)]
    main = [lp for lp in loops if any(isinstance(x, ast.Attribute) and x.attr == 'measurements' for x in ast.walk(lp))]
    if not main:
        obs.unk(rule, q, 'main loop over time points', 'not found')
        return
    lp = main[0]
    grows_obs = any(isinstance(x, ast.Attribute) and x.attr == 'obs_descriptors' for x in ast.walk(lp))
    grows_time = any(isinstance(x, ast.Attribute) and x.attr == 'time_descriptors' for x in ast.walk(lp))
    obs.check(grows_obs and grows_time, rule, q, 'per time point the obs and time descriptors are extended with the block',
              'the loop over time points does not extend both obs and time descriptors', '', where(prog, f, lp))
    for c in ast.walk(lp):
        if isinstance(c, ast.Call) and isinstance(c.func, ast.Attribute) and c.func.attr == 'repeat' and len(c.args) == 2:
            ok = isinstance(c.args[1], ast.Attribute) and c.args[1].attr == 'n_obs'
            obs.check(ok, rule, q, 'the time label of a block is repeated once per observation',
                      f'`{norm(c)[:80]}` repeats by `{norm(c.args[1])}`', '', where(prog, f, c))


def average(ctx, obs, rule='AXIS-pair'):
    prog = ctx.prog
    q = 'data.computations.average_dataset_by'
    f = prog.func(q)
    # rows of a condition are selected on the observation axis, averaged over that axis and stored at the condition's row.
    # Recognised correct forms discharge, recognised WRONG forms (mask on the channel axis, mean over axis 1) are violations, anything
    # else is undecided - the order typing (ORD) decides which rows belong to which label.
    r0 = ctx.dep.result(q)
    avg = None
    for node, _, _ in r0.returns:
        if node is not None and isinstance(node.value, ast.Tuple) and node.value.elts and isinstance(node.value.elts[0], ast.Name):
            avg = node.value.elts[0].id
    sel_ok = sel_bad = None
    for n in ast.walk(f.node):
        if isinstance(n, ast.Subscript) and isinstance(n.value, ast.Attribute) and n.value.attr == 'measurements' \
                and isinstance(n.slice, ast.Tuple) and len(n.slice.elts) == 2:
            a0, a1 = n.slice.elts
            full = lambda x: isinstance(x, ast.Slice) and x.lower is None and x.upper is None
            if full(a1) and not full(a0):
                sel_ok = n
            elif full(a0) and not full(a1):
                sel_bad = n
    con = 'rows of a condition are selected on the observation axis'
    if sel_bad is not None:
        obs.bad(rule, q, con, f'`{norm(sel_bad)}` applies the per-observation selection to the channel axis', where(prog, f, sel_bad))
    elif sel_ok is not None:
        obs.ok(rule, q, con, f'`{norm(sel_ok)[:60]}`', where(prog, f, sel_ok))
    else:
        obs.unk(rule, q, con, 'selection form not recognised', where(prog, f, f.node))
    means = [n for n in ast.walk(f.node) if isinstance(n, ast.Call) and isinstance(n.func, ast.Attribute) and n.func.attr in ('mean', 'nanmean')]
    axes = []
    for n in means:
        ax = next((k.value for k in n.keywords if k.arg == 'axis'), None)
        axes.append(ax.value if isinstance(ax, ast.Constant) else None)
    con = 'condition means are taken over the observation axis (axis=0)'
    if any(a == 1 for a in axes):
        obs.bad(rule, q, con, 'a mean over axis 1 averages over channels instead of observations', where(prog, f, means[0]))
    elif any(a == 0 for a in axes):
        obs.ok(rule, q, con, '', where(prog, f, means[0]))
    else:
        obs.unk(rule, q, con, 'no mean(axis=...) recognised', where(prog, f, f.node))
    stores = [n for n in ast.walk(f.node) if isinstance(n, ast.Assign) and isinstance(n.targets[0], ast.Subscript)
              and isinstance(n.targets[0].value, ast.Name) and n.targets[0].value.id == avg]
    obs.soft(bool(stores), rule, q, 'the mean of condition i is stored at row i', 'no store into the returned array', '', where(prog, f, f.node))
    r = ctx.dep.result(q)
    for node, _, _ in r.returns:
        if node is not None and isinstance(node.value, ast.Tuple) and len(node.value.elts) >= 2:
            inl = Inliner(r, None, ())
            lab = inl.inline(node.value.elts[1])
            obs.check(any(isinstance(x, ast.Call) and isinstance(x.func, ast.Name) and x.func.id == 'get_unique_inverse'
                          for x in ast.walk(lab)), rule, q, 'labels returned are the unique values the row index refers to',
                      f'labels `{ast.unparse(lab)[:60]}` do not come from get_unique_inverse', '', where(prog, f, node))


def bin_membership(ctx, obs, rule='MEMBER'):
    """bin_time: the time points averaged into bin t are exactly the MEMBERS of bins[t] (np.isin / in1d / equality), never an
    interval spanned by them - bins need not be contiguous on the time axis"""
    prog = ctx.prog
    q = D + 'TemporalDataset.bin_time'
    f = prog.func(q)
    r = ctx.dep.result(q)
    inl = Inliner(r, None, tuple(f.params))
    sels = [n for n in ast.walk(f.node) if isinstance(n, ast.Subscript) and isinstance(n.value, ast.Attribute)
            and n.value.attr == 'measurements' and isinstance(n.slice, ast.Tuple) and len(n.slice.elts) == 3]
    if not sels:
        obs.unk(rule, q, 'the selection of time points on the time axis', 'no measurements[:, :, <selection>] found', where(prog, f, f.node))
        return
    con = 'the time points of a bin are selected by membership in the bin'
    for n in sels:
        e = inl.inline(n.slice.elts[2])
        calls = {(_c.func.attr if isinstance(_c.func, ast.Attribute) else getattr(_c.func, 'id', '')) for _c in ast.walk(e) if isinstance(_c, ast.Call)}
        order_cmp = [c for c in ast.walk(e) if isinstance(c, ast.Compare) and any(isinstance(o, (ast.Lt, ast.LtE, ast.Gt, ast.GtE)) for o in c.ops)]
        if calls & {'isin', 'in1d'} and not order_cmp:
            obs.ok(rule, q, con, f'`{ast.unparse(e)[:60]}`', where(prog, f, n))
        elif order_cmp and calls & {'min', 'max', 'amin', 'amax', 'nanmin', 'nanmax'}:
            obs.bad(rule, q, con, f'`{ast.unparse(e)[:90]}` selects every time point between the smallest and largest member of the '
                    f'bin: for bins that are not contiguous on the time axis, points of other bins are averaged in', where(prog, f, n))
        else:
            obs.unk(rule, q, con, f'`{ast.unparse(e)[:80]}`: selection not recognised', where(prog, f, n))
