"""C19 - Searchlights hold exactly the voxels in radius; RDMs match direct computation (structural clauses)."""
from __future__ import annotations
import ast

from ..model import AnalysisError
from ..flow import depends_on_param
from ..rules.common import where, norm, bound_args, Inliner

EXPLANATION = (
    'Static necessary-condition analysis of util/searchlight.py: (CMP) membership is Euclidean `distance < radius` (strict), '
    'the bounding-box pre-filter is not stricter than the final filter, acceptance is `mean >= threshold`; (INDEX) centres and '
    'neighbours are linearised with np.ravel_multi_index over the same mask.shape and accepted centres / neighbours are '
    'appended under one guard; (SIB) the chunked and the unchunked arm build the same per-centre Dataset (columns '
    'neighbors[c], observation descriptor events) and call calc_rdm with method and descriptor="events", the chunk result '
    'is stored at the chunk\'s own indices and voxel_index is `centers`; (FWD) method reaches calc_rdm, method and theta '
    'reach the evaluation function; (ORDER) results come from one joblib Parallel call in list mode over sl_RDM in order - '
    'no unordered generator, no as_completed, no later sort. Exact voxel sets and equality of RDM values are NOT decided.')
ASSUMPTIONS = ['joblib.Parallel in its default list mode returns results in input order',
               'scipy cdist(..., "euclidean") is the Euclidean distance']
FLOOR = 25
RULE_FLOORS = {'CMP': 5, 'SIB': 6}

S = 'util.searchlight.'


def _leaf(fn):
    return fn.attr if isinstance(fn, ast.Attribute) else (fn.id if isinstance(fn, ast.Name) else '')


def run(ctx, obs):
    from ..rules import sweeps
    sweeps.run(ctx, obs, 'C19')
    comparators(ctx, obs)
    index_space(ctx, obs)
    siblings(ctx, obs)
    forwarding(ctx, obs)
    order(ctx, obs)


def comparators(ctx, obs, rule='CMP'):
    prog = ctx.prog
    q = S + '_get_searchlight_neighbors'
    f = prog.func(q)
    r = ctx.dep.result(q)
    inl = Inliner(r, None, ('mask', 'center', 'radius'))
    cmps = [n for n in ast.walk(f.node) if isinstance(n, ast.Compare) and len(n.ops) == 1
            and any(isinstance(x, ast.Name) and x.id == 'radius' for x in ast.walk(n))]
    final = [n for n in cmps if isinstance(n.left, ast.Name) and 'cdist' in ast.unparse(inl.inline(n.left))]
    pre = [n for n in cmps if n not in final]
    if not final:
        obs.bad(rule, q, 'membership is decided by the Euclidean distance to the centre', 'no comparison of a cdist result with '
                'the radius', where(prog, f, f.node))
    for n in final:
        ok = isinstance(n.ops[0], ast.Lt) and isinstance(n.comparators[0], ast.Name) and n.comparators[0].id == 'radius'
        obs.check(ok, rule, q, 'a voxel belongs to the searchlight iff its distance is strictly below the radius',
                  f'`{norm(n)}`: the comparison is not `distance < radius`', '', where(prog, f, n))
        e = inl.inline(n.left)
        eu = any(isinstance(c, ast.Call) and _leaf(c.func) == 'cdist' and any(isinstance(a, ast.Constant) and a.value == 'euclidean' for a in c.args)
                 for c in ast.walk(e))
        dflt = any(isinstance(c, ast.Call) and _leaf(c.func) == 'cdist' and len(c.args) == 2 and not c.keywords for c in ast.walk(e))
        obs.check(eu or dflt, rule, q, 'the distance is Euclidean', f'`{ast.unparse(e)[:80]}`', '', where(prog, f, n))
        ctr = any(isinstance(x, ast.Name) and x.id == 'SRC1' for x in ast.walk(e))
        obs.check(ctr, rule, q, 'the distance is measured from the centre', 'cdist does not involve `center`', '', where(prog, f, n))
    obs.check(len(pre) == 3, rule, q, 'the bounding-box pre-filter covers the three axes', f'{len(pre)} pre-filter comparisons', '',
              where(prog, f, f.node))
    for n in pre:
        ok = isinstance(n.ops[0], (ast.Lt, ast.LtE)) and isinstance(n.comparators[0], ast.Name) and n.comparators[0].id == 'radius' \
            and isinstance(n.left, ast.Call) and _leaf(n.left.func) == 'abs'
        obs.check(ok, rule, q, 'the per-axis pre-filter keeps every voxel the final filter could accept (|d| < radius or <=)',
                  f'`{norm(n)}` can drop voxels within the radius', '', where(prog, f, n))
    q2 = S + 'get_volume_searchlight'
    f2 = prog.func(q2)
    acc = [n for n in ast.walk(f2.node) if isinstance(n, ast.Compare) and any(isinstance(x, ast.Name) and x.id == 'threshold' for x in ast.walk(n))]
    for n in acc:
        ok = isinstance(n.ops[0], ast.GtE) and 'mean' in norm(n.left) and 'mask[' in norm(n.left)
        obs.check(ok, rule, q2, 'a centre is accepted iff the fraction of its searchlight inside the mask is >= threshold',
                  f'`{norm(n)}`', '', where(prog, f2, n))
    if not acc:
        obs.bad(rule, q2, 'a centre is accepted iff the fraction of its searchlight inside the mask is >= threshold',
                'no comparison with threshold', where(prog, f2, f2.node))


def index_space(ctx, obs, rule='INDEX'):
    prog = ctx.prog
    q = S + 'get_volume_searchlight'
    f = prog.func(q)
    rm = [c for c in ast.walk(f.node) if isinstance(c, ast.Call) and _leaf(c.func) == 'ravel_multi_index']
    obs.check(len(rm) == 2, rule, q, 'centres and neighbours are both linearised with ravel_multi_index', f'{len(rm)} calls', '',
              where(prog, f, f.node))
    shapes = {norm(c.args[1]) for c in rm if len(c.args) > 1}
    obs.check(shapes == {'mask.shape'}, rule, q, 'both linearisations use the shape of the mask',
              f'shapes used: {sorted(shapes)}: centre indices and neighbour indices live in different index spaces', '',
              where(prog, f, f.node))
    apps = [c for c in ast.walk(f.node) if isinstance(c, ast.Call) and _leaf(c.func) == 'append']
    guards = []
    for c in apps:
        g = [n for n in ast.walk(f.node) if isinstance(n, ast.If) and any(x is c for s in n.body for x in ast.walk(s))]
        guards.append(id(g[-1]) if g else None)
    obs.check(len(apps) == 2 and len(set(guards)) == 1 and guards[0] is not None, rule, q,
              'an accepted centre and its neighbour list are appended under the same guard',
              f'{len(apps)} appends under {len(set(guards))} guards: centres and neighbour lists can get out of step', '',
              where(prog, f, f.node))
    ctr = [c for c in ast.walk(f.node) if isinstance(c, ast.Call) and _leaf(c.func) == 'nonzero']
    obs.check(bool(ctr) and norm(ctr[0].args[0]) == 'mask' if ctr and ctr[0].args else False, rule, q,
              'candidate centres are the voxels of the mask', 'centres are not np.nonzero(mask)', '', where(prog, f, f.node))
    q2 = S + '_get_searchlight_neighbors'
    f2 = prog.func(q2)
    ar = [c for c in ast.walk(f2.node) if isinstance(c, ast.Call) and _leaf(c.func) == 'arange']
    inl2 = Inliner(ctx.dep.result(q2), None, ('mask', 'center', 'radius'))
    dims = [ast.unparse(inl2.inline(c.args[0])).replace(' ', '') if c.args else '' for c in ar]
    ok = len(ar) == 3 and dims == ['SRC0.shape[0]', 'SRC0.shape[1]', 'SRC0.shape[2]']
    obs.check(ok, rule, q2, 'candidate voxels are restricted to the volume (arange over each mask dimension)',
              f'{[norm(c) for c in ar]}', '', where(prog, f2, f2.node))


def _dataset_calls(body_nodes):
    return [c for n in body_nodes for c in ast.walk(n) if isinstance(c, ast.Call) and _leaf(c.func) == 'Dataset']


def siblings(ctx, obs, rule='SIB'):
    prog = ctx.prog
    q = S + 'get_searchlight_RDMs'
    f = prog.func(q)
    r = ctx.dep.result(q)
    split = [n for n in f.node.body if isinstance(n, ast.If) and n.orelse
             and any(isinstance(c, ast.Call) and _leaf(c.func) == 'calc_rdm' for s in n.body for c in ast.walk(s))
             and any(isinstance(c, ast.Call) and _leaf(c.func) == 'calc_rdm' for s in n.orelse for c in ast.walk(s))]
    if not split:
        raise AnalysisError('get_searchlight_RDMs: chunking split not found')
    sp = split[0]
    inl = Inliner(r, None, ('data_2d', 'centers', 'neighbors', 'events'))
    facets = {}
    for arm, body in (('chunked', sp.body), ('unchunked', sp.orelse)):
        ds = _dataset_calls(body)
        crs = [c for n in body for c in ast.walk(n) if isinstance(c, ast.Call) and _leaf(c.func) == 'calc_rdm']
        if len(ds) != 1 or len(crs) != 1:
            obs.unk(rule, q, f'{arm}: one Dataset(...) and one calc_rdm(...)', f'{len(ds)} / {len(crs)}')
            continue
        d, c = ds[0], crs[0]
        meas = inl.inline(d.args[0]) if d.args else None
        kw = {k.arg: k.value for k in d.keywords}
        # data_2d[:, neighbors[<centre index>]]
        ok_m = isinstance(meas, ast.Subscript) and 'SRC0' in ast.unparse(meas.value) and isinstance(meas.slice, ast.Tuple) \
            and isinstance(meas.slice.elts[0], ast.Slice) and 'SRC2[' in ast.unparse(meas.slice.elts[1])
        obs.check(ok_m, rule, q, f'{arm}: the per-centre data are the columns neighbors[c] of data_2d',
                  f'`{ast.unparse(meas)[:80] if meas is not None else None}`', '', where(prog, f, d))
        od = kw.get('obs_descriptors')
        ok_o = isinstance(od, ast.Dict) and [getattr(k, 'value', None) for k in od.keys] == ['events'] \
            and isinstance(od.values[0], ast.Name) and od.values[0].id == 'events'
        obs.check(ok_o, rule, q, f'{arm}: conditions are given by the event labels', f'obs_descriptors = `{norm(od) if od is not None else None}`',
                  '', where(prog, f, d))
        ckw = {k.arg: k.value for k in c.keywords}
        ok_c = isinstance(ckw.get('method'), ast.Name) and ckw['method'].id == 'method' and isinstance(ckw.get('descriptor'), ast.Constant) \
            and ckw['descriptor'].value == 'events'
        obs.check(ok_c, rule, q, f'{arm}: calc_rdm(list of datasets, method=method, descriptor="events")', f'`{norm(c)[:80]}`', '',
                  where(prog, f, c))
        facets[arm] = (ast.dump(kw.get('obs_descriptors')) if kw.get('obs_descriptors') is not None else None,
                       sorted((k, ast.dump(v)) for k, v in ckw.items()))
        # the index of neighbors and of the output row agree
        idx = meas.slice.elts[1] if ok_m else None
    if len(facets) == 2:
        obs.check(facets['chunked'] == facets['unchunked'], rule, q, 'chunked and unchunked arms agree on labels and calc_rdm options',
                  'the two arms differ: results depend on whether more than 1000 centres are processed', '', where(prog, f, sp))
    # chunk result stored at the chunk's own indices
    ctor0 = [c for c in ast.walk(f.node) if isinstance(c, ast.Call) and _leaf(c.func) == 'RDMs' and c.args and isinstance(c.args[0], ast.Name)]
    out_name = ctor0[0].args[0].id if ctor0 else None
    st = [s for n in sp.body for s in ast.walk(n) if isinstance(s, ast.Assign) and isinstance(s.targets[0], ast.Subscript)
          and norm(s.targets[0].value) == out_name]
    ok = False
    for s in st:
        idx = s.targets[0].slice
        first = idx.elts[0] if isinstance(idx, ast.Tuple) else idx
        loops = [l for n in sp.body for l in ast.walk(n) if isinstance(l, ast.For) and any(x is s for x in ast.walk(l))]
        if loops and isinstance(first, ast.Name) and isinstance(loops[0].target, ast.Name) and first.id == loops[0].target.id:
            # and the datasets of the chunk were built from the same loop variable
            inner = [l for l in ast.walk(loops[0]) if isinstance(l, ast.For) and l is not loops[0]]
            ok = bool(inner) and isinstance(inner[0].iter, ast.Name) and inner[0].iter.id == first.id
    obs.check(ok, rule, q, 'the RDMs of a chunk are stored at the indices of the centres of that chunk',
              'chunk results are not stored at RDM[chunk, :] for the chunk they were computed from', '', where(prog, f, sp))
    ctor = [c for c in ast.walk(f.node) if isinstance(c, ast.Call) and _leaf(c.func) == 'RDMs']
    for c in ctor:
        kw = {k.arg: k.value for k in c.keywords}
        rd = kw.get('rdm_descriptors')
        ok = isinstance(rd, ast.Dict) and any(isinstance(v, ast.Name) and v.id == 'centers' for v in rd.values)
        obs.check(ok, rule, q, 'each RDM is labelled with its centre\'s voxel index', f'rdm_descriptors = `{norm(rd) if rd is not None else None}`',
                  '', where(prog, f, c))
        m = kw.get('dissimilarity_measure')
        obs.check(isinstance(m, ast.Name) and m.id == 'method', 'FWD', q, 'the result records the method', '', '', where(prog, f, c))
    # chunk boundaries cover all centres
    spl = [c for c in ast.walk(f.node) if isinstance(c, ast.Call) and _leaf(c.func) == 'split']
    for c in spl:
        ok = len(c.args) == 2 and 'arange(n_centers)' in norm(c.args[0]).replace('np.', '')
        obs.soft(ok, rule, q, 'chunks partition arange(n_centers)', f'`{norm(c)[:80]}`', '', where(prog, f, c))


def forwarding(ctx, obs, rule='FWD'):
    prog = ctx.prog
    q = S + 'evaluate_models_searchlight'
    f = prog.func(q)
    calls = [c for c in ast.walk(f.node) if isinstance(c, ast.Call) and isinstance(c.func, ast.Call) and _leaf(c.func.func) == 'delayed']
    if not calls:
        raise AnalysisError('evaluate_models_searchlight: no delayed(eval_function)(...) call')
    for c in calls:
        obs.check(norm(c.func.args[0]) == 'eval_function', rule, q, 'the function evaluated is the one passed in', f'`{norm(c.func)}`', '',
                  where(prog, f, c))
        kw = {k.arg: norm(k.value) for k in c.keywords}
        for p in ('method', 'theta'):
            obs.check(kw.get(p) == p, rule, q, f'{p} reaches the evaluation function', f'`{norm(c)[:80]}` passes {p}={kw.get(p)}', '',
                      where(prog, f, c))
        pos = [norm(a) for a in c.args]
        obs.check(pos[:1] == ['models'] and len(pos) == 2, rule, q, 'each call receives (models, one searchlight RDM)', f'{pos}', '',
                  where(prog, f, c))


def order(ctx, obs, rule='ORDER'):
    prog = ctx.prog
    q = S + 'evaluate_models_searchlight'
    f = prog.func(q)
    par = [c for c in ast.walk(f.node) if isinstance(c, ast.Call) and _leaf(c.func) == 'Parallel']
    obs.check(len(par) == 1, rule, q, 'results come from one Parallel call', f'{len(par)} Parallel constructions', '', where(prog, f, f.node))
    for c in par:
        kw = {k.arg: k.value for k in c.keywords}
        ra = kw.get('return_as')
        ok = ra is None or (isinstance(ra, ast.Constant) and ra.value in ('list', 'generator'))
        obs.check(ok, rule, q, 'Parallel runs in an order-preserving mode', f'return_as={norm(ra) if ra is not None else None}', '',
                  where(prog, f, c))
        nj = kw.get('n_jobs')
        obs.check(isinstance(nj, ast.Name) and nj.id == 'n_jobs', 'FWD', q, 'n_jobs reaches Parallel', '', '', where(prog, f, c))
    gens = [g for g in ast.walk(f.node) if isinstance(g, ast.GeneratorExp)]
    ok = False
    for g in gens:
        it = g.generators[0].iter
        txt = norm(it)
        if txt == 'sl_RDM' or (isinstance(it, ast.Call) and _leaf(it.func) == 'tqdm' and it.args and norm(it.args[0]) == 'sl_RDM'):
            ok = not g.generators[0].ifs
    obs.check(ok, rule, q, 'one task per searchlight RDM, in the order of sl_RDM', 'tasks are not generated by iterating sl_RDM in '
              'order without a filter', '', where(prog, f, f.node))
    bad = [c for c in ast.walk(f.node) if isinstance(c, ast.Call) and _leaf(c.func) in ('as_completed', 'sorted', 'sort', 'shuffle',
                                                                                       'imap_unordered')]
    obs.check(not bad, rule, q, 'no reordering of the results (as_completed / sort / shuffle)', f'`{norm(bad[0])}`' if bad else '', '',
              where(prog, f, f.node))
    rets = [n for n in ast.walk(f.node) if isinstance(n, ast.Return)]
    inl = Inliner(ctx.dep.result(q), None, tuple(a.arg for a in f.node.args.args))

    def _is_parallel_result(v):
        e = inl.inline(v) if v is not None else None
        return isinstance(e, ast.Call) and isinstance(e.func, ast.Call) and _leaf(e.func.func) == 'Parallel'
    obs.check(all(_is_parallel_result(n.value) for n in rets) and bool(rets), rule, q,
              'the list produced by Parallel is returned as is', f'{[norm(n) for n in rets]}', '', where(prog, f, f.node))
