"""C19 - Searchlights hold exactly the voxels in radius; RDMs match direct computation (structural clauses)."""
from __future__ import annotations
import ast

from ..model import AnalysisError
from ..flow import depends_on_param
from ..rules.common import where, norm, bound_args, Inliner

EXPLANATION = (
    'Static necessary-condition analysis of util/searchlight.py: (CMP) membership is Euclidean `distance < radius` (strict), '
    'the bounding-box pre-filter is not stricter than the final filter, acceptance is `mean >= threshold`; (INDEX) centres and '
    'neighbours are linearised with np.ravel_multi_index over the same mask.shape and accepted centres / neighbours are '
    'appended under one guard; (SIB) the chunked and the unchunked arm build the same per-centre Dataset (columns '
    'neighbors[c], observation descriptor events) and call calc_rdm with method and descriptor="events", the chunk result '
    'is stored at the chunk\'s own indices and voxel_index is `centers`; (FWD) method reaches calc_rdm, method and theta '
    'reach the evaluation function; (ORDER) results come from one joblib Parallel call in list mode over sl_RDM in order - '
    'no unordered generator, no as_completed, no later sort. Exact voxel sets and equality of RDM values are NOT decided.'
    ' SIB clauses whose syntactic anchor (np.split) is gone are reported undecided.')
ASSUMPTIONS = ['joblib.Parallel in its default list mode returns results in input order',
               'scipy cdist(..., "euclidean") is the Euclidean distance']
FLOOR = 25
RULE_FLOORS = {'CMP': 5, 'SIB': 6}

S = 'util.searchlight.'


def _leaf(fn):
    return fn.attr if isinstance(fn, ast.Attribute) else (fn.id if isinstance(fn, ast.Name) else '')


def run(ctx, obs):
    from ..rules import sweeps
    sweeps.run(ctx, obs, 'C19')
    comparators(ctx, obs)
    index_space(ctx, obs)
    siblings(ctx, obs)
    forwarding(ctx, obs)
    order(ctx, obs)


def comparators(ctx, obs, rule='CMP'):
    prog = ctx.prog
    q = S + '_get_searchlight_neighbors'
    f = prog.func(q)
    r = ctx.dep.result(q)
    inl = Inliner(r, None, ('mask', 'center', 'radius'))
    cmps = [n for n in ast.walk(f.node) if isinstance(n, ast.Compare) and len(n.ops) == 1
            and any(isinstance(x, ast.Name) and x.id == 'radius' for x in ast.walk(n))]
    final = [n for n in cmps if isinstance(n.left, ast.Name) and 'cdist' in ast.unparse(inl.inline(n.left))]
    pre = [n for n in cmps if n not in final]
    if not final:
        obs.bad(rule, q, 'membership is decided by the Euclidean distance to the centre', 'no comparison of a cdist result with '
                'the radius', where(prog, f, f.node))
    for n in final:
        ok = isinstance(n.ops[0], ast.Lt) and isinstance(n.comparators[0], ast.Name) and n.comparators[0].id == 'radius'
        obs.check(ok, rule, q, 'a voxel belongs to the searchlight iff its distance is strictly below the radius',
                  f'`{norm(n)}`: the comparison is not `distance < radius`', '', where(prog, f, n))
        e = inl.inline(n.left)
        eu = any(isinstance(c, ast.Call) and _leaf(c.func) == 'cdist' and (
            any(isinstance(a, ast.Constant) and a.value == 'euclidean' for a in c.args)
            or any(k.arg == 'metric' and isinstance(k.value, ast.Constant) and k.value.value == 'euclidean' for k in c.keywords))
                 for c in ast.walk(e))
        dflt = any(isinstance(c, ast.Call) and _leaf(c.func) == 'cdist' and len(c.args) == 2 and not c.keywords for c in ast.walk(e))
        obs.check(eu or dflt, rule, q, 'the distance is Euclidean', f'`{ast.unparse(e)[:80]}`', '', where(prog, f, n))
        ctr = any(isinstance(x, ast.Name) and x.id == 'SRC1' for x in ast.walk(e))
        obs.check(ctr, rule, q, 'the distance is measured from the centre', 'cdist does not involve `center`', '', where(prog, f, n))
    for n in pre:
        ok = isinstance(n.ops[0], (ast.Lt, ast.LtE)) and isinstance(n.comparators[0], ast.Name) and n.comparators[0].id == 'radius' \
            and isinstance(n.left, ast.Call) and _leaf(n.left.func) == 'abs'
        if ok:
            obs.ok(rule, q, 'the per-axis pre-filter keeps every voxel the final filter could accept (|d| < radius or <=)', '', where(prog, f, n))
        elif isinstance(n.left, ast.Call) and _leaf(n.left.func) == 'abs' and isinstance(n.ops[0], (ast.Lt, ast.LtE)):
            # |d| < something else: decide by the same floor/ceil case analysis as for bounding boxes
            bound = inl.inline(n.comparators[0])
            lin = _lin_in_radius(bound)
            strict = isinstance(n.ops[0], ast.Lt)
            pure = _radius_plus_const(bound)
            if pure is not None:
                # |d| < r + k (or <=): keeps every |d| < r for all real r iff k >= 0
                obs.check(pure >= 0, rule, q, 'the per-axis pre-filter keeps every voxel the final filter could accept',
                          f'`{norm(n)}` drops voxels whose offset on this axis is below the radius', '', where(prog, f, n))
            elif lin is None:
                obs.unk(rule, q, 'the per-axis pre-filter keeps every voxel the final filter could accept', f'`{norm(n)}`', where(prog, f, n))
            else:
                # need: every integer d with |d| <= ceil(r) - 1 passes   |d| < B (strict) / |d| <= B
                good = _covers(lin, need_ce_coeff=1, need_const=(-1 if not strict else 0), strict=strict)
                obs.check(good, rule, q, 'the per-axis pre-filter keeps every voxel the final filter could accept',
                          f'`{norm(n)}` can drop voxels within the radius', '', where(prog, f, n))
        else:
            obs.unk(rule, q, 'the per-axis pre-filter keeps every voxel the final filter could accept', f'`{norm(n)}` not recognised',
                    where(prog, f, n))
    # bounding boxes built with arange(lo, hi): every offset d with |d| < radius must lie in [lo - c, hi - c)
    mg = [c for c in ast.walk(f.node) if isinstance(c, ast.Call) and _leaf(c.func) == 'meshgrid']
    for c in mg:
        for ax, a in enumerate(c.args[:3]):
            e = inl.inline(a)
            if isinstance(e, ast.Call) and _leaf(e.func) == 'arange' and len(e.args) == 2:
                lo, hi = e.args
                A = _reach(lo, lower=True)
                B = _reach(hi, lower=False)
                con = f'axis {ax}: the bounding box contains every offset below the radius'
                if A is None or B is None:
                    obs.unk(rule, q, con, f'`{ast.unparse(e)[:90]}`: bounds not linear in floor/ceil of the radius', where(prog, f, c))
                    continue
                # lo = c - A  must satisfy  A >= ceil(r) - 1 ; hi = c + B (exclusive) must satisfy B >= ceil(r)
                okA = _covers(A, need_ce_coeff=1, need_const=-1, strict=False)
                okB = _covers(B, need_ce_coeff=1, need_const=0, strict=False)
                obs.check(okA and okB, rule, q, con,
                          f'`{ast.unparse(e)[:110]}`: for a non-integer radius the box ends before the last offset below the radius '
                          f'(lower reach {_show(A)}, upper reach {_show(B)}; needed ceil(radius)-1 and ceil(radius))', '', where(prog, f, c))
    q2 = S + 'get_volume_searchlight'
    f2 = prog.func(q2)
    acc = [n for n in ast.walk(f2.node) if isinstance(n, ast.Compare) and any(isinstance(x, ast.Name) and x.id == 'threshold' for x in ast.walk(n))]
    for n in acc:
        ok = isinstance(n.ops[0], ast.GtE) and 'mean' in norm(n.left) and 'mask[' in norm(n.left)
        obs.check(ok, rule, q2, 'a centre is accepted iff the fraction of its searchlight inside the mask is >= threshold',
                  f'`{norm(n)}`', '', where(prog, f2, n))
    if not acc:
        obs.bad(rule, q2, 'a centre is accepted iff the fraction of its searchlight inside the mask is >= threshold',
                'no comparison with threshold', where(prog, f2, f2.node))


def index_space(ctx, obs, rule='INDEX'):
    prog = ctx.prog
    q = S + 'get_volume_searchlight'
    f = prog.func(q)
    rm = [c for c in ast.walk(f.node) if isinstance(c, ast.Call) and _leaf(c.func) == 'ravel_multi_index']
    obs.check(len(rm) == 2, rule, q, 'centres and neighbours are both linearised with ravel_multi_index', f'{len(rm)} calls', '',
              where(prog, f, f.node))
    shapes = {norm(c.args[1]) for c in rm if len(c.args) > 1}
    obs.check(shapes == {'mask.shape'}, rule, q, 'both linearisations use the shape of the mask',
              f'shapes used: {sorted(shapes)}: centre indices and neighbour indices live in different index spaces', '',
              where(prog, f, f.node))
    apps = [c for c in ast.walk(f.node) if isinstance(c, ast.Call) and _leaf(c.func) == 'append']
    guards = []
    for c in apps:
        g = [n for n in ast.walk(f.node) if isinstance(n, ast.If) and any(x is c for s in n.body for x in ast.walk(s))]
        guards.append(id(g[-1]) if g else None)
    obs.check(len(apps) == 2 and len(set(guards)) == 1 and guards[0] is not None, rule, q,
              'an accepted centre and its neighbour list are appended under the same guard',
              f'{len(apps)} appends under {len(set(guards))} guards: centres and neighbour lists can get out of step', '',
              where(prog, f, f.node))
    ctr = [c for c in ast.walk(f.node) if isinstance(c, ast.Call) and _leaf(c.func) == 'nonzero']
    obs.check(bool(ctr) and norm(ctr[0].args[0]) == 'mask' if ctr and ctr[0].args else False, rule, q,
              'candidate centres are the voxels of the mask', 'centres are not np.nonzero(mask)', '', where(prog, f, f.node))
    q2 = S + '_get_searchlight_neighbors'
    f2 = prog.func(q2)
    ar = [c for c in ast.walk(f2.node) if isinstance(c, ast.Call) and _leaf(c.func) == 'arange']
    inl2 = Inliner(ctx.dep.result(q2), None, ('mask', 'center', 'radius'))
    dims = [ast.unparse(inl2.inline(c.args[0])).replace(' ', '') if c.args else '' for c in ar]
    con = 'candidate voxels are restricted to the volume'
    if len(ar) == 3 and all(len(c.args) == 1 for c in ar):
        obs.check(dims == ['SRC0.shape[0]', 'SRC0.shape[1]', 'SRC0.shape[2]'], rule, q2, con + ' (arange over each mask dimension)',
                  f'{[norm(c) for c in ar]}: the candidate ranges are not the three mask dimensions', '', where(prog, f2, f2.node))
    elif len(ar) == 3 and all(len(c.args) == 2 for c in ar):
        def clipped(c, k):
            lo, hi = (ast.unparse(inl2.inline(a)).replace(' ', '') for a in c.args)
            return lo.startswith(('max(', 'np.maximum(')) and lo.endswith(',0)') and hi.startswith(('min(', 'np.minimum(')) \
                and hi.endswith(f',SRC0.shape[{k}])')
        obs.soft(all(clipped(c, k) for k, c in enumerate(ar)), rule, q2, con + ' (boxes clipped to [0, shape))',
                 f'{[norm(c)[:50] for c in ar]}', '', where(prog, f2, f2.node))
    else:
        obs.unk(rule, q2, con, f'{[norm(c)[:50] for c in ar]}: construction not recognised', where(prog, f2, f2.node))


def _dataset_calls(body_nodes):
    return [c for n in body_nodes for c in ast.walk(n) if isinstance(c, ast.Call) and _leaf(c.func) == 'Dataset']


def siblings(ctx, obs, rule='SIB'):
    prog = ctx.prog
    q = S + 'get_searchlight_RDMs'
    f = prog.func(q)
    r = ctx.dep.result(q)
    split = [n for n in f.node.body if isinstance(n, ast.If) and n.orelse
             and any(isinstance(c, ast.Call) and _leaf(c.func) == 'calc_rdm' for s in n.body for c in ast.walk(s))
             and any(isinstance(c, ast.Call) and _leaf(c.func) == 'calc_rdm' for s in n.orelse for c in ast.walk(s))]
    if not split:
        raise AnalysisError('get_searchlight_RDMs: chunking split not found')
    sp = split[0]
    inl = Inliner(r, None, ('data_2d', 'centers', 'neighbors', 'events'))
    facets = {}
    for arm, body in (('chunked', sp.body), ('unchunked', sp.orelse)):
        ds = _dataset_calls(body)
        crs = [c for n in body for c in ast.walk(n) if isinstance(c, ast.Call) and _leaf(c.func) == 'calc_rdm']
        if len(ds) != 1 or len(crs) != 1:
            obs.unk(rule, q, f'{arm}: one Dataset(...) and one calc_rdm(...)', f'{len(ds)} / {len(crs)}')
            continue
        d, c = ds[0], crs[0]
        meas = inl.inline(d.args[0]) if d.args else None
        kw = {k.arg: k.value for k in d.keywords}
        # data_2d[:, neighbors[<centre index>]]
        ok_m = isinstance(meas, ast.Subscript) and 'SRC0' in ast.unparse(meas.value) and isinstance(meas.slice, ast.Tuple) \
            and isinstance(meas.slice.elts[0], ast.Slice) and 'SRC2[' in ast.unparse(meas.slice.elts[1])
        obs.check(ok_m, rule, q, f'{arm}: the per-centre data are the columns neighbors[c] of data_2d',
                  f'`{ast.unparse(meas)[:80] if meas is not None else None}`', '', where(prog, f, d))
        od = kw.get('obs_descriptors')
        ok_o = isinstance(od, ast.Dict) and [getattr(k, 'value', None) for k in od.keys] == ['events'] \
            and isinstance(od.values[0], ast.Name) and od.values[0].id == 'events'
        obs.check(ok_o, rule, q, f'{arm}: conditions are given by the event labels', f'obs_descriptors = `{norm(od) if od is not None else None}`',
                  '', where(prog, f, d))
        ckw = {k.arg: k.value for k in c.keywords}
        ok_c = isinstance(ckw.get('method'), ast.Name) and ckw['method'].id == 'method' and isinstance(ckw.get('descriptor'), ast.Constant) \
            and ckw['descriptor'].value == 'events'
        obs.check(ok_c, rule, q, f'{arm}: calc_rdm(list of datasets, method=method, descriptor="events")', f'`{norm(c)[:80]}`', '',
                  where(prog, f, c))
        facets[arm] = (ast.dump(kw.get('obs_descriptors')) if kw.get('obs_descriptors') is not None else None,
                       sorted((k, ast.dump(v)) for k, v in ckw.items()))
        # the index of neighbors and of the output row agree
        idx = meas.slice.elts[1] if ok_m else None
    if len(facets) == 2:
        obs.check(facets['chunked'] == facets['unchunked'], rule, q, 'chunked and unchunked arms agree on labels and calc_rdm options',
                  'the two arms differ: results depend on whether more than 1000 centres are processed', '', where(prog, f, sp))
    # chunk result stored at the chunk's own indices
    ctor0 = [c for c in ast.walk(f.node) if isinstance(c, ast.Call) and _leaf(c.func) == 'RDMs' and c.args and isinstance(c.args[0], ast.Name)]
    out_name = ctor0[0].args[0].id if ctor0 else None
    st = [s for n in sp.body for s in ast.walk(n) if isinstance(s, ast.Assign) and isinstance(s.targets[0], ast.Subscript)
          and norm(s.targets[0].value) == out_name]
    con = 'the RDMs of a chunk are stored at the indices of the centres of that chunk'
    if not st:
        obs.unk(rule, q, con, 'no indexed store into the result buffer in the chunked arm', where(prog, f, sp))
    for s in st:
        idx = s.targets[0].slice
        first = idx.elts[0] if isinstance(idx, ast.Tuple) else idx
        loops = [l for n in sp.body for l in ast.walk(n) if isinstance(l, ast.For) and any(x is s for x in ast.walk(l))]
        if not loops or not isinstance(loops[0].target, ast.Name):
            obs.unk(rule, q, con, f'`{norm(s)[:60]}` is not inside a loop over chunks', where(prog, f, s))
            continue
        lv = loops[0].target.id
        if not (isinstance(first, ast.Name) and first.id == lv):
            obs.bad(rule, q, con, f'`{norm(s.targets[0])}` is not indexed by the chunk `{lv}` the RDMs were computed from', where(prog, f, s))
            continue
        # the datasets of the chunk are built by iterating the same chunk variable (inner loop or comprehension)
        inner_iters = [l.iter for l in ast.walk(loops[0]) if isinstance(l, ast.For) and l is not loops[0]] + \
            [g.iter for c_ in ast.walk(loops[0]) if isinstance(c_, (ast.ListComp, ast.GeneratorExp)) for g in c_.generators]
        same = any(isinstance(it, ast.Name) and it.id == lv for it in inner_iters)
        if same:
            obs.ok(rule, q, con, '', where(prog, f, s))
        elif inner_iters:
            obs.bad(rule, q, con, f'the datasets of the chunk are built by iterating `{norm(inner_iters[0])[:40]}`, the result is stored at '
                    f'`{lv}`', where(prog, f, s))
        else:
            obs.unk(rule, q, con, 'construction of the chunk datasets not recognised', where(prog, f, s))
    # the buffer that collects the chunk results holds floats whatever the input data type: an integer buffer truncates the
    # dissimilarities, while the unchunked arm returns calc_rdm's float array
    allocs = [s for n in sp.body for s in ast.walk(n) if isinstance(s, ast.Assign) and isinstance(s.targets[0], ast.Name)
              and s.targets[0].id == out_name and isinstance(s.value, ast.Call) and _leaf(s.value.func) in ('zeros', 'empty', 'ones', 'full')]
    for a in allocs:
        dt = next((k.value for k in a.value.keywords if k.arg == 'dtype'), None)
        con = 'the chunk buffer stores the dissimilarities as floats, like the unchunked arm'
        if dt is None or (isinstance(dt, ast.Name) and dt.id == 'float') or (isinstance(dt, ast.Attribute) and dt.attr in ('float64', 'double', 'float_')) \
                or (isinstance(dt, ast.Constant) and dt.value in ('float', 'float64', 'f8', 'd')):
            obs.ok(rule, q, con, f'`{norm(a)[:70]}`', where(prog, f, a))
        elif any(isinstance(x, ast.Name) and x.id in f.params for x in ast.walk(dt)) or \
                any(isinstance(x, ast.Attribute) and x.attr == 'dtype' for x in ast.walk(dt)):
            obs.bad(rule, q, con, f'`{norm(a)[:90]}` takes the buffer type from the input: integer-typed data (e.g. int16 volumes) '
                    f'truncate every dissimilarity written into it, only when more than 1000 centres are processed', where(prog, f, a))
        else:
            obs.unk(rule, q, con, f'dtype `{norm(dt)}` not recognised', where(prog, f, a))
    ctor = [c for c in ast.walk(f.node) if isinstance(c, ast.Call) and _leaf(c.func) == 'RDMs']
    for c in ctor:
        kw = {k.arg: k.value for k in c.keywords}
        rd = kw.get('rdm_descriptors')
        ok = isinstance(rd, ast.Dict) and any(isinstance(v, ast.Name) and v.id == 'centers' for v in rd.values)
        obs.check(ok, rule, q, 'each RDM is labelled with its centre\'s voxel index', f'rdm_descriptors = `{norm(rd) if rd is not None else None}`',
                  '', where(prog, f, c))
        m = kw.get('dissimilarity_measure')
        obs.check(isinstance(m, ast.Name) and m.id == 'method', 'FWD', q, 'the result records the method', '', '', where(prog, f, c))
    # chunk boundaries cover all centres
    spl = [c for c in ast.walk(f.node) if isinstance(c, ast.Call) and _leaf(c.func) == 'split']
    if not spl:
        obs.unk(rule, q, 'chunks partition arange(n_centers)', 'the chunks are not made with np.split: construction not recognised',
                where(prog, f, sp))
    for c in spl:
        ok = len(c.args) == 2 and 'arange(n_centers)' in norm(c.args[0]).replace('np.', '')
        obs.soft(ok, rule, q, 'chunks partition arange(n_centers)', f'`{norm(c)[:80]}`', '', where(prog, f, c))


def forwarding(ctx, obs, rule='FWD'):
    prog = ctx.prog
    q = S + 'evaluate_models_searchlight'
    f = prog.func(q)
    calls = [c for c in ast.walk(f.node) if isinstance(c, ast.Call) and isinstance(c.func, ast.Call) and _leaf(c.func.func) == 'delayed']
    if not calls:
        raise AnalysisError('evaluate_models_searchlight: no delayed(eval_function)(...) call')
    for c in calls:
        obs.check(norm(c.func.args[0]) == 'eval_function', rule, q, 'the function evaluated is the one passed in', f'`{norm(c.func)}`', '',
                  where(prog, f, c))
        kw = {k.arg: norm(k.value) for k in c.keywords}
        for p in ('method', 'theta'):
            obs.check(kw.get(p) == p, rule, q, f'{p} reaches the evaluation function', f'`{norm(c)[:80]}` passes {p}={kw.get(p)}', '',
                      where(prog, f, c))
        pos = [norm(a) for a in c.args]
        obs.check(pos[:1] == ['models'] and len(pos) == 2, rule, q, 'each call receives (models, one searchlight RDM)', f'{pos}', '',
                  where(prog, f, c))


def order(ctx, obs, rule='ORDER'):
    prog = ctx.prog
    q = S + 'evaluate_models_searchlight'
    f = prog.func(q)
    par = [c for c in ast.walk(f.node) if isinstance(c, ast.Call) and _leaf(c.func) == 'Parallel']
    obs.check(len(par) == 1, rule, q, 'results come from one Parallel call', f'{len(par)} Parallel constructions', '', where(prog, f, f.node))
    for c in par:
        kw = {k.arg: k.value for k in c.keywords}
        ra = kw.get('return_as')
        ok = ra is None or (isinstance(ra, ast.Constant) and ra.value in ('list', 'generator'))
        obs.check(ok, rule, q, 'Parallel runs in an order-preserving mode', f'return_as={norm(ra) if ra is not None else None}', '',
                  where(prog, f, c))
        nj = kw.get('n_jobs')
        obs.check(isinstance(nj, ast.Name) and nj.id == 'n_jobs', 'FWD', q, 'n_jobs reaches Parallel', '', '', where(prog, f, c))
    gens = [g for g in ast.walk(f.node) if isinstance(g, ast.GeneratorExp)]
    ok = False
    for g in gens:
        it = g.generators[0].iter
        txt = norm(it)
        if txt == 'sl_RDM' or (isinstance(it, ast.Call) and _leaf(it.func) == 'tqdm' and it.args and norm(it.args[0]) == 'sl_RDM'):
            ok = not g.generators[0].ifs
    obs.check(ok, rule, q, 'one task per searchlight RDM, in the order of sl_RDM', 'tasks are not generated by iterating sl_RDM in '
              'order without a filter', '', where(prog, f, f.node))
    bad = [c for c in ast.walk(f.node) if isinstance(c, ast.Call) and _leaf(c.func) in ('as_completed', 'sorted', 'sort', 'shuffle',
                                                                                       'imap_unordered')]
    obs.check(not bad, rule, q, 'no reordering of the results (as_completed / sort / shuffle)', f'`{norm(bad[0])}`' if bad else '', '',
              where(prog, f, f.node))
    rets = [n for n in ast.walk(f.node) if isinstance(n, ast.Return)]
    inl = Inliner(ctx.dep.result(q), None, tuple(a.arg for a in f.node.args.args))

    def _is_parallel_result(v):
        e = inl.inline(v) if v is not None else None
        return isinstance(e, ast.Call) and isinstance(e.func, ast.Call) and _leaf(e.func.func) == 'Parallel'
    obs.check(all(_is_parallel_result(n.value) for n in rets) and bool(rets), rule, q,
              'the list produced by Parallel is returned as is', f'{[norm(n) for n in rets]}', '', where(prog, f, f.node))


# ---- linear forms  a*floor(r) + b*ceil(r) + k  (r = the radius) and their comparison for integer and non-integer r
def _lin_in_radius(e):
    """(a, b, k) for expressions built from int(radius)/floor(radius), ceil(radius), radius itself (only meaningful when integer:
    treated as unknown), integer constants, + and -"""
    if isinstance(e, ast.Constant) and isinstance(e.value, int):
        return (0, 0, e.value)
    if isinstance(e, ast.Call):
        nm = _leaf(e.func)
        arg = e.args[0] if e.args else None
        inner_is_r = isinstance(arg, ast.Name) and arg.id in ('SRC2', 'radius')
        if nm in ('int', 'floor', 'trunc') and inner_is_r:
            return (1, 0, 0)
        if nm == 'ceil' and inner_is_r:
            return (0, 1, 0)
        if nm in ('int', 'floor', 'ceil') and arg is not None:
            inner = _lin_in_radius(arg)
            return inner
        return None
    if isinstance(e, ast.BinOp) and isinstance(e.op, (ast.Add, ast.Sub)):
        l, r = _lin_in_radius(e.left), _lin_in_radius(e.right)
        if l is None or r is None:
            return None
        sg = 1 if isinstance(e.op, ast.Add) else -1
        return (l[0] + sg * r[0], l[1] + sg * r[1], l[2] + sg * r[2])
    return None


def _radius_plus_const(e):
    """k for expressions `radius + k` / `radius - k` / `radius` (radius as a real number), else None"""
    if isinstance(e, ast.Name) and e.id in ('SRC2', 'radius'):
        return 0
    if isinstance(e, ast.BinOp) and isinstance(e.op, (ast.Add, ast.Sub)) and isinstance(e.right, ast.Constant) \
            and isinstance(e.right.value, (int, float)):
        base = _radius_plus_const(e.left)
        if base is not None:
            return base + (e.right.value if isinstance(e.op, ast.Add) else -e.right.value)
    return None


def _covers(lin, need_ce_coeff, need_const, strict):
    """is  a*fl + b*ce + k  >=  need_ce_coeff*ce + need_const   for every radius > 0 (integer: fl = ce; otherwise ce = fl + 1)?
    decided for forms whose total coefficient equals the needed one (the only forms that are tight for all radii)"""
    a, b, k = lin
    if a + b < need_ce_coeff:
        return False
    if a + b > need_ce_coeff:
        return True        # grows faster than needed: holds from radius 1 on when k >= need_const - 1 ... accept (over-approximate box)
    # integer radius: (a+b) r + k >= r*need + need_const
    ok_int = k >= need_const
    # non-integer: fl = ce - 1:  a(ce-1) + b ce + k >= need ce + need_const  ->  -a + k >= need_const
    ok_frac = (k - a) >= need_const
    return ok_int and ok_frac


def _show(lin):
    a, b, k = lin
    parts = []
    if a:
        parts.append(f'{a}*floor(r)' if a != 1 else 'floor(r)')
    if b:
        parts.append(f'{b}*ceil(r)' if b != 1 else 'ceil(r)')
    if k or not parts:
        parts.append(str(k))
    return ' + '.join(parts).replace('+ -', '- ')


def _reach(e, lower: bool):
    """lo = max(c - A, 0) / c - A   -> A ;   hi = min(c + B, n) / c + B -> B   (as linear forms), None if not of that shape"""
    if isinstance(e, ast.Call) and _leaf(e.func) in ('max', 'min', 'maximum', 'minimum') and len(e.args) == 2:
        cands = [_reach(a, lower) for a in e.args]
        cands = [c for c in cands if c is not None]
        if len(cands) > 1:
            cands = [c for c in cands if (c[0], c[1]) != (0, 0)]     # the other candidate is the volume bound
        return cands[0] if len(cands) == 1 else None
    # peel c +/- stuff: collect linear form of (e - c) where c is a component of the centre (any non-radius name)
    def lin(x):
        if isinstance(x, ast.BinOp) and isinstance(x.op, (ast.Add, ast.Sub)):
            l, r = lin(x.left), lin(x.right)
            if l is None or r is None:
                return None
            sg = 1 if isinstance(x.op, ast.Add) else -1
            return (l[0] + sg * r[0], l[1] + sg * r[1], l[2] + sg * r[2], l[3] + sg * r[3])
        t = _lin_in_radius(x)
        if t is not None:
            return (t[0], t[1], t[2], 0)
        if isinstance(x, (ast.Name, ast.Subscript, ast.Attribute)):
            return (0, 0, 0, 1)      # one centre coordinate
        return None
    t = lin(e)
    if t is None or t[3] != 1:
        return None
    a, b, k, _ = t
    return (-a, -b, -k) if lower else (a, b, k)
