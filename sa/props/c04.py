"""C04 - Each stored evaluation is the direct comparison of prediction and resampled data (structural clauses)."""
from __future__ import annotations
import ast
from typing import Optional

from ..model import AnalysisError
from ..flow import depends_on_param, _canon_ext, CLOCK_FUNCS, OTHER_RNG_PREFIX, OTHER_RNG_FUNCS, RNG_NUMPY_OBJECTS
from ..rules.common import (where, norm, Inliner, mentions, calls_to, bound_args, expr_sources, dead_stores,
                            acc_named)

EXPLANATION = (
    'Static necessary-condition analysis of inference/evaluate.py (+ bootstrap, noise_ceiling, result): (PAIR) the '
    'prediction compared in every eval_* is sub-sampled by the pattern indices returned by the same bootstrap call that '
    'produced the sample, with one model index for theta / models / evaluations; the cross-validation wrappers hand '
    '_internal_cv a (sample, pattern_idx) pair from one draw; (NAN) resamples marked NaN are excluded from every '
    'covariance through eval_ok, and the NaN arm marks evaluations and ceilings; (DEAD) no computed covariance is '
    'discarded; (DOF) dof derives from the grouping descriptors; (RNG) randomness only from re-seedable np.random '
    'module functions, no clock/uuid/unseeded generators, no set-order dependence; (SIB) the three eval_bootstrap* '
    'routines put the same quantities into the covariance; (FWD) Result receives evaluations, ceilings, variances, dof. '
    'Numeric equality of stored values with a recomputation and the n_cv correction formula are NOT decided.'
    ' Also: (LOOP-SHADOW) a loop target does not take the name of the collection it iterates (fitter list in crossval).'
    " Round 6: (PAR-ACC) per-fold accumulators receive an entry on the same iterations; (MODEL-AXIS) scores taken from crossval(..).evaluations keep the model axis; (DOF) per arm of the boot_type chain; (NAME-KEY) no per-model table keyed by the model's name.")
ASSUMPTIONS = [
    'bootstrap_sample* return (sample, [rdm_idx,] pattern_idx) as documented; components are tracked per call site',
    'np.random.<fn> module-level functions are the only accepted randomness (re-seedable by np.random.seed)',
]
FLOOR = 60
RULE_FLOORS = {'PAIR': 12, 'NAN': 6, 'RNG': 20, 'DOF': 6}

EV = 'inference.evaluate.'
EVAL_FUNCS = ['eval_fixed', 'eval_bootstrap', 'eval_bootstrap_pattern', 'eval_bootstrap_rdm', 'crossval',
              'bootstrap_crossval', 'eval_dual_bootstrap', 'eval_dual_bootstrap_random']
BOOT = {'bootstrap_sample': (0, 2), 'bootstrap_sample_pattern': (0, 1), 'bootstrap_sample_rdm': (0, None)}


def run(ctx, obs):
    from ..rules import sweeps
    sweeps.run(ctx, obs, 'C04')
    for fn in ('eval_bootstrap', 'eval_bootstrap_pattern', 'eval_bootstrap_rdm', 'eval_fixed'):
        pairing_direct(ctx, obs, EV + fn)
        model_index(ctx, obs, EV + fn)
    model_index(ctx, obs, EV + 'crossval')
    for fn in ('bootstrap_crossval', 'eval_dual_bootstrap'):
        pairing_internal_cv(ctx, obs, EV + fn)
    pairing_random(ctx, obs, EV + 'eval_dual_bootstrap_random')
    for fn in EVAL_FUNCS:
        nan_discipline(ctx, obs, EV + fn)
        dead_stores(ctx, obs, EV + fn)
        result_args(ctx, obs, EV + fn)
        dof_groups(ctx, obs, EV + fn)
    dead_stores(ctx, obs, EV + '_internal_cv')
    sib_covariance(ctx, obs)
    rng_discipline(ctx, obs)
    ceilings_same_sample(ctx, obs)
    ceiling_buffer_layout(ctx, obs)
    covariance_normaliser(ctx, obs)
    for fn in EVAL_FUNCS:
        parallel_accumulators(ctx, obs, EV + fn)
    model_axis_of_crossval_result(ctx, obs)


def model_axis_of_crossval_result(ctx, obs, rule='MODEL-AXIS'):
    """`crossval(..).evaluations` is (1, models, folds).  A routine that stores it per model (one row of its own evaluations array per
    resample) has to keep the model axis: an index expression with a CONSTANT at position 1 reads one model only, and assigning that
    to a whole row broadcasts model 0's score to every model."""
    prog = ctx.prog
    n = 0
    for q, f in sorted(prog.functions.items()):
        if not (q.startswith('inference.boot_testset.') or q.startswith(EV)) or f.parent is not None:
            continue
        for e in ast.walk(f.node):
            if not (isinstance(e, ast.Subscript) and isinstance(e.ctx, ast.Load) and isinstance(e.value, ast.Attribute) and e.value.attr == 'evaluations'
                    and isinstance(e.value.value, ast.Call) and _leaf(e.value.value.func) == 'crossval'):
                continue
            items = list(e.slice.elts) if isinstance(e.slice, ast.Tuple) else [e.slice]
            n += 1
            con = 'the scores taken from crossval(..).evaluations keep the model axis'
            if len(items) >= 2 and isinstance(items[1], ast.Constant) and isinstance(items[1].value, int):
                obs.bad(rule, q, con, f'`{norm(e.slice)}` applied to the (1, models, folds) array selects model {items[1].value} only; stored into a row '
                        f'with one entry per model it gives every model the score of model {items[1].value}', where(prog, f, e))
            elif len(items) >= 2 and isinstance(items[1], ast.Slice):
                obs.ok(rule, q, con, '', where(prog, f, e))
            else:
                obs.unk(rule, q, con, f'index `{norm(e.slice)}` not recognised', where(prog, f, e))
    return n


def parallel_accumulators(ctx, obs, q, rule='PAR-ACC'):
    """Lists that collect one entry per resample / fold in the same loop (evaluations, noise ceilings) become the parallel columns of
    one Result: column i of each must belong to resample i.  Every list that is appended to in the loop must therefore be appended
    to on the same iterations: the per-iteration conditions (tests that read something assigned in the loop) under which the
    appends happen have to be the same for all of them.  Conditions on loop-invariant options (`if ceil_set is None and
    calc_noise_ceil`) switch a list on or off as a whole and are ignored."""
    prog = ctx.prog
    f = prog.func(q)
    for lp in [x for x in ast.walk(f.node) if isinstance(x, (ast.For, ast.While))]:
        # only the outermost loop that contains the appends is judged
        assigned = {x.id for st in lp.body for x in ast.walk(st) if isinstance(x, ast.Name) and isinstance(x.ctx, ast.Store)}
        if isinstance(lp, ast.For):
            assigned |= {x.id for x in ast.walk(lp.target) if isinstance(x, ast.Name)}
        parents = {}
        for p_ in ast.walk(lp):
            for ch in ast.iter_child_nodes(p_):
                parents[id(ch)] = p_
        sites = {}
        for c in ast.walk(lp):
            if isinstance(c, ast.Call) and isinstance(c.func, ast.Attribute) and c.func.attr == 'append' and isinstance(c.func.value, ast.Name) \
                    and c.func.value.id not in assigned:
                inner = [l2 for l2 in ast.walk(lp) if isinstance(l2, (ast.For, ast.While)) and l2 is not lp and any(c is y for y in ast.walk(l2))]
                if inner:
                    continue
                guards = []
                n, ch = parents.get(id(c)), c
                while n is not None and n is not lp:
                    if isinstance(n, ast.If) and not any(ch is y for t in [n.test] for y in ast.walk(t)):
                        branch = 'body' if any(ch is y for st in n.body for y in ast.walk(st)) else 'orelse'
                        variant = any(isinstance(x, ast.Name) and x.id in assigned for x in ast.walk(n.test))
                        if variant:
                            guards.append((id(n), branch, n))
                    ch, n = n, parents.get(id(n))
                sites.setdefault(c.func.value.id, []).append((c, guards))
        if len(sites) < 2:
            continue
        # per list: the set of per-iteration guard signatures of its appends (one signature per append site)
        sig = {name: sorted(tuple((g[0], g[1]) for g in gs) for _, gs in lst) for name, lst in sites.items()}
        names = sorted(sig)
        ref = max(names, key=lambda nm: -sum(len(x) for x in sig[nm]))      # the least guarded list is the reference
        for nm in names:
            if nm == ref:
                continue
            con = f'`{nm}` and `{ref}` receive an entry on the same iterations of the loop at line {lp.lineno}'
            # the appends of nm must cover the same iterations as those of ref: compare the guard paths
            if sig[nm] == sig[ref] or _covers_all(sites[nm]) == _covers_all(sites[ref]):
                obs.ok(rule, q, con, '', where(prog, f, sites[nm][0][0]))
            else:
                c0, g0 = sites[nm][0]
                cond = norm(g0[0][2].test)[:60] if g0 else 'another condition'
                obs.bad(rule, q, con, f'`{norm(c0)[:60]}` only happens when `{cond}` is {"true" if (g0 and g0[0][1] == "body") else "false"}, while `{ref}` '
                        f'gets an entry on every iteration: after a skipped iteration entry i of `{nm}` belongs to another resample than '
                        f'entry i of `{ref}`', where(prog, f, c0))


def _covers_all(site_list) -> bool:
    """the appends of one list together happen on every iteration: an unguarded append, or appends on both branches of the same test"""
    if any(not gs for _, gs in site_list):
        return True
    by_if = {}
    for _, gs in site_list:
        if len(gs) == 1:
            by_if.setdefault(gs[0][0], set()).add(gs[0][1])
    return any(v == {'body', 'orelse'} for v in by_if.values())


def covariance_normaliser(ctx, obs, rule='COV-N'):
    """A covariance written out by hand - centre M over its rows, sum the outer products (einsum / @ of M with itself), divide by
    (count - 1) - is the SAMPLE covariance only if the count is the number of rows of M, the rows that were actually centred
    and summed (the valid resamples).  `M.shape[0] - 1` / `len(M) - 1` -> ok; another count (the number of REQUESTED resamples N,
    while NaN resamples were filtered out of M) -> violation; anything else -> undecided."""
    prog = ctx.prog
    n = 0
    for fn in EVAL_FUNCS:
        q = EV + fn
        f = prog.func(q)
        for e in ast.walk(f.node):
            if not (isinstance(e, ast.BinOp) and isinstance(e.op, ast.Div)):
                continue
            num, den = e.left, e.right
            # numerator: einsum('..', M, M) or M.T @ M / M @ M.T with one matrix name
            ms = None
            if isinstance(num, ast.Call) and _leaf(num.func) == 'einsum' and len(num.args) == 3 and all(isinstance(a, ast.Name) for a in num.args[1:]) \
                    and num.args[1].id == num.args[2].id:
                ms = num.args[1].id
            elif isinstance(num, ast.BinOp) and isinstance(num.op, ast.MatMult):
                names = {x.id for x in ast.walk(num) if isinstance(x, ast.Name)}
                if len(names) == 1:
                    ms = next(iter(names))
            if ms is None or not (isinstance(den, ast.BinOp) and isinstance(den.op, ast.Sub) and isinstance(den.right, ast.Constant)
                                  and den.right.value == 1):
                continue
            centred = any(isinstance(s_, ast.AugAssign) and isinstance(s_.op, ast.Sub) and isinstance(s_.target, ast.Name) and s_.target.id == ms
                          and any(isinstance(c_, ast.Call) and _leaf(c_.func) in ('mean', 'nanmean') for c_ in ast.walk(s_.value))
                          for s_ in ast.walk(f.node)) or \
                any(isinstance(s_, ast.Assign) and isinstance(s_.targets[0], ast.Name) and s_.targets[0].id == ms and isinstance(s_.value, ast.BinOp)
                    and isinstance(s_.value.op, ast.Sub) and any(isinstance(c_, ast.Call) and _leaf(c_.func) in ('mean', 'nanmean')
                                                                 for c_ in ast.walk(s_.value.right)) for s_ in ast.walk(f.node))
            if not centred:
                continue
            n += 1
            cnt = den.left
            con = f'the covariance of `{ms}` is normalised by the number of its rows minus one'
            own = (isinstance(cnt, ast.Subscript) and isinstance(cnt.value, ast.Attribute) and cnt.value.attr == 'shape'
                   and isinstance(cnt.value.value, ast.Name) and cnt.value.value.id == ms and isinstance(cnt.slice, ast.Constant)
                   and cnt.slice.value == 0) or \
                  (isinstance(cnt, ast.Call) and _leaf(cnt.func) == 'len' and cnt.args and isinstance(cnt.args[0], ast.Name) and cnt.args[0].id == ms)
            if own:
                obs.ok(rule, q, con, f'`{norm(den)}`', where(prog, f, e))
            elif isinstance(cnt, ast.Name) and cnt.id in f.params:
                obs.bad(rule, q, con, f'`{norm(e)[:80]}` divides by `{norm(den)}`: `{cnt.id}` is the number of resamples REQUESTED; `{ms}` only '
                        f'holds the valid ones (NaN resamples are filtered out), so the covariance is too small whenever a resample was '
                        f'too small to evaluate', where(prog, f, e))
            else:
                obs.unk(rule, q, con, f'`{norm(den)}`', where(prog, f, e))
    if n == 0:
        obs.unk(rule, EV + 'eval_dual_bootstrap', 'hand-written covariances', 'none recognised')


def ceiling_buffer_layout(ctx, obs, rule='AXIS'):
    """The noise-ceiling buffers are (bound, resample[, cv repetition ...]); a (lower, upper) pair returned by the ceiling routines
    is stored along the BOUND axis.  Axis roles (rules/axis.py) with sizes 2 -> K (bounds), N -> S, n_cv -> V: a store that lets
    numpy broadcast the pair along another axis (the pair landing in the cv-repetition axis whenever that happens to have length
    two) is a definite role clash."""
    from ..rules.axis import AxisEval, Contract
    NCq = 'inference.noise_ceiling.'
    contracts = {NCq + 'cv_noise_ceiling': Contract({}, ('K',)), NCq + 'boot_noise_ceiling': Contract({}, ('K',))}
    n = 0
    for fn in EVAL_FUNCS:
        q = EV + fn
        f = ctx.prog.func(q)
        ev = AxisEval(ctx, q, contracts, size_roles={2: 'K', 'N': 'S', 'n_cv': 'V'})
        for s_ in ast.walk(f.node):
            if not (isinstance(s_, ast.Assign) and isinstance(s_.targets[0], ast.Subscript)):
                continue
            t = s_.targets[0]
            ar = ev.roles(t.value)
            if ar is None or 'K' not in ar:
                continue
            tr = ev._subscript(ast.Subscript(value=t.value, slice=t.slice, ctx=ast.Load(), lineno=t.lineno, col_offset=t.col_offset), 0)
            if tr is None:
                # loop counters (targets of a `for`) and integer literals select one position of their axis
                loop_vars = {n.id for l in ast.walk(f.node) if isinstance(l, ast.For) for n in ast.walk(l.target) if isinstance(n, ast.Name)}
                items = list(t.slice.elts) if isinstance(t.slice, ast.Tuple) else [t.slice]
                out, ok_ = [], len(items) <= len(ar)
                for i, it in enumerate(items):
                    if not ok_:
                        break
                    if isinstance(it, ast.Slice) and it.lower is None and it.upper is None:
                        out.append(ar[i])
                    elif (isinstance(it, ast.Name) and it.id in loop_vars) or (isinstance(it, ast.Constant) and isinstance(it.value, int)):
                        pass
                    else:
                        ok_ = False
                tr = tuple(out) + tuple(ar[len(items):]) if ok_ else None
            vr = ev.roles(s_.value)
            if tr is None or vr is None or 'K' not in vr:
                continue
            n += 1
            con = 'a (lower, upper) ceiling pair is stored along the bound axis of the buffer'
            # numpy aligns trailing axes
            k = len(tr) - len(vr)
            aligned = list(zip(tr[k:], vr)) if k >= 0 else []
            clash = [(a, b) for a, b in aligned if a not in ('?', '1') and b not in ('?', '1') and a != b]
            if k < 0:
                obs.unk(rule, q, con, f'`{norm(s_)[:70]}`: value has more axes than the target', where(ctx.prog, f, s_))
            elif clash:
                obs.bad(rule, q, con, f'`{norm(s_)[:70]}`: target axes {tr}, value axes {vr} - broadcasting puts the pair along axis '
                        f'{clash[0][0]} (it only fits when that axis has length two, and then both bounds receive [lower, upper])',
                        where(ctx.prog, f, s_))
            else:
                obs.ok(rule, q, con, f'{tr} <- {vr}', where(ctx.prog, f, s_))
    if n == 0:
        obs.unk(rule, EV + 'eval_dual_bootstrap_random', 'ceiling pairs stored in the buffer', 'no store of a ceiling pair recognised')
    # the arrays that are stacked for the covariance across resamples have one layout: (models or bounds) x resamples
    for fn in EVAL_FUNCS:
        q = EV + fn
        ev = AxisEval(ctx, q, contracts, size_roles={2: 'K', 'N': 'S', 'n_cv': 'V'})
        ev.check_function(obs, rule, None)


# ----------------------------------------------------------------------------------------------------------
def _boot_calls(r):
    return [c for c in r.calls if any(x.split('.')[-1] in BOOT for x in c.callees)]


def _classify(inl_expr) -> Optional[tuple]:
    """Subscript(Call(bootstrap_sample*), k) -> (leaf, k)"""
    e = inl_expr
    if isinstance(e, ast.Subscript) and isinstance(e.value, ast.Call) and isinstance(e.slice, ast.Constant):
        fn = e.value.func
        leaf = fn.attr if isinstance(fn, ast.Attribute) else (fn.id if isinstance(fn, ast.Name) else '')
        if leaf in BOOT:
            return leaf, e.slice.value, ast.dump(e.value)
    return None


def pairing_direct(ctx, obs, q, rule='PAIR'):
    prog = ctx.prog
    f = prog.func(q)
    r = ctx.dep.result(q)
    inl = Inliner(r, None, (), stop=('data', 'models', 'theta'), mark_sites=True)
    cmps = [c for c in r.calls if any(x.endswith('rdm.compare.compare') for x in c.callees)]
    if not cmps:
        raise AnalysisError(f'{q}: no compare() call found')
    for c in cmps:
        a = c.node.args
        if len(a) < 2:
            continue
        pred, samp = inl.inline(a[0]), inl.inline(a[1])
        scls = _classify(samp)
        # which draw does the prediction's pattern selection come from
        sub = [n for n in ast.walk(pred) if isinstance(n, ast.Call) and isinstance(n.func, ast.Attribute)
               and n.func.attr == 'subsample_pattern']
        has_predict = any(isinstance(n, ast.Call) and isinstance(n.func, ast.Attribute) and n.func.attr == 'predict_rdm'
                          for n in ast.walk(pred))
        obs.check(has_predict, rule, q, 'the first operand of compare is the model prediction (predict_rdm)',
                  f'`{norm(a[0])}` does not derive from predict_rdm', '', where(prog, f, c.node))
        if scls is None:
            # eval_fixed: data compared directly
            ok = isinstance(samp, ast.Name) and samp.id == 'data'
            obs.check(ok and not sub, rule, q, 'fixed evaluation compares the full prediction with the data',
                      f'second operand `{norm(a[1])}` is neither a bootstrap sample nor the data', '', where(prog, f, c.node))
            continue
        leaf, k, calldump = scls
        want_idx = BOOT[leaf][1]
        obs.check(k == 0, rule, q, 'the second operand of compare is the resampled RDMs of the draw',
                  f'`{norm(a[1])}` is component {k} of {leaf}', '', where(prog, f, c.node))
        if want_idx is None:
            obs.check(not sub, rule, q, 'RDM bootstrap: prediction is not pattern-resampled',
                      'prediction is pattern-subsampled although only RDMs were resampled', '', where(prog, f, c.node))
            continue
        if not sub:
            obs.bad(rule, q, 'prediction is restricted to the drawn conditions (subsample_pattern)',
                    f'`{norm(a[0])}` is compared with a pattern-resampled sample without being sub-sampled by the drawn '
                    f'pattern indices: rows of prediction and data describe different conditions', where(prog, f, c.node))
            continue
        for s in sub:
            if any(isinstance(x, ast.Starred) for x in s.args) or any(kw.arg is None for kw in s.keywords):
                obs.unk(rule, q, 'prediction is sub-sampled by the pattern indices of the same draw as the sample',
                        f'`{norm(s)[:70]}` passes its arguments through a starred sequence', where(prog, f, c.node))
                continue
            args = list(s.args) + [kw.value for kw in s.keywords]
            val = args[1] if len(args) > 1 else None
            vc = _classify(val) if val is not None else None
            ok = vc is not None and vc[0] == leaf and vc[1] == want_idx and vc[2] == calldump
            obs.check(ok, rule, q, 'prediction is sub-sampled by the pattern indices of the same draw as the sample',
                      f'prediction is sub-sampled by `{ast.unparse(val)[:80] if val is not None else "?"}`, which is not '
                      f'the pattern index returned by the {leaf} call that produced the sample', '', where(prog, f, c.node))
            by = args[0] if args else None
            obs.check(by is not None and any(isinstance(n, ast.Name) and n.id == 'PARAM_pattern_descriptor'
                                             for n in ast.walk(by)), rule, q,
                      'prediction is sub-sampled by the pattern descriptor used for the draw',
                      'subsample_pattern of the prediction uses another descriptor', '', where(prog, f, c.node))


def model_index(ctx, obs, q, rule='PAIR'):
    """for j, mod in enumerate(models): theta[j], evaluations[.., j], mod.predict_rdm - one index for all three"""
    prog = ctx.prog
    f = prog.func(q)
    n = 0
    for lp in ast.walk(f.node):
        if not (isinstance(lp, ast.For) and isinstance(lp.iter, ast.Call) and isinstance(lp.iter.func, ast.Name)
                and lp.iter.func.id == 'enumerate' and lp.iter.args and isinstance(lp.iter.args[0], ast.Name)
                and lp.iter.args[0].id == 'models' and isinstance(lp.target, ast.Tuple)):
            continue
        j, mod = lp.target.elts[0].id, lp.target.elts[1].id
        n += 1
        for node in ast.walk(lp):
            if isinstance(node, ast.Subscript) and isinstance(node.value, ast.Name) and node.value.id in ('theta', 'fitter'):
                ok = isinstance(node.slice, ast.Name) and node.slice.id == j
                obs.check(ok, rule, q, f'{node.value.id} is indexed by the model counter',
                          f'`{norm(node)}` inside the loop over models is not indexed by `{j}`: model {j} is evaluated '
                          f'with another model\'s {node.value.id}', '', where(prog, f, node))
            if isinstance(node, ast.Call) and isinstance(node.func, ast.Attribute) and node.func.attr == 'predict_rdm':
                ok = isinstance(node.func.value, ast.Name) and node.func.value.id == mod
                obs.check(ok, rule, q, 'the prediction comes from the model of this iteration',
                          f'`{norm(node)}` is not called on `{mod}`', '', where(prog, f, node))
            if isinstance(node, ast.Assign) and isinstance(node.targets[0], ast.Subscript) \
                    and isinstance(node.targets[0].value, ast.Name) and node.targets[0].value.id in ('evaluations', 'evals'):
                idx = node.targets[0].slice
                names = [x.id for x in ast.walk(idx) if isinstance(x, ast.Name)]
                last = idx.elts[-1] if isinstance(idx, ast.Tuple) else idx
                ok = isinstance(last, ast.Name) and last.id == j
                obs.check(ok, rule, q, 'the evaluation is stored at the model counter',
                          f'`{norm(node.targets[0])}` does not store at model index `{j}`', '', where(prog, f, node))
    if n == 0:
        obs.unk(rule, q, 'loop over models', 'no `for j, mod in enumerate(models)` loop')


def pairing_internal_cv(ctx, obs, q, rule='PAIR'):
    """_internal_cv(models, sample, ..., pattern_idx, ...): pattern-resampled sample <=> pattern_idx of the same draw"""
    prog = ctx.prog
    f = prog.func(q)
    r = ctx.dep.result(q)
    inl = Inliner(r, None, (), stop=('data', 'models'), mark_sites=True)
    cs = calls_to(r, EV + '_internal_cv')
    if not cs:
        raise AnalysisError(f'{q}: no call to _internal_cv')
    for c in cs:
        b = bound_args(prog, EV + '_internal_cv', c)
        if 'sample' not in b or 'pattern_idx' not in b:
            obs.unk(rule, q, f'_internal_cv #{c.ordinal} arguments', 'sample / pattern_idx not bound')
            continue
        alts_s = _alts(inl.inline(b['sample'][0]))
        alts_p = _alts(inl.inline(b['pattern_idx'][0]))
        con = f'_internal_cv #{c.ordinal}: sample and pattern_idx come from the same draw'
        verdicts = []
        for s in alts_s:
            pat_resampled, draw = _pattern_resampled(s)
            # matching alternative of pattern_idx (same position in the boot_type chain)
            okp = []
            for p in alts_p:
                pc = _classify(p)
                if pat_resampled:
                    okp.append(pc is not None and BOOT[pc[0]][1] == pc[1] and (draw is None or pc[2] == draw))
                else:
                    okp.append(pc is None and _is_unique_all(p))
            verdicts.append(any(okp))
        obs.check(all(verdicts), rule, q, con,
                  f'`{norm(c.node)[:120]}`: the sample is {"pattern-resampled" if _pattern_resampled(alts_s[0])[0] else "not pattern-resampled"} '
                  f'but pattern_idx `{norm(b["pattern_idx"][0])[:60]}` is not the matching index set: multiplicities of '
                  f'conditions in prediction and data disagree', '', where(prog, f, c.node))
        for p in ('models', 'method', 'fitter', 'k_pattern', 'k_rdm', 'pattern_descriptor', 'rdm_descriptor'):
            obs.check(p in b and depends_on_param(b[p][1], p), 'FWD', q, f'_internal_cv #{c.ordinal} receives {p}',
                      f'`{p}` is not passed to _internal_cv', '', where(prog, f, c.node))


def _alts(e):
    if isinstance(e, ast.Call) and isinstance(e.func, ast.Name) and e.func.id == 'PHI':
        out = []
        for a in e.args:
            out += _alts(a)
        return out
    return [e]


def _pattern_resampled(e):
    c = _classify(e)
    if c is not None:
        return (BOOT[c[0]][1] is not None and c[1] == 0), c[2]
    for n in ast.walk(e):
        if isinstance(n, ast.Call) and isinstance(n.func, ast.Attribute) and n.func.attr == 'subsample_pattern':
            args = list(n.args) + [k.value for k in n.keywords]
            vc = _classify(args[1]) if len(args) > 1 else None
            return True, (vc[2] if vc else None)
    return False, None


def _is_unique_all(e):
    return isinstance(e, ast.Call) and isinstance(e.func, ast.Attribute) and e.func.attr == 'unique'


def pairing_random(ctx, obs, q, rule='PAIR'):
    prog = ctx.prog
    f = prog.func(q)
    r = ctx.dep.result(q)
    cs = calls_to(r, EV + 'crossval')
    if not cs:
        raise AnalysisError(f'{q}: no call to crossval')
    for c in cs:
        b = bound_args(prog, EV + 'crossval', c)
        src_sets = (b.get('train_set', (None, frozenset()))[1] | b.get('test_set', (None, frozenset()))[1])
        src_rdms = b.get('rdms', (None, frozenset()))[1]
        sr = {t for t in src_sets if t.startswith('CALL:') and 'sets_random' in t}
        obs.check(bool(sr), rule, q, 'crossval receives the folds generated from the bootstrap sample',
                  'train/test sets do not come from sets_random', '', where(prog, f, c.node))
        boots = {t for t in src_rdms if t.startswith('CALL:') and 'bootstrap_sample' in t}
        obs.check(bool(boots), rule, q, 'crossval evaluates on the bootstrap sample',
                  'rdms argument of crossval is not the bootstrap sample', '', where(prog, f, c.node))
    for c in calls_to(r, 'inference.crossvalsets.sets_random'):
        a0 = c.arg(0) or frozenset()
        obs.check(any(t.startswith('CALL:') and 'bootstrap_sample' in t for t in a0), rule, q,
                  'folds are generated from the bootstrap sample', 'sets_random is not applied to the sample', '',
                  where(prog, f, c.node))


# ----------------------------------------------------------------------------------------------------------
def _result_names(ctx, q):
    """names of the locals handed to Result(...) as evaluations / noise_ceiling (None if not plain names)"""
    prog = ctx.prog
    r = ctx.dep.result(q)
    cs = calls_to(r, 'inference.result.Result.__init__')
    if not cs:
        raise AnalysisError(f'{q}: no Result(...) construction')
    b = bound_args(prog, 'inference.result.Result.__init__', cs[-1])
    ev = b.get('evaluations', (None,))[0]
    nc = b.get('noise_ceiling', (None,))[0]
    return (ev.id if isinstance(ev, ast.Name) else None), (nc.id if isinstance(nc, ast.Name) else None)


def _mask_names(f, ev):
    """locals defined as isfinite / ~isnan of (a slice of) the evaluations array"""
    out = set()
    for s in ast.walk(f.node):
        if isinstance(s, ast.Assign) and isinstance(s.targets[0], ast.Name):
            if any(isinstance(c, ast.Call) and isinstance(c.func, ast.Attribute) and c.func.attr in ('isfinite', 'isnan')
                   and any(isinstance(n, ast.Name) and n.id == ev for n in ast.walk(c)) for c in ast.walk(s.value)):
                out.add(s.targets[0].id)
    return out


def nan_discipline(ctx, obs, q, rule='NAN'):
    prog = ctx.prog
    f = prog.func(q)
    r = ctx.dep.result(q)
    ev, nc = _result_names(ctx, q)
    if ev is None:
        obs.unk(rule, q, 'evaluations array', 'Result(...) is not given a plain local as evaluations')
        return
    nan_stores = [s for s in ast.walk(f.node) if isinstance(s, ast.Assign) and isinstance(s.targets[0], ast.Subscript)
                  and isinstance(s.targets[0].value, ast.Name) and s.targets[0].value.id == ev
                  and _is_nan(s.value)]
    if not nan_stores:
        return
    masks = _mask_names(f, ev)
    # the arm that marks evaluations NaN also marks the noise ceilings
    for s in nan_stores:
        arm = _enclosing_arm(f.node, s)
        ok = False
        if arm is not None:
            for t in arm:
                for n in ast.walk(t):
                    if isinstance(n, ast.Assign) and isinstance(n.targets[0], ast.Subscript) \
                            and isinstance(n.targets[0].value, ast.Name) and n.targets[0].value.id != ev \
                            and _is_nan(n.value):
                        ok = True
                    if isinstance(n, ast.Call) and isinstance(n.func, ast.Attribute) and n.func.attr == 'append' \
                            and isinstance(n.func.value, ast.Name) and n.args and _is_nan(n.args[0]):
                        ok = True
        obs.check(ok, rule, q, 'a resample marked NaN also marks its noise ceilings NaN',
                  'the arm that sets evaluations to NaN does not set the noise-ceiling entries of the resample to NaN',
                  '', where(prog, f, s))
    # SMALL: what decides "too small to evaluate" is the number of DISTINCT conditions drawn (a resample of n conditions always has
    # n entries; fewer than three distinct ones leave no off-diagonal structure to evaluate), with threshold three
    inl0 = Inliner(r, None, tuple(f.params))
    for s in nan_stores:
        gs = [g for g in ast.walk(f.node) if isinstance(g, ast.If) and any(x is s for t in g.orelse for x in ast.walk(t))]
        if not gs:
            continue
        g = gs[-1]
        cmps = [c for c in ast.walk(g.test) if isinstance(c, ast.Compare) and len(c.ops) == 1
                and isinstance(c.ops[0], (ast.GtE, ast.Gt)) and isinstance(c.left, (ast.Call, ast.Attribute, ast.Name))]
        pat = [c for c in cmps if 'pattern' in norm(c).lower() or 'cond' in norm(c).lower()]
        for c in pat:
            left = inl0.inline(c.left)
            distinct = isinstance(left, ast.Call) and _leaf(left.func) == 'len' and left.args and isinstance(left.args[0], ast.Call) \
                and _leaf(left.args[0].func) == 'unique'
            con = 'a resample is evaluated only if it has at least three DISTINCT conditions'
            if not distinct:
                obs.bad('SMALL', q, con, f'`{norm(c)}` counts `{norm(c.left)}`, which includes repeated draws: resamples with fewer than three '
                        f'distinct conditions are evaluated (and enter the variances) instead of being marked NaN', where(prog, f, c))
                continue
            rhs = c.comparators[0]
            k = rhs.value if isinstance(rhs, ast.Constant) else None
            if k is not None:
                n0 = k if isinstance(c.ops[0], ast.GtE) else k + 1
                obs.check(n0 >= 3, 'SMALL', q, con, f'`{norm(c)}` accepts resamples with {n0} distinct conditions', '', where(prog, f, c))
            else:
                has3 = any(isinstance(x, ast.Constant) and x.value == 3 for x in ast.walk(rhs)) and isinstance(c.ops[0], ast.GtE)
                obs.soft(has3, 'SMALL', q, con, f'threshold `{norm(rhs)}` not recognised', '', where(prog, f, c))
    # every covariance is computed from mask-selected arrays
    stop = tuple({ev} | ({nc} if nc else set()) | masks)
    inl = Inliner(r, None, (), stop=stop)
    n_cov = 0
    for c in r.calls:
        leaf = c.ext.split('.')[-1] if c.ext else ''
        is_cov = leaf == 'cov'
        is_second_moment = leaf == 'einsum' and len(c.node.args) == 3 and \
            ast.dump(c.node.args[1]) == ast.dump(c.node.args[2])
        if not (is_cov or is_second_moment):
            continue
        n_cov += 1
        e = inl.inline(c.node.args[1] if is_second_moment else c.node.args[0])
        bad = _unmasked_uses(e, {ev} | ({nc} if nc else set()), masks)
        obs.check(not bad, rule, q, f'covariance #{c.ordinal} ({leaf}) uses only mask-selected (non-NaN) resamples',
                  f'`{norm(c.node)[:90]}` reads the {"evaluations" if bad and bad[0] == ev else "noise ceilings"} without the '
                  f'finite-sample mask: NaN-marked resamples enter the covariance', '', where(prog, f, c.node))
    if n_cov == 0:
        obs.unk(rule, q, 'covariance calls', 'no np.cov / einsum second moment found')


def _is_nan(e):
    return isinstance(e, ast.Attribute) and e.attr == 'nan' or \
        (isinstance(e, ast.BinOp) and (_is_nan(e.left) or _is_nan(e.right)))


def _enclosing_arm(root, target):
    """statements of the if/else arm that contains target"""
    best = None
    for n in ast.walk(root):
        if isinstance(n, ast.If):
            for arm in (n.body, n.orelse):
                if any(target is x for t in arm for x in ast.walk(t)):
                    best = arm
    return best


def _unmasked_uses(e, arrays, masks):
    """names of the arrays used other than as X[... mask ...]"""
    masked = set()
    for n in ast.walk(e):
        if isinstance(n, ast.Subscript) and isinstance(n.value, ast.Name) and n.value.id in arrays:
            if any(isinstance(x, ast.Name) and x.id in masks for x in ast.walk(n.slice)):
                masked.add(id(n.value))
    out = []
    for n in ast.walk(e):
        if isinstance(n, ast.Name) and n.id in arrays and id(n) not in masked:
            out.append(n.id)
    return out


# ----------------------------------------------------------------------------------------------------------
def result_args(ctx, obs, q, rule='FWD'):
    prog = ctx.prog
    f = prog.func(q)
    r = ctx.dep.result(q)
    cs = calls_to(r, 'inference.result.Result.__init__')
    if not cs:
        raise AnalysisError(f'{q}: no Result(...) construction')
    for c in cs:
        b = bound_args(prog, 'inference.result.Result.__init__', c)
        for p, want in (('models', 'models'), ('method', 'method')):
            obs.check(p in b and depends_on_param(b[p][1], want), rule, q, f'Result receives {p}',
                      f'Result(...) is not given `{p}`', '', where(prog, f, c.node))
        for p in ('evaluations', 'noise_ceiling'):
            obs.check(p in b, rule, q, f'Result receives {p}', f'Result(...) is not given `{p}`', '', where(prog, f, c.node))
        if q.endswith('crossval') and not q.endswith('bootstrap_crossval'):
            continue
        for p in ('variances', 'dof'):
            obs.check(p in b and not (isinstance(b[p][0], ast.Constant)), rule, q, f'Result receives {p}',
                      f'Result(...) is not given a computed `{p}` (default dof=1 / variances=None would be used)', '',
                      where(prog, f, c.node))


def dof_groups(ctx, obs, q, rule='DOF'):
    """dof = number of resampled groups - 1: the dof expression must read the grouping descriptor of every factor that
    is resampled in this routine (decided on the inlined expression, per alternative of a boot_type chain)"""
    prog = ctx.prog
    f = prog.func(q)
    if q.endswith('.crossval') or q.endswith('eval_fixed'):
        return
    r = ctx.dep.result(q)
    inl = Inliner(r, None, (), stop=('data',))
    boots = _boot_calls(r)
    cs = calls_to(r, 'inference.result.Result.__init__')
    for c in cs:
        b = bound_args(prog, 'inference.result.Result.__init__', c)
        if 'dof' not in b or b['dof'][0] is None:
            continue
        alts = _alts(inl.inline(b['dof'][0]))
        for p, leafs in (('rdm_descriptor', ('bootstrap_sample', 'bootstrap_sample_rdm')),
                         ('pattern_descriptor', ('bootstrap_sample', 'bootstrap_sample_pattern'))):
            if p not in f.params:
                continue
            if not any(x.split('.')[-1] in leafs for bc in boots for x in bc.callees):
                continue
            reads = [any(isinstance(n, ast.Name) and n.id == 'PARAM_' + p for n in ast.walk(a)) for a in alts]
            # with a boot_type chain only some alternatives resample this factor: at least one must read it, and
            # a routine without alternatives must read it
            ok = any(reads) if len(alts) > 1 else all(reads)
            obs.check(ok, rule, q, f'dof derives from the groups defined by {p}',
                      f'dof = `{norm(b["dof"][0])}` (inlined: {ast.unparse(alts[0])[:80]}) never reads the descriptor named by '
                      f'`{p}`: with grouped RDMs/conditions (e.g. 3 groups of 2) it counts items, not resampled groups',
                      '', where(prog, f, c.node))
        # per arm of a boot_type chain: the arm that resamples a factor takes its dof from THAT factor's groups
        dv = b['dof'][0]
        if isinstance(dv, ast.Name):
            for i in r.load_defs.get(id(dv), ()):
                d = r.defs[i]
                if d.kind != 'assign' or d.rhs is None or not isinstance(d.node, ast.Assign):
                    continue
                arm = None
                for g in ast.walk(f.node):
                    if isinstance(g, ast.If) and isinstance(g.test, ast.Compare) and isinstance(g.test.left, ast.Name) and g.test.left.id == 'boot_type' \
                            and isinstance(g.test.comparators[0], ast.Constant) and any(d.node is y for y in g.body):
                        arm = g.test.comparators[0].value
                if arm not in ('both', 'pattern', 'rdm'):
                    continue
                e = inl.inline(d.rhs)
                for fac, pname in (('rdm', 'rdm_descriptor'), ('pattern', 'pattern_descriptor')):
                    if arm not in (fac, 'both') or pname not in f.params:
                        continue
                    reads_p = any(isinstance(n, ast.Name) and n.id == 'PARAM_' + pname for n in ast.walk(e))
                    obs.check(reads_p, rule, q, f'boot_type {arm!r}: dof derives from the groups defined by {pname}',
                              f'`{norm(d.node)[:70]}` (inlined: {ast.unparse(e)[:70]}) never reads the descriptor named by `{pname}`: with grouped '
                              f'{"RDMs" if fac == "rdm" else "conditions"} it counts items, not the resampled groups', '', where(prog, f, d.node))
        for a in alts:
            obs.check(_minus_one(a), rule, q, 'dof is a group count minus one',
                      f'dof alternative `{ast.unparse(a)[:80]}` is not of the form <count> - 1', '', where(prog, f, c.node))


def _minus_one(e):
    return isinstance(e, ast.BinOp) and isinstance(e.op, ast.Sub) and isinstance(e.right, ast.Constant) and e.right.value == 1


def sib_covariance(ctx, obs, rule='SIB'):
    """the three eval_bootstrap* routines feed the same quantities into the covariance"""
    prog = ctx.prog
    forms = {}
    for fn in ('eval_bootstrap', 'eval_bootstrap_pattern', 'eval_bootstrap_rdm'):
        q = EV + fn
        f = prog.func(q)
        r = ctx.dep.result(q)
        inl = Inliner(r, None, (), stop=('data',))
        cs = calls_to(r, 'inference.result.Result.__init__')
        for c in cs:
            b = bound_args(prog, 'inference.result.Result.__init__', c)
            if 'variances' in b:
                alts = sorted(_canon(a) for a in _alts(inl.inline(b['variances'][0])))
                forms[fn] = (alts, c, f)
    if len(forms) < 3:
        obs.unk(rule, EV + 'eval_bootstrap*', 'variances argument of Result', 'not found in all three routines')
        return
    ref = forms['eval_bootstrap'][0]
    for fn, (alts, c, f) in forms.items():
        obs.check(alts == ref, rule, EV + fn, 'covariance is built from the same quantities as in eval_bootstrap',
                  f'the `variances` handed to Result in {fn} is not the expression used by its siblings '
                  f'(evaluations and both noise ceilings, masked by eval_ok): {len(alts)} alternative(s) vs {len(ref)}',
                  '', where(prog, f, c.node))


def _canon(e):
    """dump with opaque leftover local names (accumulator lists, loop-carried arrays) replaced by their role-free marker"""
    import copy
    e = copy.deepcopy(e)
    for n in ast.walk(e):
        if isinstance(n, ast.Name) and not n.id.startswith(('PARAM_', 'SRC', 'PHI', 'ELEM', 'OPAQUE', 'CYCLE')) and n.id not in ('np', 'data'):
            n.id = 'LOCAL'
    return ast.dump(e)


def ceilings_same_sample(ctx, obs, rule='PAIR'):
    prog = ctx.prog
    for fn in ('eval_bootstrap', 'eval_bootstrap_pattern', 'eval_bootstrap_rdm'):
        q = EV + fn
        f = prog.func(q)
        r = ctx.dep.result(q)
        for c in calls_to(r, 'inference.noise_ceiling.boot_noise_ceiling'):
            if not c.in_loops:
                continue
            inl = Inliner(r, None, (), stop=('data',))
            cls = _classify(inl.inline(c.node.args[0])) if c.node.args else None
            obs.check(cls is not None and cls[1] == 0, rule, q,
                      'the per-resample noise ceiling is computed on the resample itself',
                      f'`{norm(c.node)[:80]}` inside the bootstrap loop is not applied to the sample', '',
                      where(prog, f, c.node))
            b = bound_args(prog, 'inference.noise_ceiling.boot_noise_ceiling', c)
            obs.check('method' in b and depends_on_param(b['method'][1], 'method'), 'FWD', q,
                      'noise ceiling uses the evaluation method', 'method not forwarded to boot_noise_ceiling', '',
                      where(prog, f, c.node))
    q = EV + '_internal_cv'
    f = prog.func(q)
    r = ctx.dep.result(q)
    for c in calls_to(r, 'inference.noise_ceiling.cv_noise_ceiling'):
        b = bound_args(prog, 'inference.noise_ceiling.cv_noise_ceiling', c)
        ok = all(p in b for p in ('rdms', 'ceil_set', 'test_set')) and depends_on_param(b['rdms'][1], 'sample') \
            and any('sets_k_fold' in t for t in b['ceil_set'][1]) and any('sets_k_fold' in t for t in b['test_set'][1])
        obs.check(ok, rule, q, 'cross-validated ceiling uses the sample and the folds of this repetition',
                  f'`{norm(c.node)[:90]}` does not receive (sample, ceil_set, test_set) of this repetition', '',
                  where(prog, f, c.node))


# ----------------------------------------------------------------------------------------------------------
RNG_SCOPE = ('inference.', 'model.', 'util.inference_util', 'util.pooling', 'util.rdm_utils', 'rdm.rdms', 'rdm.compare',
             'rdm.combine', 'util.matrix', 'util.descriptor_utils', 'util.data_utils')


def rng_discipline(ctx, obs, rule='RNG'):
    prog = ctx.prog
    n_funcs = n_calls = 0
    for q, r in sorted(ctx.dep.summaries.items()):
        if not q.startswith(RNG_SCOPE):
            continue
        f = prog.functions[q]
        n_funcs += 1
        bad_here = False
        for c in r.calls:
            n_calls += 1
            if c.ext:
                canon = _canon_ext(c.ext)
                leaf = canon.split('.')[-1]
                why = None
                if canon in CLOCK_FUNCS:
                    why = 'reads the clock'
                elif canon.startswith(OTHER_RNG_PREFIX) or canon in OTHER_RNG_FUNCS:
                    why = 'draws from a random source that np.random.seed does not control'
                elif canon.startswith('numpy.random.') and leaf in RNG_NUMPY_OBJECTS:
                    seeded = bool(c.node.args or any(k.arg == 'seed' for k in c.node.keywords))
                    if not seeded:
                        why = 'creates an unseeded random generator'
                if why:
                    bad_here = True
                    obs.bad(rule, q, f'no non-reproducible source ({canon})',
                            f'`{norm(c.node)[:80]}` {why}: a rerun with the same np.random seed does not reproduce the result',
                            where(prog, f, c.node))
        # iteration over a set feeding an ordered result
        for n in ast.walk(f.node):
            it = None
            if isinstance(n, ast.For):
                it = n.iter
            elif isinstance(n, ast.comprehension):
                it = n.iter
            elif isinstance(n, ast.Call) and isinstance(n.func, ast.Name) and n.func.id in ('list', 'tuple') and n.args:
                it = n.args[0]
            elif isinstance(n, ast.Call) and isinstance(n.func, ast.Attribute) and n.func.attr in ('array', 'asarray') and n.args:
                it = n.args[0]
            if it is not None and _is_set_expr(it):
                bad_here = True
                obs.bad(rule, q, 'no dependence on set iteration order',
                        f'`{norm(it)[:60]}` is iterated in hash order (randomised per process for strings) into an ordered '
                        f'result', where(prog, f, n if hasattr(n, 'lineno') else f.node))
        if not bad_here:
            obs.ok(rule, q, 'randomness only from np.random module functions; no clock / set-order dependence', '')
    obs.analysed['rng_scope_functions'] = n_funcs
    obs.analysed['rng_scope_calls'] = n_calls


def _is_set_expr(e):
    if isinstance(e, (ast.Set, ast.SetComp)):
        return True
    if isinstance(e, ast.Call) and isinstance(e.func, ast.Name) and e.func.id in ('set', 'frozenset'):
        return True
    if isinstance(e, ast.Call) and isinstance(e.func, ast.Attribute) and e.func.attr in ('difference', 'union', 'intersection') \
            and _is_set_expr(e.func.value):
        return True
    return False


def _leaf(fn):
    return fn.attr if isinstance(fn, ast.Attribute) else (fn.id if isinstance(fn, ast.Name) else '')
