"""C12 - Value-returning operations neither modify nor alias their inputs."""
from __future__ import annotations
import ast
import json
import os
from typing import Dict, List, Set, Tuple

from ..heap import is_param_loc, param_of, FRESH, DELEM
from ..rules.common import where

EXPLANATION = (
    'Alias/effect analysis (E3) of every public callable of rdm, data, model, inference, util, simulation and the io '
    'save paths (discovered from the function table, so new functions are included): (PURE) the transitive may-write set '
    'on parameter-reachable objects is empty outside the documented in-place API (RDMs.reorder/sort_by/append, '
    'Dataset/TemporalDataset.sort_by) - writes to the library-managed "index" entry and constructors normalising their '
    'own fields are exempt; (FRESH) objects returned by value-returning operations do not may-alias a parameter-reachable '
    'array or descriptor container (object itself and its array / dict fields; the values stored inside descriptor dicts '
    'are not tracked). get_vectors() is summarised as handing out the internal array, so any caller writing through it '
    'is a PURE violation at the caller. Decided at variable / one-field level: element-level aliasing inside object '
    'arrays is outside the abstraction.')
ASSUMPTIONS = [
    'numpy view/copy table and mutator table in sa/heap.py (basic slicing, .T, reshape, ravel, squeeze, asarray -> view; '
    'boolean/array index, astype, arithmetic, concatenate, .copy() -> fresh; unknown index kind -> copy)',
    'summary overrides in contracts/effects.json (one symbol each, with reason)',
    'calls through callables held in variables (fitters, user functions) have no modelled effect',
]
FLOOR = 150
RULE_FLOORS = {'PURE': 100, 'FRESH': 40}

PUBLIC_PREFIXES = ('rdm.', 'data.', 'model.', 'inference.', 'util.', 'simulation.')
OUT_OF_SCOPE = ('util.vis_utils', 'util.searchlight')   # plotting support / joblib drivers: not value-returning container ops
INPLACE_API = {
    'rdm.rdms.RDMs.reorder', 'rdm.rdms.RDMs.sort_by', 'rdm.rdms.RDMs.append',
    'data.dataset.Dataset.sort_by', 'data.dataset.TemporalDataset.sort_by',
}
# array / container fields of the value classes (the labelled content a user can observe)
CONTENT_FIELDS = {'dissimilarities', 'measurements', 'descriptors', 'rdm_descriptors', 'pattern_descriptors',
                  'obs_descriptors', 'channel_descriptors', 'time_descriptors', 'rdm', 'evaluations', 'variances',
                  'noise_ceiling'}


def load_effect_exceptions():
    p = os.path.join(os.path.dirname(os.path.dirname(os.path.dirname(os.path.abspath(__file__)))), 'contracts', 'effects.json')
    with open(p) as fh:
        return json.load(fh)


def is_public(prog, q: str) -> bool:
    if not q.startswith(PUBLIC_PREFIXES) or q.startswith(OUT_OF_SCOPE):
        return False
    fi = prog.functions[q]
    if fi.parent is not None:
        return False
    parts = q.split('.')
    name = parts[-1]
    if name.startswith('_') and not (name.startswith('__') and name.endswith('__')):
        return False
    if fi.cls and prog.classes[fi.cls].name.startswith('_'):
        return False
    return True


PROG = [None]


def run(ctx, obs):
    prog, heap = ctx.prog, ctx.heap
    PROG[0] = prog
    exc = load_effect_exceptions()
    for x in exc.get('pure_origin_exempt', []):
        obs.exceptions.append(f"PURE origin {x['origin']} on {x['loc']}: {x['reason']}")
    for x in exc.get('fresh_exempt', []):
        obs.exceptions.append(f"FRESH {x['function']}: {x['reason']}")
    obs.analysed['heap_summaries'] = heap.evaluations
    obs.analysed['heap_rounds'] = heap.rounds
    pubs = [q for q in sorted(prog.functions) if is_public(prog, q)]
    obs.analysed['public_callables'] = len(pubs)
    for q in pubs:
        pure(ctx, obs, q, exc)
        fresh(ctx, obs, q, exc)
    invariants(ctx, obs)
    value_immutability(ctx, obs)


INPLACE_HELPERS = {
    'util.descriptor_utils.append_descriptor': 'documented mutating helper ("appends a descriptor to another") of the '
                                                'in-place API RDMs.append',
}


def _exempt_write(q, fi, loc, kind, key, origin, exc) -> str:
    if q in INPLACE_HELPERS:
        return INPLACE_HELPERS[q]
    if key == 'index':
        return 'library-managed index entry'
    if key == 'rsatoolbox_version' and kind != 'field':
        return 'library-managed version stamp of a serialisation dict (neither a data array nor a user-supplied descriptor)'
    if kind == 'field' and key == 'shape':
        return 'attribute store on a view object (reshapes the view, not the data)'
    root = param_of(loc)
    first = fi.pos_params[0] if fi.pos_params and fi.cls and not fi.is_static else None
    if first and root == first:
        if q in INPLACE_API:
            return 'documented in-place API'
        if fi.name == '__init__':
            return 'constructor initialising its own fields'
        if fi.name in ('__setattr__', '__setitem__', '__delitem__'):
            return 'mutator protocol'
    for x in exc.get('pure_origin_exempt', []):
        if origin and x['origin'] in PROG[0].pinned_names(origin[0]) and (x['loc'] == '*' or loc.startswith(x['loc'])):
            return x['reason']
    return ''


def pure(ctx, obs, q, exc, rule='PURE'):
    prog, heap = ctx.prog, ctx.heap
    fi = prog.functions[q]
    s = heap.summary(q)
    groups: Dict[Tuple[str, str], List] = {}
    for (loc, kind, key) in sorted(s.writes):
        if not is_param_loc(loc):
            continue
        origin = s.write_sites.get((loc, kind, key))
        if _exempt_write(q, fi, loc, kind, key, origin, exc):
            continue
        oq = origin[0] if origin else q
        groups.setdefault((loc, oq), []).append((kind, key, origin))
    if not groups:
        obs.ok(rule, q, 'no write reaches an argument', f'{len(s.writes)} exempt writes (own fields / index / in-place API)',
               where(prog, fi, fi.node))
        return
    for (loc, oq), items in sorted(groups.items()):
        kind, key, origin = items[0]
        at = f'{origin[0]} line {origin[1]}: `{origin[2]}`' if origin else ''
        obs.bad(rule, q, f'does not write {loc} (write in {oq})',
                f'{q} may modify the caller\'s `{loc[2:]}` - the write happens in {at}; the operation is not in the '
                f'documented in-place API', where(prog, fi, fi.node))


def _returns_value_object(ctx, q) -> bool:
    s = ctx.heap.summary(q)
    return FRESH in s.ret and bool(s.ret_fields)


def fresh(ctx, obs, q, exc, rule='FRESH'):
    prog, heap = ctx.prog, ctx.heap
    fi = prog.functions[q]
    if fi.name == '__init__' or q in INPLACE_API:
        return
    s = heap.summary(q)
    if any(x['function'] == q for x in exc.get('fresh_exempt', [])):
        return
    if not s.ret:
        return
    bad = False
    # fields of freshly built result objects
    for fld, locs in sorted(s.ret_fields.items()):
        if fld == DELEM:
            for l in sorted(x for x in locs if is_param_loc(x)):
                parts = l[2:].split('.')
                # entries of an argument's own descriptor dicts are values that the library replaces and never edits in place
                # (rule VALS): sharing them is how every shallow dict copy works and no documented operation can tell.  What
                # must not be stored is an argument itself (an array / list the caller keeps using)
                if len(parts) >= 2 and (parts[1] in CONTENT_FIELDS or parts[1] == 'rdm_obj'):
                    continue
                if _documented_immutable(fi, parts[0]):
                    continue
                bad = True
                obs.bad(rule, q, f'the descriptor entries of the result are independent of {l}',
                        f'the object returned by {q} stores the caller\'s `{l[2:]}` itself as an entry of one of its descriptor '
                        f'dicts: a write through the result\'s descriptor changes the caller\'s object (and the reverse)',
                        where(prog, fi, fi.node))
            continue
        if fld not in CONTENT_FIELDS:
            continue
        shared = sorted(l for l in locs if is_param_loc(l))
        for l in shared:
            bad = True
            obs.bad(rule, q, f'result.{fld} is independent of {l}',
                    f'the object returned by {q} stores the caller\'s `{l[2:]}` (or a view of it) as its `{fld}`: a later '
                    f'in-place operation on the result or on the source changes the labelled content of the other',
                    where(prog, fi, fi.node))
    # the result itself is (a view of) an argument's array / container
    own = sorted(l for l in s.ret if is_param_loc(l) and _content_loc(l))
    if own and _value_returning(prog, fi):
        for l in own:
            if _is_accessor(fi, l):
                continue
            bad = True
            obs.bad(rule, q, f'result is independent of {l}',
                    f'{q} may return the caller\'s `{l[2:]}` itself (or a view of it), not a new object',
                    where(prog, fi, fi.node))
    if not bad:
        obs.ok(rule, q, 'result does not alias an argument', '', where(prog, fi, fi.node))


def _documented_immutable(fi, param: str) -> bool:
    """the docstring types the parameter as a string / number / bool (`name (str):`, `name (String, optional)`), or its default
    is a string / number: such a value cannot be written through"""
    import re
    doc = ast.get_docstring(fi.node) or ''
    m = re.search(r'^\s*' + re.escape(param) + r'\s*\(([^)]*)\)\s*:', doc, re.M) or re.search(r'^\s*' + re.escape(param) + r'\s*:\s*(\S+)', doc, re.M)
    if m and re.match(r'\s*(str|string|int|float|bool|number)\b', m.group(1), re.I):
        return True
    a = fi.node.args
    names = [x.arg for x in a.posonlyargs + a.args]
    dflt = dict(zip(reversed(names), reversed(a.defaults)))
    dflt.update({k.arg: d for k, d in zip(a.kwonlyargs, a.kw_defaults) if d is not None})
    d = dflt.get(param)
    if isinstance(d, ast.Constant) and isinstance(d.value, (str, int, float, bool)) and d.value is not None:
        return True
    ann = next((x.annotation for x in a.posonlyargs + a.args + a.kwonlyargs if x.arg == param), None)
    if ann is not None and re.fullmatch(r'(Optional\[)?(str|int|float|bool)\]?( \| None)?', ast.unparse(ann)):
        return True
    return False


def _content_loc(l: str) -> bool:
    """an array / container of the value classes (P:x.<content field>[.*]); bare parameters (normalisers returning
    their argument, fluent `return self`) and scalar attributes are not labelled content"""
    parts = l[2:].split('.')
    return len(parts) >= 2 and parts[1] in CONTENT_FIELDS | {'rdm_obj'}


def _value_returning(prog, fi) -> bool:
    """operations whose documented result is a new object: everything except accessors / normalisers of their input"""
    return True


def _is_accessor(fi, loc) -> bool:
    # x.get_y() / properties returning a field of self: the documented way to reach internal state
    first = fi.pos_params[0] if fi.pos_params and fi.cls and not fi.is_static else None
    return bool(first and param_of(loc) == first and (fi.name.startswith('get_') or fi.is_property
                                                       or fi.name in ('__getitem__', '__iter__', '__next__')))


def sibling_fresh(ctx, obs, exc, rule='SIB'):
    """overriding implementations of one method agree on freshness: if one returns a new object, all do"""
    prog, heap = ctx.prog, ctx.heap
    by_name: Dict[Tuple[str, str], List[str]] = {}
    for cq, ci in prog.classes.items():
        root = prog.mro(cq)[-1]
        for m, mq in ci.methods.items():
            if m.startswith('_'):
                continue
            by_name.setdefault((root, m), []).append(mq)
    for (root, m), qs in sorted(by_name.items()):
        if len(qs) < 2 or not root.startswith(PUBLIC_PREFIXES):
            continue
        fresh_ones = [q for q in qs if FRESH in heap.summary(q).ret and not any(is_param_loc(l) for l in heap.summary(q).ret)]
        if not fresh_ones:
            continue
        for q in qs:
            s = heap.summary(q)
            own = sorted(l for l in s.ret if is_param_loc(l))
            fi = prog.functions[q]
            if not s.ret:
                continue
            obs.check(not own, rule, q, f'{m}() returns a new object like its sibling implementations',
                      f'{q} returns `{own[0][2:] if own else ""}` (its own stored object) while {fresh_ones[0]} returns a new '
                      f'object: results of the same interface differ in ownership', '', where(prog, fi, fi.node))


def invariants(ctx, obs, rule='STATE'):
    """support for the summary overrides: RDMs.dissimilarities is only ever assigned a 2-D vector form"""
    prog = ctx.prog
    # support for the pure_origin exemption of data.noise._check_demean (in-place centring of a 3-D tensor): the tensor is fresh
    qt = 'data.dataset.Dataset.get_measurements_tensor'
    st = ctx.heap.summary(qt)
    locs = set(st.ret) | (set(st.ret_comps[0]) if st.ret_comps else set())
    shared = sorted(l for l in locs if is_param_loc(l))
    obs.check(not shared, rule, qt, 'the measurements tensor handed to the noise estimators is a new array',
              f'get_measurements_tensor may return {shared}: the exempted in-place centring of _check_demean then writes into the '
              f'caller\'s dataset', '', where(prog, prog.func(qt), prog.func(qt).node))
    ok_producers = {'batch_to_vectors', 'concatenate'}
    for q, fi in sorted(prog.functions.items()):
        if q.startswith(('vis.', 'test.')):
            continue
        for n in ast.walk(fi.node):
            if isinstance(n, ast.Assign):
                for t in n.targets:
                    tt = t.elts[0] if isinstance(t, ast.Tuple) and t.elts else t
                    if isinstance(tt, ast.Attribute) and tt.attr == 'dissimilarities':
                        v = n.value
                        base = v.value if isinstance(v, ast.Subscript) else v
                        nm = ''
                        if isinstance(base, ast.Call):
                            nm = base.func.attr if isinstance(base.func, ast.Attribute) else getattr(base.func, 'id', '')
                        obs.check(nm in ok_producers, rule, q,
                                  '.dissimilarities is assigned the 2-D vector form (batch_to_vectors / concatenate)',
                                  f'`{ast.unparse(n)[:80]}` assigns .dissimilarities from another source: the get_matrices() '
                                  f'freshness override no longer holds', '', where(prog, fi, n))


DESCRIPTOR_MODULES = ('util.descriptor_utils.',)


def value_immutability(ctx, obs, rule='VALS', prefixes=PUBLIC_PREFIXES):
    """Library invariant behind every shallow dict copy (subset / subsample / copy / constructors share the VALUE lists of
    descriptor dictionaries): a descriptor value is replaced (`d[k] = new`), never grown or edited in place - not even by
    the documented in-place API, whose contract is to change the object it is called on and nothing else."""
    from ..heap import DICT_FIELDS
    prog, heap = ctx.prog, ctx.heap
    n = 0
    for q in sorted(prog.functions):
        if not q.startswith(prefixes) or q.startswith(OUT_OF_SCOPE):
            continue
        fi = prog.functions[q]
        s = heap.summary(q)
        hits = []
        for (loc, kind, key) in sorted(s.writes):
            if kind != 'item' or not is_param_loc(loc) or not loc.endswith('.*') or key == 'index':
                continue
            parts = loc[2:].split('.')
            in_dict_field = len(parts) == 3 and parts[1] in DICT_FIELDS
            in_desc_param = len(parts) == 2 and q.startswith(DESCRIPTOR_MODULES)
            if not (in_dict_field or in_desc_param):
                continue
            origin = s.write_sites.get((loc, kind, key))
            if origin and origin[0] != q:
                continue      # reported at the function that performs the write
            hits.append((loc, origin))
        n += 1
        if not hits:
            obs.ok(rule, q, 'descriptor values are replaced, never edited in place', '', where(prog, fi, fi.node))
        for loc, origin in hits:
            obs.bad(rule, q, f'no in-place edit of a value stored in {loc[:-2]}',
                    f'line {origin[1] if origin else "?"}: `{origin[2] if origin else ""}` edits a descriptor value in place; '
                    f'the value lists are shared between objects (subset, subsample, copy and the constructors copy the '
                    f'dictionary, not its values), so the edit shows up in every object that shares the list',
                    where(prog, fi, fi.node))
    return n
