"""C20 - Importers recover exactly the structure encoded in external names and files (structural clauses)."""
from __future__ import annotations
import ast
from typing import Set

from ..model import AnalysisError
from ..rules.common import where, norm, dead_stores, Inliner, acc_named
from ..rules.containers import no_axisless_squeeze
from ..rules import poly

EXPLANATION = (
    'Static necessary-condition analysis of io/bids.py, fmriprep.py, meadows.py, mne.py, spm.py: (TAB) the entities '
    'assigned by BidsFile._deconstruct are the entities BidsLayout._replace looks up, the rebuilt file name follows the '
    'BIDS order sub, ses, task, run, space, desc, suffix.ext, and each find_* overrides only the entities its purpose '
    'names; (ASSIGN) every attribute _replace reads is assigned on every path of _deconstruct; (GUARD) in '
    '`if obj.K: d["K"] = obj.K` sequences the tested and the stored attribute are the same; (DEAD/ACC) the per-run filtered '
    'block of spm_filter is written back into the returned array; (ND) dataset_from_epochs maps data / event codes / '
    'channel names / times to measurements / obs / channel / time descriptors; (POLY/AXIS) dof == n_vols - number of columns '
    'of the final design matrix, centring and range-normalisation run over axis 0, confound columns are flagged 0 and '
    'predictors 1 in the column order; (MEADOWS) sort reaches sort_by(conds="alpha"), descriptors come from the file-name '
    'fields the scope implies, no axis-less squeeze. The parse/format inverse law over the grammar, numeric file contents '
    'and HRF values are NOT decided.'
    ' Also: (SEQ-GUARD) the meadows guard compares stimulus lists as sequences; (LOOKUP) BIDS finders return the file at the full rebuilt path (or from a store keyed by it).'
    ' Round 6: (PAIR) the vectors of a multi-participant Meadows file are looked up by the participant names.')
ASSUMPTIONS = ['BIDS entity order table frozen in the checker', 'pandas / nibabel / scipy.io calls are not modelled']
FLOOR = 50
RULE_FLOORS = {'TAB': 14, 'ASSIGN': 8}

BIDS_ORDER = ['sub', 'ses', 'task', 'run', 'space', 'desc']
ENTITIES = ['derivative', 'sub', 'ses', 'modality', 'task', 'run', 'space', 'desc', 'suffix', 'ext']


def _leaf(fn):
    return fn.attr if isinstance(fn, ast.Attribute) else (fn.id if isinstance(fn, ast.Name) else '')


def run(ctx, obs):
    from ..rules import sweeps
    sweeps.run(ctx, obs, 'C20')
    bids(ctx, obs)
    guards(ctx, obs)
    spm(ctx, obs)
    mne(ctx, obs)
    design_matrix(ctx, obs)
    meadows(ctx, obs)


def _must_assigned(stmts, me='self') -> Set[str]:
    out: Set[str] = set()
    for s in stmts:
        if isinstance(s, ast.Assign):
            for t in s.targets:
                if isinstance(t, ast.Attribute) and isinstance(t.value, ast.Name) and t.value.id == me:
                    out.add(t.attr)
                if isinstance(t, ast.Tuple):
                    for e in t.elts:
                        if isinstance(e, ast.Attribute) and isinstance(e.value, ast.Name) and e.value.id == me:
                            out.add(e.attr)
        elif isinstance(s, ast.If):
            a = _must_assigned(s.body, me)
            b = _must_assigned(s.orelse, me)
            out |= (a & b)
        elif isinstance(s, (ast.With,)):
            out |= _must_assigned(s.body, me)
        elif isinstance(s, ast.Try):
            out |= _must_assigned(s.finalbody, me)
    return out


OPTIONAL_ENTITIES = ('derivative', 'ses', 'task', 'run', 'space', 'modality', 'desc')


def replace_template(ctx, obs, fd, fr, qd, qr, assigned_any, must):
    """TPL (rules/template.py): `_replace` is partially evaluated into the template of the path it returns; the obligations are
    stated on the template, so they do not depend on how the function spells the construction."""
    from ..rules import template as T
    prog = ctx.prog
    pp = fr.pos_params
    if len(pp) < 3:
        raise AnalysisError('_replace: expected (self, base, replace_entities)')
    ev = T.TemplateEval(prog, fr, pp[1], pp[2])
    r = ev.run()
    w = where(prog, fr, fr.node)
    con = 'the path is assembled from directory segments and a file name of `_`-joined entity segments'
    if not isinstance(r, T.P) or not r.lst.items or not isinstance(r.lst.items[-1][1], T.J):
        obs.unk('TAB', qr, con, f'the return value of _replace is not recognised as join(*dirs, "_".join(segments)): {ev.notes[:3]}', w)
        return []
    fname_guard, fname = r.lst.items[-1]
    dirs = r.lst.items[:-1]
    unknown = bool(T.flatten_unknowns(r)) or fname.sep != '_' or bool(fname_guard)
    obs.check(fname.sep == '_' and not fname_guard, 'TAB', qr, con, f'file name joined with {fname.sep!r} under guard {sorted(fname_guard)}', '', w)
    if T.flatten_unknowns(r):
        obs.unk('TAB', qr, 'every segment of the rebuilt path is a constant or an entity value',
                '; '.join(sorted({u.why for u in T.flatten_unknowns(r)}))[:200], w)

    for h in sorted({repr(x) for x in T.half_resolved(r)}):
        key = h.split("'")[1] if "'" in h else h
        obs.bad('TAB', qr, f'entity {key!r} is the replacement when one is given and the value of the base file otherwise',
                f'the path template carries {h}: ' + ('a requested replacement is ignored' if h.startswith('Inh') else
                                                      'the base file value is never inherited'), w)

    def ents_of(v):
        if isinstance(v, (T.Rep, T.Inh)):
            return [v.key]
        if isinstance(v, T.Ent):
            return [v.key]
        if isinstance(v, T.S):
            return [p.key for p in v.parts if isinstance(p, (T.Ent, T.Rep, T.Inh))]
        return []

    all_items = dirs + fname.lst.items
    looked = sorted({e for _, v in all_items for e in ents_of(v)})
    if len(looked) < 8 and not unknown:
        obs.bad('TAB', qr, 'the rebuilt path carries the BIDS entities', f'only {looked} appear in the path template', w)
    # (1) parsed <-> rebuilt
    for e in sorted(set(looked) | (assigned_any - {'relpath', 'layout', '_meta'})):
        if e in looked and e in assigned_any:
            obs.ok('TAB', qr, f'entity {e!r} is parsed by _deconstruct and used by _replace', '', w)
        elif e in assigned_any and unknown:
            obs.unk('TAB', qr, f'entity {e!r} is parsed by _deconstruct and used by _replace', 'not found in the (partly unknown) template', w)
        else:
            obs.bad('TAB', qr, f'entity {e!r} is parsed by _deconstruct and used by _replace',
                    f'{e!r}: parsed={e in assigned_any}, rebuilt={e in looked}: the entity is dropped when a path is rebuilt'
                    if e in assigned_any else f'{e!r} is looked up by _replace but never parsed', w)
    # (2) `<name>-<value>` segments carry the value of <name>; the last segment is <suffix>.<ext>
    order = []
    for g, v in fname.lst.items:
        if isinstance(v, T.S) and len(v.parts) == 2 and isinstance(v.parts[0], str) and v.parts[0].endswith('-'):
            name = v.parts[0][:-1]
            order.append(name)
            if isinstance(v.parts[1], T.Ent):
                obs.check(v.parts[1].key == name, 'TAB', qr, f'segment {name}-<value> carries the value of {name}',
                          f'the segment `{name}-` carries the value of entity {v.parts[1].key!r}', '', w)
        elif isinstance(v, T.S) and len(v.parts) == 3 and v.parts[1] == '.':
            order.append('suffix.ext')
            got = [p.key if isinstance(p, T.Ent) else None for p in (v.parts[0], v.parts[2])]
            if None not in got:
                obs.check(got == ['suffix', 'ext'], 'TAB', qr, 'the last segment is <suffix>.<ext>', f'it is built from {got}', '', w)
        elif not isinstance(v, T.U):
            order.append(repr(v)[:30])
    for g, v in dirs:
        if isinstance(v, T.S) and len(v.parts) == 2 and isinstance(v.parts[0], str) and v.parts[0].endswith('-') \
                and isinstance(v.parts[1], T.Ent):
            name = v.parts[0][:-1]
            obs.check(v.parts[1].key == name, 'TAB', qr, f'directory {name}-<value> carries the value of {name}',
                      f'the directory `{name}-` carries the value of entity {v.parts[1].key!r}', '', w)
    want = BIDS_ORDER + ['suffix.ext']
    con = 'the file name is rebuilt in BIDS entity order'
    if order == want:
        obs.ok('TAB', qr, con, '', w)
    elif unknown and [o for o in order if o in want] == [x for x in want if x in order]:
        obs.unk('TAB', qr, con, f'order {order} (template partly unknown)', w)
    else:
        obs.bad('TAB', qr, con, f'order {order}, expected {want}', w)
    # directories: derivatives/<derivative>/sub-<sub>/ses-<ses>/<modality>
    dsig = []
    for g, v in dirs:
        if isinstance(v, str):
            dsig.append(v)
        elif isinstance(v, T.Ent):
            dsig.append(f'<{v.key}>')
        elif isinstance(v, T.S) and len(v.parts) == 2 and isinstance(v.parts[1], T.Ent):
            dsig.append(f'{v.parts[0]}<{v.parts[1].key}>')
        else:
            dsig.append('?')
    dwant = ['derivatives', '<derivative>', 'sub-<sub>', 'ses-<ses>', '<modality>']
    con = 'the directories are derivatives/<derivative>/sub-<sub>/ses-<ses>/<modality>'
    if dsig == dwant:
        obs.ok('TAB', qr, con, '', w)
    elif '?' in dsig:
        obs.unk('TAB', qr, con, f'{dsig}', w)
    else:
        obs.bad('TAB', qr, con, f'directories {dsig}', w)
    # (3) guards: an optional segment is present iff the entity it carries is set
    for g, v in all_items:
        es = ents_of(v)
        if isinstance(v, str) and v == 'derivatives':
            es = ['derivative']
        for e in es:
            if e not in OPTIONAL_ENTITIES and not (e == 'sub' and g):
                continue
            con = f'the segment of {e!r} is emitted iff that entity is set'
            if any(str(k).startswith('?') for k, _ in g):
                obs.unk('TAB', qr, con, f'guard {sorted(g)}', w)
            elif g == frozenset({(e, True)}):
                obs.ok('TAB', qr, con, '', w)
            elif not g:
                obs.bad('TAB', qr, con, f'the segment is emitted unconditionally: an unset entity is written as `{e}-None`', w)
            else:
                obs.bad('TAB', qr, con, f'the segment is guarded by {sorted(g)}', w)
    # (4) attributes read when rebuilding exist on every file
    if not looked:
        # the template evaluation saw no entity look-up in _replace (the look-ups moved behind a partial / a helper it cannot
        # follow): which attributes _replace needs is not known, the clause is owed for every entity _deconstruct parses
        for e in sorted(assigned_any - {'relpath', 'layout', '_meta'}):
            obs.unk('ASSIGN', qd, f'attribute {e!r} is assigned on every path of _deconstruct',
                    'the entity look-ups of _replace were not recognised (restructured): not decided', where(prog, fd, fd.node))
    for e in looked:
        obs.check(e in must, 'ASSIGN', qd, f'attribute {e!r} is assigned on every path of _deconstruct',
                  f'`self.{e}` is not assigned on some path (e.g. a path without directory segments): _replace raises '
                  f'AttributeError for such files', '', where(prog, fd, fd.node))
    return looked


def bids(ctx, obs):
    prog = ctx.prog
    qd = 'io.bids.BidsFile._deconstruct'
    qr = 'io.bids.BidsLayout._replace'
    fd, fr = prog.func(qd), prog.func(qr)
    assigned_any = {t.attr for s in ast.walk(fd.node) if isinstance(s, ast.Assign) for t in s.targets
                    if isinstance(t, ast.Attribute) and isinstance(t.value, ast.Name) and t.value.id == 'self'}
    must = _must_assigned(fd.node.body)
    looked = replace_template(ctx, obs, fd, fr, qd, qr, assigned_any, must)
    # entities are read with _findEntity under their own name
    for s in ast.walk(fd.node):
        if isinstance(s, ast.Assign) and isinstance(s.value, ast.Call) and _leaf(s.value.func) == '_findEntity' and s.value.args:
            t = s.targets[0]
            a = s.value.args[0]
            ok = isinstance(t, ast.Attribute) and isinstance(a, ast.Constant) and t.attr == a.value
            obs.check(ok, 'TAB', qd, f'attribute {getattr(t, "attr", "?")!r} is parsed from the entity of the same name',
                      f'`{norm(s)}`', '', where(prog, fd, s))
    # find_* override sets
    want = {
        'find_meta_for': {'ext'},
        'find_events_for': {'derivative', 'space', 'desc', 'suffix', 'ext'},
        'find_table_sibling_of': {'desc', 'suffix', 'ext', 'space'},
        'find_mri_sibling_of': {'desc', 'suffix'},
    }
    for m, keys in want.items():
        q = 'io.bids.BidsLayout.' + m
        f = prog.func(q)
        calls = [c for c in ast.walk(f.node) if isinstance(c, ast.Call) and _leaf(c.func) == '_replace']
        if not calls:
            obs.unk('TAB', q, f'{m} rebuilds the path through _replace', 'no _replace call', where(prog, f, f.node))
            continue
        d = calls[0].args[1] if len(calls[0].args) > 1 else None
        got = None
        if isinstance(d, ast.Call) and _leaf(d.func) == 'dict':
            got = {k.arg for k in d.keywords}
        elif isinstance(d, ast.Dict):
            got = {k.value for k in d.keys if isinstance(k, ast.Constant)}
        if got is None:
            obs.unk('TAB', q, f'{m} changes exactly the entities {sorted(keys)}', f'override set `{norm(d)[:60] if d is not None else None}` '
                    f'not a dict literal', where(prog, f, calls[0]))
            continue
        obs.check(got == keys, 'TAB', q, f'{m} changes exactly the entities {sorted(keys)}',
                  f'{m} overrides {sorted(got) if got is not None else None}: other entities of the base file are changed / kept '
                  f'unintentionally', '', where(prog, f, calls[0]))
        base = calls[0].args[0] if calls[0].args else None
        first_param = f.node.args.args[1].arg if len(f.node.args.args) > 1 else None
        obs.check(isinstance(base, ast.Name) and base.id == first_param, 'TAB', q, f'{m} starts from the base file', '', '',
                  where(prog, f, calls[0]))
    # the look-up returns the file AT the rebuilt path: every returned object is built from the full rebuilt path (or comes out of
    # a store that is keyed by the full path); an object fetched by a key that forgets part of the path (basename, stem, a subset
    # of the entities) is the file of whichever base was looked up first
    for m in want:
        q = 'io.bids.BidsLayout.' + m
        f = prog.func(q)
        r = ctx.dep.result(q)
        path_vars = {s_.targets[0].id for s_ in ast.walk(f.node) if isinstance(s_, ast.Assign) and isinstance(s_.targets[0], ast.Name)
                     and isinstance(s_.value, ast.Call) and _leaf(s_.value.func) == '_replace'}
        for node, _, _ in r.returns:
            if node is None or node.value is None:
                continue
            v = node.value
            con = f'{m} returns the file at the rebuilt path'
            if isinstance(v, ast.Call) and v.args and ((isinstance(v.args[0], ast.Name) and v.args[0].id in path_vars)
                                                        or (isinstance(v.args[0], ast.Call) and _leaf(v.args[0].func) == '_replace')):
                obs.ok('LOOKUP', q, con, f'`{norm(v)[:60]}`', where(prog, f, node))
            elif isinstance(v, ast.Subscript) and isinstance(v.value, ast.Attribute):
                key = v.slice
                kdefs = [d.rhs for i in (r.load_defs.get(id(key), ()) if isinstance(key, ast.Name) else ()) for d in [r.defs[i]]]
                full = (isinstance(key, ast.Name) and key.id in path_vars) or \
                    (kdefs and all(isinstance(k, ast.Name) and k.id in path_vars for k in kdefs))
                lossy = [k for k in ([key] + kdefs) if isinstance(k, ast.Call) and _leaf(k.func) in
                         ('basename', 'split', 'splitext', 'stem', 'name', 'rsplit', 'partition', 'dirname')]
                if full:
                    obs.ok('LOOKUP', q, con, f'store keyed by the full path `{norm(key)}`', where(prog, f, node))
                elif lossy:
                    obs.bad('LOOKUP', q, con, f'`{norm(v)[:60]}` hands out an object stored under `{norm(lossy[0])[:40]}`, which forgets part of '
                            f'the path (directory / derivative): a look-up for a file of the same name elsewhere in the tree returns the '
                            f'object of the file that was looked up first', where(prog, f, node))
                else:
                    obs.unk('LOOKUP', q, con, f'`{norm(v)[:60]}`: key of the store not recognised', where(prog, f, node))
            else:
                obs.unk('LOOKUP', q, con, f'`{norm(v)[:60]}`', where(prog, f, node))
    # derivative directory position
    txt = ast.unparse(fd.node).replace(' ', '')
    obs.soft("parts[0]=='derivatives'" in txt and 'self.derivative=parts[1]' in txt, 'TAB', qd,
              'the derivative is the directory after `derivatives`', '', '', where(prog, fd, fd.node))
    strip_misuse(ctx, obs)
    q = 'io.bids.BidsFile._findEntity'
    f = prog.func(q)
    t = ast.unparse(f.node).replace(' ', '')
    obs.soft("startswith(f'{entity}-')" in t, 'TAB', q, 'an entity segment is recognised by its `<entity>-` prefix', '', '',
              where(prog, f, f.node))


def strip_misuse(ctx, obs, rule='API'):
    """str.strip / lstrip / rstrip take a SET of characters: used with a multi-character prefix or suffix they also eat the
    leading characters of the value that happen to be in the set (`'task-stroop'.lstrip('task-') == 'roop'`).  Sweep over the
    importers (io.*): an argument that is an f-string, or a constant with two or more alphanumeric characters, or a local bound
    to one, is a prefix / suffix, not a character set."""
    prog = ctx.prog
    n = 0
    for q, f in sorted(prog.functions.items()):
        if not q.startswith('io.') or q.startswith('io.petnames'):
            continue
        local = {s.targets[0].id: s.value for s in ast.walk(f.node) if isinstance(s, ast.Assign) and isinstance(s.targets[0], ast.Name)}
        for c in ast.walk(f.node):
            if isinstance(c, ast.Call) and isinstance(c.func, ast.Attribute) and c.func.attr in ('strip', 'lstrip', 'rstrip') and c.args:
                n += 1
                a = c.args[0]
                if isinstance(a, ast.Name) and a.id in local:
                    a = local[a.id]
                multi = isinstance(a, ast.JoinedStr) or (isinstance(a, ast.Constant) and isinstance(a.value, str)
                                                         and sum(ch.isalnum() for ch in a.value) >= 2)
                obs.check(not multi, rule, q, f'`{norm(c)[:60]}` strips a character set, not a prefix / suffix',
                          f'`{norm(c)[:80]}`: the argument `{norm(a)[:40]}` is a multi-character prefix / suffix; strip() removes any of its '
                          f'characters, so values beginning (ending) with one of them are mangled', '', where(prog, f, c))
    obs.analysed['strip_calls_in_importers'] = n


def guards(ctx, obs, rule='GUARD'):
    prog = ctx.prog
    n = 0
    for q in ('io.fmriprep.FmriprepRun.get_dataset_descriptors', 'io.mne.descriptors_from_bids_filename'):
        f = prog.func(q)
        for g in ast.walk(f.node):
            if isinstance(g, ast.If) and isinstance(g.test, ast.Attribute) and len(g.body) == 1 and isinstance(g.body[0], ast.Assign):
                s = g.body[0]
                if isinstance(s.targets[0], ast.Subscript) and isinstance(s.value, ast.Attribute):
                    n += 1
                    same = ast.dump(g.test) == ast.dump(s.value)
                    key = s.targets[0].slice
                    key_ok = isinstance(key, ast.Constant) and key.value == s.value.attr
                    obs.check(same, rule, q, f'the attribute tested is the attribute stored ({s.value.attr})',
                              f'`if {norm(g.test)}: {norm(s)}` tests `{g.test.attr}` but stores `{s.value.attr}`: the descriptor is '
                              f'lost (or None is stored) whenever the two differ in presence', '', where(prog, f, g))
                    obs.check(key_ok, rule, q, f'the descriptor key names the attribute stored ({s.value.attr})',
                              f'`{norm(s)}`', '', where(prog, f, s))
    if n < 3:
        obs.unk(rule, 'io.fmriprep.FmriprepRun.get_dataset_descriptors', 'guarded descriptor stores', f'{n} found')
    q = 'io.mne.descriptors_from_bids_filename'
    f = prog.func(q)
    t = ast.unparse(f.node).replace(' ', '')
    obs.soft("segment.startswith(dname+'-')" in t and "descs[dname]=segment[len(dname)+1:]" in t, rule, q,
              'a descriptor is the rest of the segment that starts with `<name>-`', '', '', where(prog, f, f.node))


def spm(ctx, obs):
    prog = ctx.prog
    q = 'io.spm.SpmGlm.spm_filter'
    f = prog.func(q)
    dead_stores(ctx, obs, q)
    r = ctx.dep.result(q)
    rets = [n for n, _, _ in r.returns if n is not None and isinstance(n.value, ast.Name)]
    if not rets:
        obs.unk('ACC', q, 'filtered data are returned', 'return is not a plain name')
        return
    out = rets[0].value.id
    loops = [n for n in f.node.body if isinstance(n, ast.For)]
    written = False
    for lp in loops:
        for s in ast.walk(lp):
            if isinstance(s, (ast.Assign, ast.AugAssign)):
                tg = s.targets if isinstance(s, ast.Assign) else [s.target]
                for t in tg:
                    if isinstance(t, ast.Subscript) and isinstance(t.value, ast.Name) and t.value.id == out:
                        written = True
                        val = s.value
                        txt = norm(val).replace(' ', '')
                        proj = '@(' in txt and '.T@' in txt and '-' in txt
                        obs.soft(proj, 'ACC', q, 'the block written back is Y - X0 @ (X0.T @ Y)', f'`{norm(s)[:90]}`', '',
                                  where(prog, f, s))
                        same_rows = any(isinstance(x, ast.Subscript) and isinstance(x.value, ast.Name) and x.value.id == out
                                        and ast.dump(x.slice) == ast.dump(t.slice) for x in ast.walk(lp) if x is not t)
                        obs.check(same_rows, 'ACC', q, 'the filtered block is written to the rows it was read from',
                                  f'`{norm(t)}` is not the slice the block was read from', '', where(prog, f, s))
    obs.check(written, 'ACC', q, 'each run\'s filtered block is written back into the returned array',
              f'the loop over runs never stores into `{out}`: the function returns its input unfiltered', '', where(prog, f, f.node))
    cp = any(isinstance(s, ast.Assign) and isinstance(s.targets[0], ast.Name) and s.targets[0].id == out
             and isinstance(s.value, ast.Call) and _leaf(s.value.func) == 'copy' for s in f.node.body)
    obs.check(cp, 'PURE', q, 'filtering works on a copy of the data', 'the input array is filtered in place', '', where(prog, f, f.node))
    # run boundaries: cumulative sum of scans with a leading 0; filter i for run i
    t = ast.unparse(f.node).replace(' ', '')
    obs.soft('cumsum()' in t and 'insert(scan_bounds,0,0)' in t, 'ACC', q, 'run boundaries are the cumulative scan counts starting at 0',
              '', '', where(prog, f, f.node))
    fm = [x for x in ast.walk(f.node) if isinstance(x, ast.Subscript) and isinstance(x.value, ast.Attribute) and x.value.attr == 'filter_matrices']
    idx = {norm(x.slice) for x in fm}
    con = 'run i is filtered with filter matrix i'
    # the loop that stores into the result; its target names are the per-run variables
    store_loops = [lp for lp in loops if any(isinstance(t_, ast.Subscript) and isinstance(t_.value, ast.Name) and t_.value.id == out
                                             for s_ in ast.walk(lp) if isinstance(s_, (ast.Assign, ast.AugAssign))
                                             for t_ in (s_.targets if isinstance(s_, ast.Assign) else [s_.target]))]
    run_vars = {n_.id for lp in store_loops for n_ in ast.walk(lp.target) if isinstance(n_, ast.Name)}
    plain_counter = {lp.target.id for lp in store_loops if isinstance(lp.target, ast.Name)}
    in_loop = all(any(x is y for lp in store_loops for y in ast.walk(lp)) for x in fm)
    if not fm:
        obs.unk('ACC', q, con, 'no read of self.filter_matrices[...]', where(prog, f, f.node))
    elif any(isinstance(x.slice, ast.Constant) for x in fm):
        obs.bad('ACC', q, con, f'filter index {idx}: one fixed filter matrix is used for every run', where(prog, f, fm[0]))
    elif plain_counter and idx == plain_counter and in_loop:
        obs.ok('ACC', q, con, '', where(prog, f, fm[0]))
    elif plain_counter and all(isinstance(x.slice, ast.Name) for x in fm) and not (idx & run_vars):
        obs.bad('ACC', q, con, f'filter index {idx}, run index {sorted(plain_counter)}', where(prog, f, fm[0]))
    elif idx <= run_vars and in_loop:
        # tuple target (enumerate / zip / a generator of (run, rows) pairs): the index is one of the per-run variables
        obs.unk('ACC', q, con, f'filter index {sorted(idx)} is a per-run variable of the loop `for {norm(store_loops[0].target)} in ...`; '
                f'its pairing with the rows is established by the iterable', where(prog, f, fm[0]))
    else:
        obs.unk('ACC', q, con, f'filter index {sorted(idx)}, per-run variables {sorted(run_vars)}', where(prog, f, fm[0]))
    # no lossy memoisation: a projector cached under a key that does not identify the filter matrix (its shape / length) hands
    # run j the filter of an earlier run i whenever both share the key
    for lp in loops:
        caches = {}
        for s in ast.walk(lp):
            if isinstance(s, ast.Assign) and isinstance(s.targets[0], ast.Subscript) and isinstance(s.targets[0].value, ast.Name) \
                    and s.targets[0].value.id != out:
                caches[s.targets[0].value.id] = s
        for name, st in caches.items():
            key = st.targets[0].slice
            read_back = any(isinstance(x, ast.Subscript) and isinstance(x.ctx, ast.Load) and isinstance(x.value, ast.Name) and x.value.id == name
                            for x in ast.walk(lp))
            if not read_back:
                continue
            local = {s_.targets[0].id: s_.value for s_ in ast.walk(lp) if isinstance(s_, ast.Assign) and isinstance(s_.targets[0], ast.Name)}

            def expand(e, depth=0):
                """attribute roots (self.<attr>) an expression reads, through loop-local names"""
                out = set()
                for x in ast.walk(e):
                    if isinstance(x, ast.Attribute) and isinstance(x.value, ast.Name) and x.value.id == 'self':
                        out.add(x.attr)
                    if isinstance(x, ast.Name) and x.id in local and depth < 4:
                        out |= expand(local[x.id], depth + 1)
                return out
            key_e = local.get(key.id, key) if isinstance(key, ast.Name) else key
            lossy = any(isinstance(x, ast.Attribute) and x.attr in ('shape', 'size', 'ndim') for x in ast.walk(key_e)) or \
                any(isinstance(x, ast.Call) and _leaf(x.func) == 'len' for x in ast.walk(key_e))
            # a key computed from OTHER per-run data than the cached value does not determine the value
            kroots, vroots = expand(key_e), expand(st.value)
            if not lossy and kroots and vroots and not (kroots & vroots):
                lossy = True
            by_index = isinstance(key, ast.Name) and key.id in plain_counter
            con = 'a value cached across runs is keyed by the run'
            if by_index:
                obs.ok('ACC', q, con, f'`{norm(st)[:70]}`', where(prog, f, st))
            elif lossy:
                obs.bad('ACC', q, con, f'`{norm(st)[:90]}` caches a per-run quantity under `{norm(key)}`, which does not identify the '
                        f'run\'s filter matrix: a later run with an equally shaped but different basis is filtered with the earlier run\'s '
                        f'regressors', where(prog, f, st))
            else:
                obs.unk('ACC', q, con, f'`{norm(st)[:70]}`: key not recognised', where(prog, f, st))
    q2 = 'io.spm.SpmGlm.get_residuals'
    f2 = prog.func(q2)
    t2 = ast.unparse(f2.node).replace(' ', '')
    obs.soft('self.spm_filter(self.weight@data)' in t2 and 'fdata-self.design_matrix@beta' in t2 and 'self.pinvX@fdata' in t2, 'ND', q2,
              'residuals = filtered whitened data - design @ (pinv @ filtered data)', '', '', where(prog, f2, f2.node))
    q3 = 'io.spm.SpmGlm.relocate_file'
    f3 = prog.func(q3)
    t3 = ast.unparse(f3.node).replace(' ', '')
    obs.soft("find('func')" in t3 and 'norm_fpath[c:]' in t3, 'ND', q3, 'raw data are re-rooted at the func directory next to the GLM', '', '',
              where(prog, f3, f3.node))


def mne(ctx, obs, rule='ND'):
    prog = ctx.prog
    q = 'io.mne.dataset_from_epochs'
    f = prog.func(q)
    ep = f.pos_params[0]
    ctor = [c for c in ast.walk(f.node) if isinstance(c, ast.Call) and _leaf(c.func) == 'TemporalDataset']
    if not ctor:
        raise AnalysisError('dataset_from_epochs: no TemporalDataset(...)')
    kw = {k.arg: k.value for k in ctor[0].keywords}

    def entry(e, key):
        """value stored under `key` in dict(key=v) / {'key': v}"""
        if isinstance(e, ast.Call) and _leaf(e.func) == 'dict':
            for k in e.keywords:
                if k.arg == key:
                    return k.value
        if isinstance(e, ast.Dict):
            for k, v in zip(e.keys, e.values):
                if isinstance(k, ast.Constant) and k.value == key:
                    return v
        return None

    def attr_of_epochs(e, attr):
        return isinstance(e, ast.Attribute) and e.attr == attr and isinstance(e.value, ast.Name) and e.value.id == ep
    m = kw.get('measurements', ctor[0].args[0] if ctor[0].args else None)
    obs.check(isinstance(m, ast.Call) and attr_of_epochs(m.func, 'get_data'), rule, q, 'measurements are the epochs\' data (get_data())',
              f'measurements = `{norm(m) if m is not None else None}`', '', where(prog, f, ctor[0]))
    ev = entry(kw.get('obs_descriptors'), 'event')
    if ev is None:
        obs.bad(rule, q, 'the event descriptor is the event code column (events[:, 2])', 'no `event` observation descriptor',
                where(prog, f, ctor[0]))
    else:
        ok = isinstance(ev, ast.Subscript) and attr_of_epochs(ev.value, 'events') and isinstance(ev.slice, ast.Tuple) \
            and len(ev.slice.elts) == 2 and isinstance(ev.slice.elts[0], ast.Slice) and isinstance(ev.slice.elts[1], ast.Constant) \
            and ev.slice.elts[1].value == 2
        obs.check(ok, rule, q, 'the event descriptor is the event code column (events[:, 2])',
                  f'event = `{norm(ev)}`: MNE stores (sample, previous id, event id) - the event code is column 2', '',
                  where(prog, f, ctor[0]))
    for dk, key, attr in (('channel_descriptors', 'name', 'ch_names'), ('time_descriptors', 'time', 'times')):
        v = entry(kw.get(dk), key)
        if v is None:
            obs.bad(rule, q, f'{dk}[{key!r}] comes from epochs.{attr}', f'no `{key}` entry in {dk}', where(prog, f, ctor[0]))
        else:
            obs.check(attr_of_epochs(v, attr), rule, q, f'{dk}[{key!r}] comes from epochs.{attr}', f'{key} = `{norm(v)}`', '',
                      where(prog, f, ctor[0]))
    obs.check('descriptors' in kw, rule, q, 'dataset descriptors are passed on', '', '', where(prog, f, ctor[0]))
    q2 = 'io.mne.read_epochs'
    f2 = prog.func(q2)
    t2 = ast.unparse(f2.node).replace(' ', '')
    obs.soft('descriptors_from_bids_filename(fname)' in t2 and 'dataset_from_epochs(epo,descs)' in t2, rule, q2,
             'read_epochs attaches the descriptors parsed from the file name', '', '', where(prog, f2, f2.node))


def design_matrix(ctx, obs):
    prog = ctx.prog
    q = 'io.fmriprep.make_design_matrix'
    f = prog.func(q)
    r = ctx.dep.result(q)
    rets = [n for n, _, _ in r.returns if n is not None and isinstance(n.value, ast.Tuple) and len(n.value.elts) == 3]
    if not rets:
        raise AnalysisError('make_design_matrix: no 3-tuple return')

    def root(e):
        while isinstance(e, (ast.Call, ast.Attribute, ast.Subscript)):
            e = e.func if isinstance(e, ast.Call) else e.value
        return e.id if isinstance(e, ast.Name) else None
    dm, mask, dofn = (root(e) for e in rets[0].value.elts)
    nvol = 'n_vols' if 'n_vols' in f.params else None
    if dm is None or mask is None or dofn is None or nvol is None:
        obs.unk('POLY', q, 'dof == n_vols - number of columns of the design matrix', 'return tuple / n_vols parameter not recognised')
        return
    dofs = [s for s in ast.walk(f.node) if isinstance(s, ast.Assign) and isinstance(s.targets[0], ast.Name) and s.targets[0].id == dofn]
    if not dofs:
        raise AnalysisError('make_design_matrix: no dof assignment')
    s = dofs[-1]

    def leaf(e):
        if isinstance(e, ast.Name) and e.id == nvol:
            return poly.sym('n_vols')
        if isinstance(e, ast.Subscript) and isinstance(e.value, ast.Attribute) and e.value.attr == 'shape' \
                and isinstance(e.value.value, ast.Name) and e.value.value.id == dm and isinstance(e.slice, ast.Constant):
            return poly.sym('cols' if e.slice.value == 1 else 'rows')
        return None
    got = poly.from_expr(s.value, leaf)
    ref = poly.add(poly.sym('n_vols'), poly.sym('cols'), -1)
    if got is None:
        # a count that is kept by hand: wrong when one of its summands is the width of a table that loses columns afterwards
        filtered = {c.func.value.id for c in ast.walk(f.node) if isinstance(c, ast.Call) and isinstance(c.func, ast.Attribute)
                    and c.func.attr in ('dropna', 'drop', 'select_dtypes', 'filter') and isinstance(c.func.value, ast.Name)}
        widths = {}      # name -> table whose (unfiltered) width it holds
        for st in ast.walk(f.node):
            if not isinstance(st, ast.Assign):
                continue
            t, v = st.targets[0], st.value
            if isinstance(v, ast.Attribute) and v.attr == 'shape' and isinstance(v.value, ast.Name) and isinstance(t, (ast.Tuple, ast.List)) \
                    and len(t.elts) == 2 and isinstance(t.elts[1], ast.Name):
                widths[t.elts[1].id] = v.value.id
            elif isinstance(t, ast.Name) and isinstance(v, ast.Subscript) and isinstance(v.value, ast.Attribute) and v.value.attr == 'shape' \
                    and isinstance(v.value.value, ast.Name) and isinstance(v.slice, ast.Constant) and v.slice.value == 1:
                widths[t.id] = v.value.value.id
        # names feeding dof
        feeds, todo = set(), [x.id for x in ast.walk(s.value) if isinstance(x, ast.Name)]
        while todo:
            nm_ = todo.pop()
            if nm_ in feeds:
                continue
            feeds.add(nm_)
            for st in ast.walk(f.node):
                if isinstance(st, (ast.Assign, ast.AugAssign)):
                    tg = st.targets[0] if isinstance(st, ast.Assign) else st.target
                    if isinstance(tg, ast.Name) and tg.id == nm_:
                        todo += [x.id for x in ast.walk(st.value) if isinstance(x, ast.Name)]
        direct = [x for x in ast.walk(f.node) if isinstance(x, ast.Subscript) and isinstance(x.value, ast.Attribute) and x.value.attr == 'shape'
                  and isinstance(x.value.value, ast.Name) and x.value.value.id in filtered and isinstance(x.slice, ast.Constant) and x.slice.value == 1]
        stale = sorted(nm_ for nm_ in feeds if widths.get(nm_) in filtered)
        if stale:
            obs.bad('POLY', q, 'dof == n_vols - number of columns of the design matrix', f'dof = `{norm(s.value)}` counts `{stale[0]}`, the width '
                    f'of `{widths[stale[0]]}` BEFORE columns are dropped from it ({widths[stale[0]]}.dropna / drop): dropped columns are '
                    f'still subtracted', where(prog, f, s))
        else:
            obs.unk('POLY', q, 'dof == n_vols - number of columns of the design matrix', f'`{norm(s.value)}` not a polynomial in n_vols / shape')
    else:
        obs.check(got == ref, 'POLY', q, 'dof == n_vols - number of columns of the design matrix',
                  f'dof = `{norm(s.value)}` == {poly.show(got)}, expected n_vols - cols', '', where(prog, f, s))
    from ..flow import depends_on_param
    from ..rules.common import expr_sources
    dsrc = expr_sources(r, rets[0].value.elts[2])
    if 'confounds' in f.params:
        obs.check(depends_on_param(dsrc, 'confounds'), 'ND', q, 'dof depends on the confound columns (it counts the final matrix)',
                  f'no dependence path from `confounds` to dof = `{norm(s.value)}`: confound regressors are not counted', '',
                  where(prog, f, s))
    hs = [x for x in ast.walk(f.node) if isinstance(x, ast.Assign) and isinstance(x.targets[0], ast.Name) and x.targets[0].id == dm
          and isinstance(x.value, ast.Call) and _leaf(x.value.func) in ('hstack', 'concatenate', 'column_stack')]
    from ..rules.common import source_order
    _so = source_order(f.node)
    obs.check(all(_so.get(id(h), 0) < _so.get(id(s), 0) for h in hs), 'POLY', q, 'dof counts the columns of the final matrix (after confounds were '
              'appended)', 'dof is computed before the confound columns are appended', '', where(prog, f, s))
    # normalisation over axis 0
    norms = [x for x in ast.walk(f.node) if isinstance(x, ast.Assign) and isinstance(x.targets[0], ast.Name) and x.targets[0].id == dm
             and isinstance(x.value, ast.BinOp) and isinstance(x.value.op, ast.Div)]
    for x in norms:
        reds = [c for c in ast.walk(x.value) if isinstance(c, ast.Call) and _leaf(c.func) in ('mean', 'max', 'min', 'std', 'ptp')]
        for c in reds:
            ax = next((k.value for k in c.keywords if k.arg == 'axis'), c.args[0] if c.args and isinstance(c.func.value, ast.Name) and c.func.value.id == dm else None)
            obs.check(isinstance(ax, ast.Constant) and ax.value == 0, 'AXIS', q, f'column statistic {_leaf(c.func)} runs over the volumes (axis 0)',
                      f'`{norm(c)}`: statistics are not per column', '', where(prog, f, c))
    if not norms:
        obs.unk('AXIS', q, 'columns are centred and range-normalised', 'no normalising assignment found')
    # mask: ones for predictors, zeros for appended confounds, same order
    pm = [x for x in ast.walk(f.node) if isinstance(x, ast.Assign) and isinstance(x.targets[0], ast.Name) and x.targets[0].id == mask]
    init = [x for x in pm if isinstance(x.value, ast.Call) and _leaf(x.value.func) in ('ones', 'zeros', 'full')]
    for x in init:
        obs.check(_leaf(x.value.func) == 'ones', 'AXIS', q, 'predictor columns are flagged 1', f'`{norm(x)}`', '', where(prog, f, x))
    ext = [x for x in pm if isinstance(x.value, ast.Call) and _leaf(x.value.func) in ('hstack', 'concatenate')]
    for x in ext:
        lst = x.value.args[0] if x.value.args else None
        if not (isinstance(lst, (ast.List, ast.Tuple)) and len(lst.elts) == 2):
            obs.unk('AXIS', q, 'appended confound columns are flagged 0', f'`{norm(x)}` not recognised')
            continue
        a, b = lst.elts
        ok_order = isinstance(a, ast.Name) and a.id == mask
        ok_zero = isinstance(b, ast.Call) and _leaf(b.func) == 'zeros'
        obs.check(ok_order and ok_zero, 'AXIS', q, 'appended confound columns are flagged 0, after the predictor flags',
                  f'`{norm(x)}`: flags are not [predictor flags, zeros(#confounds)]', '', where(prog, f, x))
        # matrix extended in the same order with the same block
        for h in hs:
            hl = h.value.args[0] if h.value.args else None
            if isinstance(hl, (ast.List, ast.Tuple)) and len(hl.elts) == 2:
                okm = isinstance(hl.elts[0], ast.Name) and hl.elts[0].id == dm
                blk = hl.elts[1]
                same_blk = isinstance(blk, ast.Name) and any(isinstance(n, ast.Name) and n.id == blk.id for n in ast.walk(b))
                obs.check(okm and same_blk, 'AXIS', q, 'the matrix is extended by the confound block whose columns the flags count',
                          f'matrix `{norm(h)}` / flags `{norm(x)}`', '', where(prog, f, h))
    st = [x for x in ast.walk(f.node) if isinstance(x, ast.Assign) and isinstance(x.targets[0], ast.Subscript)
          and isinstance(x.targets[0].value, ast.Name) and x.targets[0].value.id == dm]
    ok = False
    for x in st:
        sl = x.targets[0].slice
        if isinstance(sl, ast.Tuple) and len(sl.elts) == 2 and isinstance(sl.elts[0], ast.Slice) and isinstance(sl.elts[1], ast.Name):
            loops = [l for l in ast.walk(f.node) if isinstance(l, ast.For) and any(y is x for y in ast.walk(l))
                     and isinstance(l.target, ast.Tuple) and isinstance(l.target.elts[0], ast.Name) and l.target.elts[0].id == sl.elts[1].id]
            ok = ok or bool(loops)
    obs.soft(ok, 'AXIS', q, 'the regressor of condition c fills column c', f'{[norm(x.targets[0]) for x in st]}', '', where(prog, f, f.node))
    acc_named(ctx, obs, q)
    t = ast.unparse(f.node).replace(' ', '')
    obs.soft('events[events.trial_type==condition].onset' in t, 'AXIS', q, 'onsets are those of the events of the condition', '', '',
             where(prog, f, f.node))


def skip_leak(ctx, obs, q, rule='SKIP-LEAK'):
    """A loop that SKIPS some items (`continue` behind a test) must not have changed, before the skip, any variable that survives the
    loop: the skipped item's value would otherwise be what the function returns / what later items are compared with.
    Flagged: a name that is live after the loop (returned or read after it), assigned unconditionally in the loop body BEFORE a
    guarded `continue`."""
    prog = ctx.prog
    f = prog.func(q)
    n = 0
    for lp in [x for x in ast.walk(f.node) if isinstance(x, ast.For)]:
        body = lp.body
        skip_pos = [i for i, st in enumerate(body) if isinstance(st, ast.If) and any(isinstance(x, ast.Continue) for x in ast.walk(st))]
        if not skip_pos:
            continue
        after = []
        seen = False
        for st in ast.walk(f.node):
            pass
        # names read after the loop (in statements following it in the enclosing block) or returned
        live = set()
        for blk in [x for x in ast.walk(f.node) if hasattr(x, 'body') and isinstance(getattr(x, 'body'), list)]:
            for fld in ('body', 'orelse'):
                seq = getattr(blk, fld, None)
                if isinstance(seq, list) and lp in seq:
                    for st in seq[seq.index(lp) + 1:]:
                        live |= {x.id for x in ast.walk(st) if isinstance(x, ast.Name) and isinstance(x.ctx, ast.Load)}
        for i, st in enumerate(body[:skip_pos[-1]]):
            if not isinstance(st, ast.Assign):
                continue
            tg = []
            for t in st.targets:
                tg += [x.id for x in ([t] if isinstance(t, ast.Name) else (t.elts if isinstance(t, (ast.Tuple, ast.List)) else [])) if isinstance(x, ast.Name)]
            for name in tg:
                if name in live:
                    n += 1
                    obs.bad(rule, q, f'`{name}` (used after the loop) is not changed by an item that is skipped',
                            f'`{norm(st)[:70]}` assigns `{name}` for every item, before `{norm(body[skip_pos[-1]].test)[:50]}` decides to skip the '
                            f'item: the value of a skipped item is what survives the loop', where(prog, f, st))
        if skip_pos:
            n += 1
    if n and not any(o.rule == rule and o.func == q and o.verdict == 'violated' for o in obs.items):
        obs.ok(rule, q, 'variables that survive a skipping loop are only changed by accepted items', '', where(prog, f, f.node))


def participants_paired(ctx, obs, rule='PAIR'):
    """multi-participant .mat files: row i of the stacked vectors belongs to participant name i.  The names come from the
    `stimuli_<name>` variables; the vectors have to be looked up BY those names (`'rdmutv_' + name`), or by iterating the very same
    list - two independent passes over `data.keys()` pair the rows with the names only when the file happens to store both kinds
    of variable in the same relative order."""
    prog = ctx.prog
    q = 'io.meadows.load_rdms_comps_mat'
    f = prog.func(q)
    defs = {}
    for st in ast.walk(f.node):
        if isinstance(st, ast.Assign) and len(st.targets) == 1 and isinstance(st.targets[0], ast.Name):
            defs.setdefault(st.targets[0].id, []).append(st.value)
    names_var = next((v for v, es in defs.items() for e in es if isinstance(e, ast.ListComp) and any(
        isinstance(x, ast.Call) and _leaf(x.func) == 'join' for x in ast.walk(e))), None)
    stacks = [c for c in ast.walk(f.node) if isinstance(c, ast.Call) and _leaf(c.func) in ('stack', 'vstack', 'array') and c.args
              and isinstance(c.args[0], (ast.ListComp, ast.GeneratorExp))]
    con = 'the vectors stacked for the participants are looked up by the participant names'
    if names_var is None or not stacks:
        obs.unk(rule, q, con, f'names list / stacking comprehension not recognised ({names_var}, {len(stacks)})', where(prog, f, f.node))
        return

    def derives(e, target, depth=0):
        if depth > 4:
            return False
        for x in ast.walk(e):
            if isinstance(x, ast.Name) and x.id == target:
                return True
            if isinstance(x, ast.Name) and x.id in defs and x.id != target:
                if any(derives(d, target, depth + 1) for d in defs[x.id]):
                    return True
        return False
    src_of_names = [x.id for e in defs[names_var] for g in getattr(e, 'generators', []) for x in ast.walk(g.iter) if isinstance(x, ast.Name)]
    for c in stacks:
        it = c.args[0].generators[0].iter
        ok = derives(it, names_var) or any(derives(it, s_) for s_ in src_of_names)
        obs.check(ok, rule, q, con, f'`{norm(c)[:80]}` iterates `{norm(it)[:40]}`, which is built independently of the participant names '
                  f'`{names_var}`: rows and names are paired by the order in which the file stores its variables', '', where(prog, f, c))


def sequence_guard(ctx, obs, q, rule='SEQ-GUARD'):
    """The vectors of several tasks are stacked into one RDMs object under ONE list of stimulus names: a task may only be stacked when
    its stimuli are the same SEQUENCE as the reference (the vector form is positional).  The guard that skips deviating tasks must
    therefore compare the lists themselves - a comparison of set(..) / sorted(..) / Counter(..) of them lets a task with the same
    stimuli in another order through, and its dissimilarities end up under the wrong pairs of names."""
    prog = ctx.prog
    f = prog.func(q)
    n = 0
    for lp in [x for x in ast.walk(f.node) if isinstance(x, ast.For)]:
        for st in ast.walk(lp):
            if not (isinstance(st, ast.If) and any(isinstance(x, ast.Continue) for b in st.body for x in ast.walk(b))):
                continue
            for c in [x for x in ast.walk(st.test) if isinstance(x, ast.Compare) and len(x.ops) == 1 and isinstance(x.ops[0], (ast.NotEq, ast.Eq))]:
                sides = [c.left, c.comparators[0]]
                if any(isinstance(s_, ast.Constant) for s_ in sides):
                    continue
                n += 1
                con = f'the guard `{norm(c)[:60]}` compares the name lists as sequences'
                unordered = [s_ for s_ in sides if isinstance(s_, ast.Call) and _leaf(s_.func) in ('set', 'frozenset', 'sorted', 'Counter', 'unique')]
                if unordered:
                    obs.bad(rule, q, con, f'`{norm(c)[:80]}` ignores the order of the names: a task that lists the same stimuli in another order '
                            f'is stacked with the others although its (positional) dissimilarity vector refers to other pairs',
                            where(prog, f, c))
                else:
                    obs.ok(rule, q, con, '', where(prog, f, c))
    if n == 0:
        obs.unk(rule, q, 'tasks whose stimuli deviate from the reference list are skipped', 'no skipping guard with a comparison found',
                where(prog, f, f.node))


def meadows(ctx, obs):
    prog = ctx.prog
    skip_leak(ctx, obs, 'io.meadows.load_rdms_comps_json')
    sequence_guard(ctx, obs, 'io.meadows.load_rdms_comps_json')
    participants_paired(ctx, obs)
    q = 'io.meadows.load_rdms'
    f = prog.func(q)
    g = [n for n in ast.walk(f.node) if isinstance(n, ast.If) and isinstance(n.test, ast.Name) and n.test.id == 'sort']
    ok = bool(g) and any(isinstance(c, ast.Call) and _leaf(c.func) == 'sort_by' and any(
        k.arg == 'conds' and isinstance(k.value, ast.Constant) and k.value.value == 'alpha' for k in c.keywords)
        for c in ast.walk(g[0]))
    obs.check(ok, 'MEADOWS', q, 'sort=True sorts the conditions alphabetically through RDMs.sort_by (values and labels together)',
              'no `if sort: rdms.sort_by(conds="alpha")`', '', where(prog, f, f.node))
    t = ast.unparse(f.node).replace(' ', '')
    obs.soft("rdm_descriptors['participant']=pnames" in t and "rdm_descriptors['task']=tnames" in t
              and "rdm_descriptors['task_index']=tidx" in t, 'MEADOWS', q, 'participant / task / task_index descriptors come from the '
              'loaded components', '', '', where(prog, f, f.node))
    obs.soft("pattern_descriptors=dict(conds=conds)" in t and "[f.split('.')[0]forfinstimuli]" in t, 'MEADOWS', q,
              'condition labels are the stimulus file names without extension', '', '', where(prog, f, f.node))
    # component tuples: every site that unpacks loader components uses the same order
    un = [norm(s.targets[0]) for s in ast.walk(f.node) if isinstance(s, ast.Assign) and isinstance(s.targets[0], ast.Tuple)
          and len(s.targets[0].elts) == 5 and isinstance(s.value, ast.Call)]
    con = 'mat and json components are unpacked in the same order'
    if not un:
        obs.unk('MEADOWS', q, con, 'no 5-tuple unpacking of loader components found', where(prog, f, f.node))
    else:
        obs.check(len(set(un)) == 1, 'MEADOWS', q, con, f'{un}', '', where(prog, f, f.node))
    for lq in ('io.meadows.load_rdms_comps_mat', 'io.meadows.load_rdms_comps_json'):
        lf = prog.func(lq)
        lr = ctx.dep.result(lq)
        for node, _, _ in lr.returns:
            if node is not None and isinstance(node.value, ast.Tuple):
                names = [norm(e) for e in node.value.elts]
                obs.soft(names == ['utvs', 'stimuli', 'pnames', 'tnames', 'tidx'], 'MEADOWS', lq,
                          'components are returned as (utvs, stimuli, pnames, tnames, tidx)', f'{names}', '', where(prog, lf, node))
        no_axisless_squeeze(ctx, obs, lq)
    # keys written by extract_filename_segments vs keys read
    qs = 'io.meadows.extract_filename_segments'
    fs = prog.func(qs)
    written, opaque = set(), False
    for n in ast.walk(fs.node):
        if isinstance(n, ast.Call) and _leaf(n.func) in ('dict', 'update', 'InfoDict'):
            written |= {k.arg for k in n.keywords if k.arg}
            opaque |= any(k.arg is None for k in n.keywords)
            for a_ in n.args:
                if isinstance(a_, ast.Dict):
                    written |= {k.value for k in a_.keys if isinstance(k, ast.Constant)}
                    opaque |= any(not isinstance(k, ast.Constant) for k in a_.keys)
                elif _leaf(n.func) == 'update':
                    opaque = True
        if isinstance(n, ast.Call) and _leaf(n.func) == 'setdefault' and n.args and isinstance(n.args[0], ast.Constant):
            written.add(n.args[0].value)
        if isinstance(n, ast.Dict):
            written |= {k.value for k in n.keys if isinstance(k, ast.Constant)}
            opaque |= any(not isinstance(k, ast.Constant) for k in n.keys)
        if isinstance(n, (ast.Assign, ast.AnnAssign)):
            for t_ in (n.targets if isinstance(n, ast.Assign) else [n.target]):
                if isinstance(t_, ast.Subscript):
                    if isinstance(t_.slice, ast.Constant):
                        written.add(t_.slice.value)
                    else:
                        opaque = True
    # names that hold the info dict: bound from extract_filename_segments(...), or parameters that receive such a name
    mod_funcs = {qq: ff for qq, ff in prog.functions.items() if ff.module == 'io.meadows'}
    holds = {qq: set() for qq in mod_funcs}
    changed = True
    while changed:
        changed = False
        for qq, ff in mod_funcs.items():
            for n in ast.walk(ff.node):
                if isinstance(n, ast.Assign) and isinstance(n.value, ast.Call) and _leaf(n.value.func) == 'extract_filename_segments' \
                        and isinstance(n.targets[0], ast.Name) and n.targets[0].id not in holds[qq]:
                    holds[qq].add(n.targets[0].id)
                    changed = True
                if isinstance(n, ast.Call):
                    callee = [c for c in mod_funcs if c.split('.')[-1] == _leaf(n.func)]
                    tables = [c for c in mod_funcs if any(isinstance(x, ast.Name) and x.id == c.split('.')[-1] for x in ast.walk(ff.node)
                                                          if not isinstance(getattr(x, 'ctx', None), ast.Store))] if not callee else []
                    for c in callee or tables:
                        pp = mod_funcs[c].pos_params
                        for i, a_ in enumerate(n.args):
                            if isinstance(a_, ast.Name) and a_.id in holds[qq] and i < len(pp) and pp[i] not in holds[c]:
                                if callee or len(n.args) == len(pp):
                                    holds[c].add(pp[i])
                                    changed = True
    read = set()
    for rq, ff in mod_funcs.items():
        if rq == qs:
            continue
        for n in ast.walk(ff.node):
            if isinstance(n, ast.Subscript) and isinstance(n.value, ast.Name) and n.value.id in holds[rq] \
                    and isinstance(n.slice, ast.Constant) and isinstance(n.ctx, ast.Load):
                read.add(n.slice.value)
    if len(read) < 4:
        raise AnalysisError('meadows: reads of the file-name info dict not found')
    for k in sorted(read):
        con = f'info[{k!r}] read by the loaders is produced by extract_filename_segments'
        if k in written:
            obs.ok('TAB', qs, con, '', where(prog, fs, fs.node))
        elif opaque:
            obs.unk('TAB', qs, con, 'not among the constant keys; the function also writes computed keys', where(prog, fs, fs.node))
        else:
            obs.bad('TAB', qs, con, f'{k!r} is read but never written', where(prog, fs, fs.node))
    # scope -> fields
    t = ast.unparse(fs.node).replace(' ', '')
    obs.soft("info['participant']=segments[-3]" in t and "info['task_index']=int(segments[-2])" in t
              and "info['participant']=segments[-2]" in t and "info['task_name']=segments[-2]" in t, 'MEADOWS', qs,
              'participant / task fields are read from the segment positions of each file-name shape', '', '', where(prog, fs, fs.node))
    qm = 'io.meadows.load_rdms_comps_mat'
    tm = ast.unparse(prog.func(qm).node).replace(' ', '')
    obs.soft("pnames=[info['participant']]" in tm and "tidx=[int(info['task_index'])]" in tm and "tnames=[info['task_name']]*len(pnames)" in tm,
              'MEADOWS', qm, 'single-participant files take participant and task index from the name, multi-participant files the task name',
              '', '', where(prog, prog.func(qm), prog.func(qm).node))
