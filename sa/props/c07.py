"""C07 - Upper noise ceiling is unbeatable; lower is leave-one-out and not above it (structural clauses)."""
from __future__ import annotations
import ast

from ..model import AnalysisError
from ..flow import depends_on_param
from ..rules.common import where, norm, Inliner, calls_to, bound_args, mentions
from ..rules import nant
from .c03 import _keys

EXPLANATION = (
    'Static necessary-condition analysis of inference/noise_ceiling.py and the two pool_rdm implementations: (NI) the '
    'lower-bound prediction is pooled from the ceiling/training set only - it never reads the held-out RDMs (only their '
    'pattern ids in cross-validation); (ND) the upper-bound prediction pools all RDMs, both bounds are compared with the '
    'held-out RDMs, and one `method` reaches pool_rdm and compare; (NANT) inside pool_rdm NaN-bearing vectors reach only '
    'NaN-aware reducers or are masked by a mask computed from the same array; (TAB) both pool_rdm copies handle the same '
    'method strings and every compare() method that the ceilings support. With C05 (ceil_set = training RDMs, complement '
    'of the test group) this gives "the prediction for a group is computed without that group". Optimality of the pooled '
    'RDM, lower <= upper and scale invariance are NOT decided.'
    ' Also: (FOLD-MEAN) the similarities of a left-out group are averaged within the group before they are accumulated.')
ASSUMPTIONS = ['sets_leave_one_out_rdm returns (train_set, test_set, ceil_set) - checked structurally under C05',
               'numpy nan* reducers ignore NaN; plain reducers propagate it']
FLOOR = 30
RULE_FLOORS = {'NI': 4, 'NANT': 6, 'TAB': 10}

NC = 'inference.noise_ceiling.'
POOLS = ['util.inference_util.pool_rdm', 'util.pooling.pool_rdm']


def run(ctx, obs):
    from .c05 import loo_boundary
    loo_boundary(ctx, obs, 'inference.crossvalsets.sets_leave_one_out_rdm')
    from ..rules import sweeps
    sweeps.run(ctx, obs, 'C07')
    from ..rules import order as _ord
    _ord.report(ctx, obs, ['inference.crossvalsets.sets_leave_one_out_rdm', 'inference.noise_ceiling.', 'util.pooling.'])
    boot(ctx, obs)
    cv(ctx, obs)
    for _q in (NC + 'boot_noise_ceiling', NC + 'cv_noise_ceiling'):
        fold_means(ctx, obs, _q)
    for q in POOLS:
        nant.check_function(ctx, obs, q, taint_sources=('get_vectors',))
        mod = q.rsplit('.', 1)[0]
        for h in ('_nan_mean', '_nan_rank_data'):
            nant.check_function(ctx, obs, mod + '.' + h, taint_params=('rdm_vector',))
        from ..rules.ranks import tie_averaged
        tie_averaged(ctx, obs, mod + '._nan_rank_data')
    tables(ctx, obs)
    # per-RDM normalisation before pooling
    from ..rules.peritem import per_item_statistics
    n = 0
    for q in POOLS:
        n += per_item_statistics(ctx, obs, q, {}, 'R', 'P', method_roles={'get_vectors': ('R', 'P')})
    from ..rules.axis import AxisEval
    for q in POOLS:
        AxisEval(ctx, q, {}, method_roles={'get_vectors': ('R', 'P')}).check_function(obs, 'AXIS', None)
    from ..rules.sibnorm import compare_siblings
    compare_siblings(ctx, obs, POOLS[0], POOLS[1], 'method', ('cosine', 'corr', 'cosine_cov', 'corr_cov', 'euclid'),
                     {'rdms': 'rdms'}, what='RDM vectors')
    if n < 8:
        obs.unk('NORM', POOLS[0], 'per-RDM normalisation statistics in pool_rdm', f'only {n} normalising reductions recognised')


def _pool_and_compare(ctx, q):
    r = ctx.dep.result(q)
    pools = [c for c in r.calls if any(x in POOLS for x in c.callees)]
    cmps = [c for c in r.calls if any(x.endswith('rdm.compare.compare') for x in c.callees)]
    if not pools or not cmps:
        return r, None, None
    return r, pools, cmps


def fold_means(ctx, obs, q, rule='FOLD-MEAN'):
    """both bounds are averages over the left-out GROUPS: the similarities of the RDMs of one group are reduced to that group's mean
    before they are accumulated, and the means are averaged.  Collecting the single similarities of all groups and averaging once
    weights every group by its size - a different number as soon as the groups are not equally large."""
    prog = ctx.prog
    f = prog.func(q)
    r, pools, cmps = _pool_and_compare(ctx, q)
    if cmps is None:
        return
    parents = {}
    for p in ast.walk(f.node):
        for ch in ast.iter_child_nodes(p):
            parents[id(ch)] = p
    reducers = ('mean', 'nanmean', 'average', 'median', 'nanmedian')
    for c in cmps:
        if not c.in_loops:
            continue
        con = f'the similarities of a left-out group (`{norm(c.node)[:50]}`) are averaged within the group before they are accumulated'
        # climb from the compare call to its statement; note reductions and accumulating calls on the way
        n, reduced, acc = c.node, False, None
        while id(n) in parents and not isinstance(n, ast.stmt):
            p = parents[id(n)]
            if isinstance(p, ast.Call):
                leaf = p.func.attr if isinstance(p.func, ast.Attribute) else (p.func.id if isinstance(p.func, ast.Name) else '')
                if leaf in reducers and (n in p.args[:1] or (isinstance(p.func, ast.Attribute) and n is p.func.value)
                                         or (isinstance(p.func, ast.Attribute) and any(n is x for x in ast.walk(p.func.value)))):
                    reduced = True
                elif leaf in ('append', 'extend', 'insert') and not reduced:
                    acc = leaf
                elif leaf in ('append', 'extend', 'insert'):
                    acc = acc or ('reduced-' + leaf)
            n = p
        st = n
        if reduced and acc in (None, 'reduced-append') or (reduced and acc is None):
            obs.ok(rule, q, con, f'`{norm(st)[:80]}`', where(prog, f, st))
        elif acc in ('append', 'extend', 'insert'):
            obs.bad(rule, q, con, f'`{norm(st)[:90]}` accumulates the single similarities of the group: the final mean weights each group by its '
                    f'number of RDMs instead of averaging the group means', where(prog, f, st))
        elif isinstance(st, ast.AugAssign) and not reduced:
            obs.bad(rule, q, con, f'`{norm(st)[:90]}` accumulates the unreduced similarities of the group', where(prog, f, st))
        elif reduced:
            obs.ok(rule, q, con, f'`{norm(st)[:80]}`', where(prog, f, st))
        else:
            obs.unk(rule, q, con, f'`{norm(st)[:80]}`: the per-group reduction was not recognised in this statement', where(prog, f, st))


def _moved_out(ctx, obs, q):
    """the pooling / comparing statements are not in q (nor in helpers the pre-pass could inline): every clause about them is
    undecided - as many obligations as the rule would have stated, so that instance floors keep their meaning"""
    f = ctx.prog.func(q)
    for rule, con in (('NI', 'lower bound pools the ceiling (training) set of the fold, not the held-out RDMs'),
                      ('NI', 'lower bound pools the RDMs entry ([0]) of the fold tuple'),
                      ('ND', 'upper bound pools all RDMs'), ('ND', 'compare scores against the held-out RDMs'),
                      ('ND', 'compare scores a pooled prediction'), ('FWD', 'pool_rdm receives method'),
                      ('FWD', 'compare receives method'), ('PAIR', 'ceiling set and test set are read at the same fold index'),
                      ('ND', 'returns (lower, upper)')):
        obs.unk(rule, q, con, 'pool_rdm / compare are not called in this function: the computation was moved out of reach of the '
                'inlining pre-pass', where(ctx.prog, f, f.node))


def boot(ctx, obs):
    prog = ctx.prog
    q = NC + 'boot_noise_ceiling'
    f = prog.func(q)
    r, pools, cmps = _pool_and_compare(ctx, q)
    if pools is None:
        _moved_out(ctx, obs, q)
        return
    inl = Inliner(r, None, (), stop=('rdms',))
    lower = [c for c in pools if c.in_loops]
    upper = [c for c in pools if not c.in_loops]
    if not lower or not upper:
        obs.unk('NI', q, 'lower / upper pooling calls', f'in-loop={len(lower)} outside={len(upper)}')
    for c in lower:
        e = inl.inline(c.node.args[0])
        comp = _set_component(e, 'sets_leave_one_out_rdm')
        obs.check(comp in (0, 2), 'NI', q, 'lower bound pools the ceiling (training) set of the fold, not the held-out RDMs',
                  f'`{norm(c.node)}` pools component {comp} of sets_leave_one_out_rdm (0 = train, 1 = test, 2 = ceil): '
                  f'the prediction for a group must be computed without that group', '', where(prog, f, c.node))
        obs.check(_elem_index(e) == 0, 'NI', q, 'lower bound pools the RDMs entry ([0]) of the fold tuple',
                  f'`{norm(c.node)}` does not take element [0] of the fold tuple', '', where(prog, f, c.node))
    for c in upper:
        e = inl.inline(c.node.args[0])
        obs.check(isinstance(e, ast.Name) and e.id == 'rdms', 'ND', q, 'upper bound pools all RDMs',
                  f'`{norm(c.node)}` does not pool the full `rdms`', '', where(prog, f, c.node))
    for c in pools + cmps:
        callee = c.callees[0]
        b = bound_args(prog, callee, c)
        obs.check('method' in b and depends_on_param(b['method'][1], 'method'), 'FWD', q,
                  f'{callee.split(".")[-1]} #{c.ordinal} receives method', f'`{norm(c.node)[:80]}` does not pass `method`', '',
                  where(prog, f, c.node))
    for c in cmps:
        e = inl.inline(c.node.args[1])
        comp = _set_component(e, 'sets_leave_one_out_rdm')
        obs.check(comp == 1 and _elem_index(e) == 0, 'ND', q, f'compare #{c.ordinal} scores against the held-out RDMs',
                  f'second operand of `{norm(c.node)[:80]}` is not test_set[i][0]', '', where(prog, f, c.node))
        p = inl.inline(c.node.args[0])
        is_pool = isinstance(p, ast.Call) and any(isinstance(n, ast.Name) and n.id == 'pool_rdm' for n in ast.walk(p.func))
        obs.check(is_pool, 'ND', q, f'compare #{c.ordinal} scores a pooled prediction', 'first operand is not a pool_rdm result',
                  '', where(prog, f, c.node))
    # same fold index for train and test
    idx = set()
    for c in lower + cmps:
        for a in c.node.args[:2]:
            e = inl.inline(a)
            for n in ast.walk(e):
                if isinstance(n, ast.Subscript) and isinstance(n.value, ast.Subscript) \
                        and isinstance(n.value.value, ast.Call) and not isinstance(n.slice, ast.Constant):
                    idx.add(ast.dump(n.slice))
    obs.check(len(idx) <= 1, 'PAIR', q, 'ceiling set and test set are read at the same fold index',
              f'{len(idx)} different fold index expressions', '', where(prog, f, f.node))
    _both_bounds(ctx, obs, q, r)


def _set_component(e, leaf):
    """... Subscript(Subscript(Call(leaf), K), i) ... -> K"""
    for n in ast.walk(e):
        if isinstance(n, ast.Subscript) and isinstance(n.value, ast.Call) and isinstance(n.slice, ast.Constant):
            fn = n.value.func
            nm = fn.attr if isinstance(fn, ast.Attribute) else (fn.id if isinstance(fn, ast.Name) else '')
            if nm == leaf:
                return n.slice.value
    return None


def _root(e):
    while True:
        if isinstance(e, ast.Subscript):
            e = e.value
        elif isinstance(e, ast.Call) and isinstance(e.func, ast.Name) and e.func.id == 'ELEM' and e.args:
            e = e.args[0]
        else:
            break
    return e.id if isinstance(e, ast.Name) else None


def _elem_index(e):
    if isinstance(e, ast.Subscript) and isinstance(e.slice, ast.Constant):
        return e.slice.value
    return None


def _both_bounds(ctx, obs, q, r):
    prog = ctx.prog
    f = prog.func(q)
    for node, _, _ in r.returns:
        if node is None or node.value is None:
            continue
        ok = isinstance(node.value, ast.Tuple) and len(node.value.elts) == 2
        obs.check(ok, 'ND', q, 'returns (lower, upper)', 'return value is not a pair', '', where(prog, f, node))
        if ok:
            inl = Inliner(r, None, ())
            lo, hi = (inl.inline(x) for x in node.value.elts)
            # lower derives from compare(pred_train ..), upper from compare(pred_test ..): tell by the accumulators
            lo_names = {n.id for n in ast.walk(node.value.elts[0]) if isinstance(n, ast.Name)}
            hi_names = {n.id for n in ast.walk(node.value.elts[1]) if isinstance(n, ast.Name)}
            obs.check(lo_names != hi_names, 'ND', q, 'lower and upper bound are different accumulators',
                      'both returned bounds are the same variable', '', where(prog, f, node))


def cv(ctx, obs):
    prog = ctx.prog
    q = NC + 'cv_noise_ceiling'
    f = prog.func(q)
    r, pools, cmps = _pool_and_compare(ctx, q)
    if pools is None:
        _moved_out(ctx, obs, q)
        return
    rd = ctx.dep.analyze(q, data_only=True)
    pools_d = [c for c in rd.calls if any(x in POOLS for x in c.callees)]
    inl = Inliner(r, None, ('rdms', 'ceil_set', 'test_set'))
    def _restriction(e):
        """e = X.subsample_pattern(by=.., value=V) / X.subset_pattern(..) -> (X, V) else None"""
        if isinstance(e, ast.Call) and isinstance(e.func, ast.Attribute) and e.func.attr in ('subsample_pattern', 'subset_pattern'):
            kw = {k.arg: k.value for k in e.keywords}
            val = kw.get('value', e.args[1] if len(e.args) > 1 else None)
            return e.func.value, val
        return None

    # which pooled predictions are restricted AFTER pooling: X = pool_rdm(..); X.subsample_pattern(..)
    restricted_after = set()
    for c in r.calls:
        if c.attr in ('subsample_pattern', 'subset_pattern') and isinstance(c.node.func, ast.Attribute):
            recv = inl.inline(c.node.func.value)
            if isinstance(recv, ast.Call) and any(isinstance(n, ast.Name) and n.id == 'pool_rdm' for n in ast.walk(recv.func)):
                restricted_after.add(ast.dump(recv))
    for c, cd in zip(pools, pools_d):
        e = inl.inline(c.node.args[0])
        a0 = cd.arg(0) or frozenset()
        rs = _restriction(e)
        base = rs[0] if rs else e
        if _root(base) == 'SRC0':
            con = 'the upper bound is the pooled RDM of all data RDMs AT THE TEST CONDITIONS (restricted, then pooled)'
            pooled = inl.inline(c.node)
            if rs is not None and isinstance(base, ast.Name):
                v = inl.inline(rs[1]) if rs[1] is not None else None
                obs.check(v is not None and _root(v) == 'SRC2' and _elem_index(v) == 1, 'NORM-TEST', q, con,
                          f'`{norm(c.node)[:70]}` pools data restricted by `{ast.unparse(v)[:40] if v is not None else None}`, not by the '
                          f'test conditions', '', where(prog, f, c.node))
            elif isinstance(e, ast.Name) and ast.dump(pooled) in restricted_after:
                obs.bad('NORM-TEST', q, con, f'`{norm(c.node)[:60]}` pools the complete RDMs and the result is restricted to the test '
                        f'conditions afterwards: the per-RDM normalisation of the pooling (rms / mean and std / ranks) is then taken over '
                        f'conditions outside the test fold, the pooled RDM is not the optimum at the test conditions and the lower bound '
                        f'can exceed it', where(prog, f, c.node))
            elif isinstance(e, ast.Name):
                obs.unk('NORM-TEST', q, con, f'`{norm(c.node)[:60]}` pools the complete RDMs; no restriction to the test conditions found',
                        where(prog, f, c.node))
            else:
                obs.unk('NORM-TEST', q, con, f'`{norm(c.node)[:60]}`', where(prog, f, c.node))
        else:
            obs.check(depends_on_param(a0, 'ceil_set') and not depends_on_param(a0, 'test_set')
                      and not depends_on_param(a0, 'rdms'), 'NI', q,
                      'lower bound pools the ceiling set only (no explicit flow from test_set / rdms)',
                      f'`{norm(c.node)}` reads {sorted(x for x in a0 if x.startswith("P:"))}', '', where(prog, f, c.node))
            obs.check(_elem_index(base) == 0, 'NI', q, 'lower bound pools the RDMs entry ([0]) of the ceiling tuple',
                      f'`{norm(c.node)}`', '', where(prog, f, c.node))
    roots = [_root((_restriction(inl.inline(c.node.args[0])) or (inl.inline(c.node.args[0]),))[0]) for c in pools]
    obs.check('SRC0' in roots, 'ND', q, 'one prediction (the upper bound) pools all RDMs',
              'no pool_rdm call pools the full `rdms`: the upper noise ceiling is not computed from all data', '',
              where(prog, f, f.node))
    obs.check('SRC1' in roots, 'ND', q, 'one prediction (the lower bound) pools the ceiling set',
              'no pool_rdm call pools ceil_set', '', where(prog, f, f.node))
    # predictions restricted to the test pattern ids: test[1], never test[0]
    for c in r.calls:
        if c.attr == 'subsample_pattern':
            args = list(c.node.args) + [k.value for k in c.node.keywords]
            kw = {k.arg: k.value for k in c.node.keywords}
            val = kw.get('value', args[1] if len(args) > 1 else None)
            e = inl.inline(val) if val is not None else None
            ok = e is not None and _root(e) == 'SRC2' and _elem_index(e) == 1
            obs.check(ok, 'NI', q, f'prediction #{c.ordinal} is restricted by the test pattern ids (test[1])',
                      f'`{norm(c.node)[:80]}` selects by `{ast.unparse(e) if e is not None else "?"}`', '',
                      where(prog, f, c.node))
            by = kw.get('by', args[0] if args else None)
            obs.check(by is not None and isinstance(by, ast.Name) and by.id == 'pattern_descriptor', 'FWD', q,
                      f'prediction #{c.ordinal} is restricted by the given pattern descriptor', 'other descriptor used', '',
                      where(prog, f, c.node))
    for c in cmps:
        e = inl.inline(c.node.args[1])
        obs.check(_root(e) == 'SRC2' and _elem_index(e) == 0, 'ND', q,
                  f'compare #{c.ordinal} scores against the held-out RDMs (test[0])',
                  f'second operand of `{norm(c.node)[:80]}` is `{ast.unparse(e)[:60]}`', '', where(prog, f, c.node))
    for c in pools + cmps:
        b = bound_args(prog, c.callees[0], c)
        obs.check('method' in b and depends_on_param(b['method'][1], 'method'), 'FWD', q,
                  f'{c.callees[0].split(".")[-1]} #{c.ordinal} receives method', 'method not passed', '', where(prog, f, c.node))
    _both_bounds(ctx, obs, q, r)


def tables(ctx, obs, rule='TAB'):
    prog = ctx.prog
    sets = {}
    for q in POOLS + ['rdm.compare.compare']:
        f = prog.func(q)
        from ..rules.common import string_dispatch
        form, arms = string_dispatch(f, 'method', prog.module_of(f).tree)
        keys = {k: v[0] for k, v in arms.items()}
        sets[q] = keys
        forms = locals().setdefault('_forms', {})
        forms[q] = form
        # the dispatch chain on `method` ends in a raise.  A chain = an `if` on method that is not itself the else-branch of another
        # one; only chains with three or more arms are dispatches (a single `if method in (...)` after the chain is a shared
        # post-processing step and needs no else)
        keyed = [s_ for s_ in ast.walk(f.node) if isinstance(s_, ast.If) and _keys(s_.test, 'method')]
        in_else = {id(s_.orelse[0]) for s_ in keyed if len(s_.orelse) == 1 and isinstance(s_.orelse[0], ast.If)}
        for head in [s_ for s_ in keyed if id(s_) not in in_else]:
            arms_n, cur = 1, head
            while len(cur.orelse) == 1 and isinstance(cur.orelse[0], ast.If) and _keys(cur.orelse[0].test, 'method'):
                cur = cur.orelse[0]
                arms_n += 1
            if arms_n < 3:
                continue
            obs.check(bool(cur.orelse) and any(isinstance(x, ast.Raise) for x in ast.walk(ast.Module(body=cur.orelse, type_ignores=[]))),
                      'EXH', q, 'unknown method is rejected (chain ends in raise)', 'no raising else-arm', '', where(prog, f, cur))
    a, b = POOLS
    # the ceiling-relevant methods named in the property must be poolable by both copies
    need = ['cosine', 'corr', 'rho-a', 'cosine_cov', 'corr_cov', 'spearman', 'kendall', 'tau-b', 'tau-a']
    for q in POOLS:
        f = prog.func(q)
        if not sets[q]:
            obs.unk(rule, q, 'pooling rules per method', 'dispatch on `method` not recognised', where(prog, f, f.node))
            continue
        for k in need:
            obs.check(k in sets[q], rule, q, f'pooling rule for method {k!r}', f'{q} has no arm for {k!r}: the noise ceiling '
                      f'for this measure raises / is undefined', '', where(prog, f, f.node))
        for k in sets[q]:
            if not sets['rdm.compare.compare']:
                break          # compare()'s dispatch is not recognisable: nothing to cross-check against
            obs.check(k in sets['rdm.compare.compare'] or k == 'euclid', rule, q, f'pooled method {k!r} is a compare() method',
                      f'{k!r} is pooled but compare() has no such method', '', where(prog, f, sets[q][k]))
    for k in sorted(set(sets[a]) ^ set(sets[b])):
        if k == 'neg_riem_dist':
            obs.exceptions.append('TAB pool_rdm: neg_riem_dist only in util.inference_util.pool_rdm (the fitters, which use '
                                  'util.pooling, do not support it)')
            continue
        q = a if k not in sets[a] else b
        obs.bad(rule, q, f'both pool_rdm copies handle method {k!r}', f'{q} lacks {k!r} handled by its sibling',
                where(prog, prog.func(q), prog.func(q).node))
    # duplicate arms (unreachable): informational
    for q in POOLS:
        f = prog.func(q)
        seen = {}
        for s in ast.walk(f.node):
            if isinstance(s, ast.If):
                for k in _keys(s.test, 'method'):
                    if k in seen and seen[k] is not s:
                        obs.note(rule, q, f'duplicate arm for {k!r}', 'second arm is unreachable (informational)', where(prog, f, s))
                    seen.setdefault(k, s)
