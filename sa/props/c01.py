"""C01 - RDM estimators equal their formula on condition means, correctly labelled.

Decided (structural necessary conditions only, see DESIGN.md section 4-C01):
  FWD-list  options survive list input (calc_rdm, calc_rdm_movie)
  PAR       the three `noise` arms of every list dispatcher call the same callee with the same other arguments
  EXH       every method named in the property has an arm in calc_rdm that produces the result; unknown -> raise
  PAIR      values and labels handed to _build_rdms come from the same averaging call / the same dataset
  MOVIE     per-time-point accumulation and time labels taken from the object that was split
  SCALE     the value handed to _build_rdms carries 1/n_channel exactly once (0 times for correlation)
"""
from __future__ import annotations
import ast

from ..flow import params_of, depends_on_param
from ..rules.common import fwd_list, par_chain, acc_named, calls_to, bound_args, where, norm
from ..rules import scale as scale_rule

EXPLANATION = (
    'Static necessary-condition analysis of rdm/calc.py, util/build_rdm.py: decides option forwarding through the '
    'list dispatchers (dependence summaries per arm), agreement of the parallel noise arms, exhaustiveness of the '
    'method dispatch, pairing of values and labels at _build_rdms, accumulation in calc_rdm_movie and the 1/n_channel '
    'scale factor. It does NOT decide that the floating-point values equal the formulas, nor order/dtype invariance: '
    'a tree can pass this check and still compute a wrong number.'
    ' Also: (PLACE) every value from_partials writes into the merged vectors passes through the label->position map; (MEAN-FIRST) no non-linear map is applied before the per-condition averaging; sweeps over the scope for loop-carried state (LOOP-CARRY), 0/1 membership products that spread NaN (MASK-WEIGHT), half-filled look-up matrices (HALF-FILLED), tolerance comparisons used as selections (TOL), lost stores and condensed-index order.'
    ' Round 6: (FLOAT-IN) the patterns handed to the estimators are floating point on every path of _parse_input; PLACE also rejects membership-mask placement.')
ASSUMPTIONS = [
    'dependence is over-approximated: only "no dependence path" verdicts are used to raise violations',
    'external (numpy) calls: result depends on all arguments',
    'measurement matrices have axes (condition, channel) as documented in average_dataset_by / DatasetBase',
]
FLOOR = 30
RULE_FLOORS = {'FWD-list': 10, 'PAR': 10, 'PAIR': 6}

CALC = 'rdm.calc.'
ESTIMATORS = {
    'euclidean': CALC + 'calc_rdm_euclidean',
    'correlation': CALC + 'calc_rdm_correlation',
    'mahalanobis': CALC + 'calc_rdm_mahalanobis',
    'poisson': CALC + 'calc_rdm_poisson',
}


def run(ctx, obs):
    from ..rules import order as _order
    _order.contracts(ctx, obs, ['util.data_utils.get_unique_inverse', 'data.computations.average_dataset_by'])
    _order.report(ctx, obs, ['rdm.calc.', 'data.computations.', 'util.data_utils.'])
    from ..rules import sweeps
    sweeps.run(ctx, obs, 'C01')
    prog, dep = ctx.prog, ctx.dep
    # 1. FWD-list
    fwd_list(ctx, obs, CALC + 'calc_rdm', split_params={'noise'})
    fwd_list(ctx, obs, CALC + 'calc_rdm_movie', split_params={'noise'})
    # 2. PAR
    for q in (CALC + 'calc_rdm', CALC + 'calc_rdm_movie', 'rdm.calc_unbalanced.calc_rdm_unbalanced'):
        n = par_chain(ctx, obs, q, 'noise')
        if n == 0:
            obs.unk('PAR', q, 'noise chain', 'no if/elif chain on `noise` with one repo call per arm recognised')
    # 3. EXH
    method_dispatch(ctx, obs, CALC + 'calc_rdm', ESTIMATORS)
    # 5. PAIR
    for m, q in ESTIMATORS.items():
        pairing(ctx, obs, q)
    # 6. MOVIE
    movie(ctx, obs)
    # 4. SCALE
    scale_rule.check_estimators(ctx, obs)
    # 7. AXIS roles in the estimator kernels: (conditions C) x (channels F) in, (C, C) into the triangle extraction
    kernel_axes(ctx, obs)
    from ..rules.common import mean_first
    for m, q in ESTIMATORS.items():
        if mean_first(ctx, obs, q) == 0:
            obs.unk('MEAN-FIRST', q, 'condition means are computed by _parse_input / average_dataset_by', 'no averaging call found')
    float_input(ctx, obs)
    # 8. PLACE: list-of-datasets branch with a condition descriptor: from_partials places every input through its position map
    partial_placement(ctx, obs)


def _enclosing_tests(root, stmt):
    out = []

    def rec(n, acc):
        if n is stmt:
            out.extend(acc)
            return True
        for ch in ast.iter_child_nodes(n):
            if rec(ch, acc + ([n.test] if isinstance(n, ast.If) else [])):
                return True
        return False
    rec(root, [])
    return out


def float_input(ctx, obs, rule='FLOAT-IN'):
    """The estimators square, multiply and subtract the pattern matrix that `_parse_input` hands them.  In an integer dtype these
    operations wrap around silently (uint8 / int16 recordings are common), so "integer or float data change nothing" needs the
    matrix to be floating point on EVERY path: the per-condition averages are (np.mean), the dataset's own array is only if it is
    converted (astype / asarray with a float dtype).  A path that hands `dataset.measurements` on as it is - no descriptor, or a
    shortcut "nothing to average" - is a violation."""
    prog = ctx.prog
    q = CALC + '_parse_input'
    f = prog.func(q)
    r = ctx.dep.result(q)
    rets = [n for n, _, _ in r.returns if n is not None and n.value is not None]
    for node in rets:
        v = node.value.elts[0] if isinstance(node.value, ast.Tuple) and node.value.elts else node.value
        if not isinstance(v, ast.Name):
            obs.unk(rule, q, 'the patterns handed to the estimators are floating point', f'`{norm(v)[:40]}` is not a plain name', where(prog, f, node))
            continue
        seen = set()

        def kinds(name_node, depth=0):
            out = []
            for i in r.load_defs.get(id(name_node), ()):
                if i in seen:
                    continue
                seen.add(i)
                d = r.defs[i]
                rhs = d.rhs if d.rhs is not None else (d.node.value if isinstance(d.node, ast.Assign) else None)
                if rhs is None:
                    out.append(('unknown', d.node))
                elif isinstance(rhs, ast.Call) and norm(rhs.func).split('.')[-1] in ('average_dataset_by', 'mean', 'nanmean', 'average'):
                    out.append(('float', d.node))
                elif isinstance(rhs, ast.Call) and norm(rhs.func).split('.')[-1] in ('astype', 'asarray', 'array', 'asfarray', 'float64') \
                        and ('float' in norm(rhs) or norm(rhs.func).split('.')[-1] in ('asfarray', 'float64')):
                    out.append(('float', d.node))
                elif isinstance(rhs, ast.Attribute) and rhs.attr == 'measurements':
                    out.append(('raw', d.node))
                elif isinstance(rhs, ast.BinOp) and depth < 4:
                    sub = [k for x in ast.walk(rhs) if isinstance(x, ast.Name) and id(x) in r.load_defs for k in kinds(x, depth + 1)]
                    float_op = any(isinstance(x, ast.Call) and norm(x.func).split('.')[-1] in ('mean', 'nanmean') for x in ast.walk(rhs))
                    # an operand that is a mean (float) or a true division makes the result float whatever the other operand is
                    out += [('float', d.node)] if (float_op or isinstance(rhs.op, ast.Div)) else (sub or [('unknown', d.node)])
                elif isinstance(rhs, ast.Name) and depth < 4:
                    out += kinds(rhs, depth + 1)
                else:
                    out.append(('unknown', d.node))
            return out
        ks = kinds(v)
        con = 'the patterns handed to the estimators are floating point on every path'
        raw = [n_ for k, n_ in ks if k == 'raw']
        # `x = ds.measurements; if not np.issubdtype(x.dtype, np.floating): x = x.astype(float)`: the raw definition only survives
        # on the path where the dtype test found floating-point data
        guarded = [n_ for k, n_ in ks if k == 'float' and isinstance(n_, ast.Assign) and any(
            'floating' in norm(g) or 'dtype.kind' in norm(g) for g in _enclosing_tests(f.node, n_))]
        if raw and guarded:
            covered = set()
            for g_ in guarded:
                for x in ast.walk(g_.value):
                    if isinstance(x, ast.Name):
                        for i in r.load_defs.get(id(x), ()):
                            covered.add(id(r.defs[i].node))
            raw = [n_ for n_ in raw if id(n_) not in covered]
        if raw:
            obs.bad(rule, q, con, f'`{norm(raw[0])[:70]}` hands the dataset\'s own array on without a conversion: for integer-typed data '
                    f'(uint8, int16) the squares and products of the estimators wrap around and the distances are wrong', where(prog, f, raw[0]))
        elif any(k == 'unknown' for k, _ in ks):
            obs.unk(rule, q, con, 'the origin of one definition is not recognised', where(prog, f, node))
        else:
            obs.ok(rule, q, con, '', where(prog, f, node))


def partial_placement(ctx, obs, rule='PLACE'):
    """rdm.combine.from_partials lines the RDMs of datasets with different / differently ordered conditions up on the common
    pattern list: the positions come from `all_patterns.index(label)`.  Every value written into the merged vectors has to pass
    through that position map - a store that does not (data flow only, with the map held fixed) puts the dissimilarities of an
    input under whatever labels happen to be at its own positions."""
    prog = ctx.prog
    q = 'rdm.combine.from_partials'
    f = prog.func(q)
    pos = None
    for st in ast.walk(f.node):
        if isinstance(st, ast.Assign) and len(st.targets) == 1 and isinstance(st.targets[0], ast.Name) \
                and any(isinstance(c, ast.Call) and isinstance(c.func, ast.Attribute) and c.func.attr == 'index' for c in ast.walk(st.value)):
            pos = st.targets[0].id
    ctor = [c for c in ast.walk(f.node) if isinstance(c, ast.Call) and norm(c.func).split('.')[-1] == 'RDMs']
    buf = None
    for c in ctor:
        v = next((k.value for k in c.keywords if k.arg == 'dissimilarities'), c.args[0] if c.args else None)
        if isinstance(v, ast.Name):
            buf = v.id
    con = 'every input RDM is written into the merged vectors through its position map (label -> position in the common list)'
    # positions taken from a MEMBERSHIP MASK of the common list (np.isin(all, own)) follow the order of the common list; the block
    # written with them (the partial RDM in its OWN order) does not: right only when the partial lists its patterns in the common order
    masks = {st.targets[0].id: st for st in ast.walk(f.node) if isinstance(st, ast.Assign) and len(st.targets) == 1
             and isinstance(st.targets[0], ast.Name) and isinstance(st.value, ast.Call) and norm(st.value.func).split('.')[-1] in ('isin', 'in1d')}
    for st in ast.walk(f.node):
        if isinstance(st, ast.Assign) and isinstance(st.targets[0], ast.Subscript) and isinstance(st.targets[0].slice, ast.Call) \
                and norm(st.targets[0].slice.func).split('.')[-1] == 'ix_' \
                and any(isinstance(a, ast.Name) and a.id in masks for a in st.targets[0].slice.args):
            m = next(a.id for a in st.targets[0].slice.args if isinstance(a, ast.Name) and a.id in masks)
            obs.bad(rule, q, con, f'`{norm(st)[:80]}` places the partial RDM with the membership mask `{norm(masks[m])[:60]}`: the mask selects '
                    f'rows / columns in the order of the common list, the block keeps the partial\'s own order - values land under other '
                    f'labels whenever the two orders differ', where(prog, f, st))
            return
    if pos is None or buf is None:
        obs.unk(rule, q, con, f'position map / result buffer not recognised (map: {pos}, buffer: {buf})', where(prog, f, f.node))
        return
    r2 = ctx.dep.analyze(q, data_only=True, cut={pos})
    stores = [(node, v) for node, root, v, _ in r2.stores if root == buf]
    if not stores:
        obs.unk(rule, q, con, f'no store into `{buf}` found', where(prog, f, f.node))
        return
    for node, v in stores:
        tgt = node.targets[0] if isinstance(node, ast.Assign) else getattr(node, 'target', node)
        if ('CUT:' + pos) in v:
            obs.ok(rule, q, con, f'`{norm(node)[:70]}` derives from `{pos}`', where(prog, f, node))
        elif isinstance(node, ast.Assign) and isinstance(node.value, ast.Constant):
            obs.ok(rule, q, con, f'`{norm(node)[:70]}` stores a constant', where(prog, f, node))
        else:
            obs.bad(rule, q, con, f'`{norm(node)[:90]}` writes dissimilarities into `{buf}` that do not pass through the position map `{pos}`: '
                    f'an input that lists its patterns in another order than the common list ends up under the wrong labels',
                    where(prog, f, node))


def kernel_axes(ctx, obs, rule='AXIS'):
    from ..rules.axis import AxisEval, Contract
    contracts = {
        CALC + '_parse_input': Contract({}, None, [('C', 'F'), None]),
        CALC + '_check_noise': Contract({}, ('F', 'F')),
        'util.rdm_utils._extract_triu_': Contract({}, ('P',)),
        CALC + 'calc_rdm_poisson': Contract({'prior_lambda': (), 'prior_weight': ()}),      # documented scalars
        CALC + '_calc_rdm_crossnobis_single': Contract({'meas1': ('C', 'F'), 'meas2': ('C', 'F'), 'noise': ('F', 'F')}, ('P',)),
    }
    typed = 0
    for fn in ('calc_rdm_euclidean', 'calc_rdm_correlation', 'calc_rdm_mahalanobis', 'calc_rdm_poisson', '_calc_rdm_crossnobis_single'):
        q = CALC + fn
        ev = AxisEval(ctx, q, contracts)
        typed += ev.check_function(obs, rule, None)
        # the matrix handed to the triangle extraction is conditions x conditions
        f = ctx.prog.func(q)
        for c in ast.walk(f.node):
            if isinstance(c, ast.Call) and isinstance(c.func, ast.Name) and c.func.id == '_extract_triu_' and c.args:
                r = ev.roles(c.args[0])
                con = 'the matrix whose upper triangle becomes the RDM is conditions x conditions'
                if r is None or len(r) != 2 or '?' in r:
                    obs.unk(rule, q, con, f'roles of `{norm(c.args[0])[:50]}`: {r}', where(ctx.prog, f, c))
                else:
                    obs.check(tuple(r) == ('C', 'C'), rule, q, con, f'`{norm(c.args[0])[:50]}` has axes {r}', '', where(ctx.prog, f, c))
            if isinstance(c, ast.Call) and isinstance(c.func, ast.Name) and c.func.id == '_build_rdms' and c.args:
                r = ev.roles(c.args[0])
                con = 'the dissimilarities handed to the RDMs constructor are a pair vector or a conditions x conditions matrix'
                if r is None or '?' in r:
                    obs.unk(rule, q, con, f'roles of `{norm(c.args[0])[:50]}`: {r}', where(ctx.prog, f, c))
                else:
                    obs.check(tuple(r) in (('P',), ('C', 'C')), rule, q, con, f'`{norm(c.args[0])[:50]}` has axes {r}', '',
                              where(ctx.prog, f, c))
    obs.analysed['kernel_axis_statements_typed'] = typed


def method_dispatch(ctx, obs, q, expected, rule='EXH', var='method'):
    """`if method == 'x': rdm = f(...)` chain: each expected key has an arm whose call is `expected[key]`, and the
    chain ends in an arm that raises."""
    prog = ctx.prog
    f = prog.func(q)
    r = ctx.dep.result(q)
    arms = {}
    tails = []
    for s in ast.walk(f.node):
        if isinstance(s, ast.If):
            key = _eq_const(s.test, var)
            if key is not None:
                arms.setdefault(key, s)
                if not (len(s.orelse) == 1 and isinstance(s.orelse[0], ast.If) and _eq_const(s.orelse[0].test, var)):
                    tails.append(s)
    for key, target in expected.items():
        if key not in arms:
            obs.bad(rule, q, f'method {key!r} has an arm', f'no `{var} == {key!r}` arm in {q}', where(prog, f, f.node))
            continue
        s = arms[key]
        inside = {id(n) for st in s.body for n in ast.walk(st)}
        callees = {c for cr in r.calls if id(cr.node) in inside for c in cr.callees}
        obs.check(target in callees, rule, q, f'method {key!r} dispatches to {target}',
                  f'the arm for {key!r} calls {sorted(callees)} and not {target}', '', where(prog, f, s))
    for s in tails:
        ok = bool(s.orelse) and all(isinstance(x, ast.Raise) for x in s.orelse[-1:])
        obs.check(ok, rule, q, 'unknown method is rejected (chain ends in raise)',
                  'the method chain has no final else-arm that raises: an unknown method falls through',
                  '', where(prog, f, s))
    return arms


def _eq_const(test, var):
    if isinstance(test, ast.Compare) and len(test.ops) == 1 and isinstance(test.ops[0], ast.Eq) \
            and isinstance(test.left, ast.Name) and test.left.id == var \
            and isinstance(test.comparators[0], ast.Constant) and isinstance(test.comparators[0].value, str):
        return test.comparators[0].value
    return None


def pairing(ctx, obs, q, rule='PAIR'):
    """values (utv) and labels (obs_desc_vals) given to _build_rdms derive from the same averaging call, and the
    dataset given is the function's dataset"""
    prog = ctx.prog
    f = prog.func(q)
    r = ctx.dep.result(q)
    sites = calls_to(r, 'util.build_rdm._build_rdms')
    if not sites:
        obs.unk(rule, q, '_build_rdms call', 'no call to _build_rdms found (result built elsewhere)')
        return
    first = f.pos_params[0]
    for c in sites:
        b = bound_args(prog, 'util.build_rdm._build_rdms', c)
        utv = b.get('utv', (None, frozenset()))[1]
        ds = b.get('ds', (None, frozenset()))[1]
        vals = b.get('obs_desc_vals')
        obs.check(depends_on_param(ds, first), rule, q, 'dataset handed to _build_rdms is the input dataset',
                  f'`ds` argument does not derive from parameter `{first}`', '', where(prog, f, c.node))
        obs.check(depends_on_param(utv, first), rule, q, 'values handed to _build_rdms derive from the input dataset',
                  f'`utv` argument does not derive from parameter `{first}`', '', where(prog, f, c.node))
        if vals is not None and not (isinstance(vals[0], ast.Constant) and vals[0].value is None):
            avg_u = {t for t in utv if t.startswith('CALL:') and ('_parse_input' in t or 'average_dataset_by' in t)}
            avg_v = {t for t in vals[1] if t.startswith('CALL:') and ('_parse_input' in t or 'average_dataset_by' in t)}
            if not avg_v:
                obs.unk(rule, q, 'labels come from an averaging call', f'labels `{norm(vals[0])}` of unknown origin')
            else:
                obs.check(bool(avg_u & avg_v), rule, q, 'values and labels come from the same averaging call',
                          f'the values derive from {sorted(avg_u)} but the labels from {sorted(avg_v)}: rows of the RDM '
                          f'and their condition labels are computed by different calls and need not be in the same order',
                          '', where(prog, f, c.node))
        nm = b.get('obs_desc_name')
        if nm is not None and len(f.pos_params) > 1:
            obs.check(depends_on_param(nm[1], f.pos_params[1]) or 'descriptor' in params_of(nm[1]), rule, q,
                      'descriptor name handed to _build_rdms is the requested descriptor',
                      f'`obs_desc_name` = `{norm(nm[0])}` does not derive from the descriptor parameter', '',
                      where(prog, f, c.node))


def movie(ctx, obs, rule='MOVIE'):
    prog, dep = ctx.prog, ctx.dep
    q = CALC + 'calc_rdm_movie'
    f = prog.func(q)
    acc_named(ctx, obs, q, rule='ACC')
    # the bins arm: time labels and the split both come from the binned object; otherwise both from the input
    from ..rules.common import find_iterable_dispatch
    disp = find_iterable_dispatch(f)
    bins_if = None
    for s in ast.walk(f.node):
        if isinstance(s, ast.If) and any(isinstance(n, ast.Name) and n.id == 'bins' for n in ast.walk(s.test)):
            bins_if = s
            break
    if bins_if is None or disp is None:
        obs.unk(rule, q, 'bins arm', 'no `if bins ...` arm recognised')
        return
    for arm in ('body', 'orelse'):
        r = dep.analyze(q, force={id(disp): 'orelse', id(bins_if): arm})
        # loop over the split
        loops = [n for n in ast.walk(f.node) if isinstance(n, ast.For) and n not in ast.walk(disp.body[0])]
        split_calls = [c for c in r.calls if c.attr == 'split_time']
        tstores = [(n, root, v) for (n, root, v, ctl) in r.stores
                   if isinstance(n, ast.Assign) and isinstance(n.targets[0], ast.Subscript)
                   and isinstance(n.targets[0].value, ast.Attribute) and n.targets[0].value.attr == 'rdm_descriptors']
        if not split_calls or not tstores:
            obs.unk(rule, q, f'{arm}: split_time call and rdm_descriptors store', 'not recognised')
            continue
        binned_split = any('.bin_time' in t for c in split_calls for t in c.recv)
        binned_time = any('.bin_time' in t for (_, _, v) in tstores for t in v)
        obs.check(binned_split == binned_time, rule, q,
                  f'{"bins" if arm == "body" else "no-bins"} arm: time labels come from the object that was split',
                  f'split_time is applied to the {"binned" if binned_split else "original"} dataset but the time '
                  f'descriptor attached to the movie comes from the {"binned" if binned_time else "original"} one',
                  '', where(prog, f, tstores[0][0]))
        # per time point: the estimator call consumes this iteration's split
        est = [c for c in r.calls if any(x.endswith('calc_rdm') or x.endswith('calc_rdm_unbalanced') for x in c.callees)
               and c.in_loops]
        for c in est:
            a0 = c.arg(0) or frozenset()
            it = any(t.startswith('ITER:') for t in a0)
            tao = any('.time_as_observations' in t for t in a0)
            obs.check(it and tao, rule, q,
                      f'{arm}: {c.callees[0].split(".")[-1]} consumes time_as_observations of the current split',
                      f'first argument of `{norm(c.node)[:80]}` does not derive from the loop element via '
                      f'time_as_observations', '', where(prog, f, c.node))
            b = bound_args(prog, c.callees[0], c)
            for p in ('method', 'descriptor', 'noise', 'cv_descriptor', 'prior_lambda', 'prior_weight'):
                okp = p in b and depends_on_param(b[p][1], p)
                obs.check(okp, 'FWD', q, f'{arm}: per-time-point {c.callees[0].split(".")[-1]} receives {p}',
                          f'`{norm(c.node)[:80]}` does not pass `{p}`', '', where(prog, f, c.node))
