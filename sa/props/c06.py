"""C06 - Reported uncertainties and p-values are coherent with the evaluations (structural clauses)."""
from __future__ import annotations
import ast

from ..model import AnalysisError
from ..flow import depends_on_param
from ..rules.common import where, norm, Inliner, bound_args, calls_to
from .c03 import _keys

EXPLANATION = (
    'Static necessary-condition analysis of util/inference_util.py and inference/result.py: (SIB/TAB) all_tests and the '
    'three single-purpose wrappers handle the same test types and, per type, call the same helper with the same roles of '
    'arguments; (FWD) the Result accessors hand the stored model_var / diff_var / noise_ceil_var / dof to the helpers '
    '(a dropped dof silently becomes 1); (UNIFORM) in extract_variances the three outputs of each arm receive the same '
    'correction with the same n arguments and contrasts are built from the same covariance block; (CLAMP) both arms of '
    '_dual_bootstrap return min(max(combined, corrected single-factor variances), two-factor variance); (AXIS) the tests '
    'average over axis 0 (resamples) and trailing axes so the model axis survives, pairwise matrices are filled '
    'symmetrically with unit diagonal; (MEANS) get_means uses NaN-aware averaging. Coincidence with textbook t statistics, '
    'p in [0,1] and monotonicity are NOT decided.'
    ' Also: (MODEL-AXIS) no constant index on the model axis decides for all models (means permute with the models, NaN-aware per model); (UNIFORM) decided on copy chains, not on variable names.')
ASSUMPTIONS = ['evaluations have axes (resample, model, ...) as documented', 'scipy.stats.t.cdf semantics not modelled']
FLOOR = 55
RULE_FLOORS = {'SIB': 9, 'FWD': 10, 'UNIFORM': 9, 'CLAMP': 4}

U = 'util.inference_util.'
RES = 'inference.result.Result.'


def _leaf(fn):
    return fn.attr if isinstance(fn, ast.Attribute) else (fn.id if isinstance(fn, ast.Name) else '')


def run(ctx, obs):
    from ..rules import sweeps
    sweeps.run(ctx, obs, 'C06')
    sib_tests(ctx, obs)
    result_fwd(ctx, obs)
    uniform(ctx, obs)
    clamp(ctx, obs)
    axes(ctx, obs)
    means(ctx, obs)
    correct_1d(ctx, obs)
    resampled_factor_counts(ctx, obs)
    variance_model_axis(ctx, obs)
    model_axis(ctx, obs)
    bootstrap_p_range(ctx, obs)
    from ..rules.axis import AxisEval, Contract
    for fn in ('nc_tests', 'all_tests', 'zero_tests', 'pair_tests'):
        q_ = U + fn
        AxisEval(ctx, q_, {q_: Contract({'noise_ceil': ('K', 'S'), 'evaluations': ('S', 'M')})}).check_function(obs, 'AXIS', None)


def bootstrap_p_range(ctx, obs, rule='P-RANGE'):
    """Bootstrap p-values are proportions `(count + k) / (N + m)`: count = number of resamples satisfying a comparison (a boolean
    array summed over axis 0), N = number of resamples (`x.shape[0]` / `len(x)`).  count ranges over 0..N, so the quotient stays
    in [0, 1] iff 0 <= k <= m; `(count + 1) / N` reaches (N + 1) / N > 1 when every resample satisfies the comparison."""
    prog = ctx.prog
    n = 0

    def const(e):
        return e.value if isinstance(e, ast.Constant) and isinstance(e.value, (int, float)) and not isinstance(e.value, bool) else None

    def count_plus(e):
        """e = C or C + k  (C = <comparison>.sum(axis=0) / np.sum(<comparison>, axis=0) / count_nonzero) -> k, else None"""
        def is_count(c):
            if not isinstance(c, ast.Call) or _leaf(c.func) not in ('sum', 'count_nonzero', 'nansum'):
                return False
            is_np = isinstance(c.func, ast.Attribute) and isinstance(c.func.value, ast.Name) and c.func.value.id in ('np', 'numpy')
            operand = (c.args[0] if c.args else None) if is_np else (c.func.value if isinstance(c.func, ast.Attribute) else None)
            return isinstance(operand, ast.Compare)
        if is_count(e):
            return 0
        if isinstance(e, ast.BinOp) and isinstance(e.op, ast.Add):
            if is_count(e.left) and const(e.right) is not None:
                return const(e.right)
            if is_count(e.right) and const(e.left) is not None:
                return const(e.left)
        return None

    def size_plus(e):
        def is_size(x):
            return (isinstance(x, ast.Subscript) and isinstance(x.value, ast.Attribute) and x.value.attr == 'shape'
                    and isinstance(x.slice, ast.Constant) and x.slice.value == 0) or \
                   (isinstance(x, ast.Call) and isinstance(x.func, ast.Name) and x.func.id == 'len')
        if is_size(e):
            return 0
        if isinstance(e, ast.BinOp) and isinstance(e.op, ast.Add):
            if is_size(e.left) and const(e.right) is not None:
                return const(e.right)
            if is_size(e.right) and const(e.left) is not None:
                return const(e.left)
        return None

    for q, f in sorted(prog.functions.items()):
        if not q.startswith(U) and not q.startswith('inference.result.'):
            continue
        for e in ast.walk(f.node):
            if isinstance(e, ast.BinOp) and isinstance(e.op, ast.Div):
                k, m = count_plus(e.left), size_plus(e.right)
                if k is None or m is None:
                    continue
                n += 1
                con = 'a bootstrap p-value (count + k) / (N + m) stays in [0, 1]'
                if 0 <= k <= m:
                    obs.ok(rule, q, con, f'`{norm(e)[:70]}`: k={k}, m={m}', where(prog, f, e))
                else:
                    obs.bad(rule, q, con, f'`{norm(e)[:80]}`: k={k}, m={m} - when every resample satisfies the comparison the value is '
                            f'(N + {k}) / (N + {m}) > 1', where(prog, f, e))
    if n == 0:
        obs.unk(rule, U + 'zero_tests', 'bootstrap proportions', 'no (count + k) / (N + m) expression recognised')


def model_axis(ctx, obs, rule='MODEL-AXIS'):
    """The evaluations array is (samples, models, [folds ...]).  Every accessor keeps the model axis: for each array derived from
    `evaluations` the POSITION of the model axis is tracked through the statements (alias, reduction over another axis, row
    filter, concatenation along another axis); a reduction / quantile / concatenation whose constant axis IS that position mixes
    the models (violation).  Non-constant axes and untracked operations end the tracking for that name (undecided, silently).
    Also: an average over the trailing (fold) axis must be NaN-aware."""
    prog = ctx.prog
    REDUCE = {'mean', 'nanmean', 'sum', 'nansum', 'quantile', 'nanquantile', 'percentile', 'median', 'nanmedian', 'std', 'nanstd',
              'var', 'nanvar', 'min', 'max', 'nanmin', 'nanmax'}
    sites = [RES + 'get_means', RES + 'get_ci', U + 'get_errorbars', U + 'bootstrap_pair_tests', U + 't_tests', U + 't_test_0',
             U + 't_test_nc', U + 'ranksum_pair_test', U + 'ranksum_value_test']
    n = 0

    def const_axis(c, pos_index):
        a = next((k.value for k in c.keywords if k.arg == 'axis'), c.args[pos_index] if len(c.args) > pos_index else None)
        if a is None:
            return 'none'
        if isinstance(a, ast.Constant) and isinstance(a.value, int):
            return a.value
        if isinstance(a, ast.UnaryOp) and isinstance(a.op, ast.USub) and isinstance(a.operand, ast.Constant):
            return -a.operand.value
        return None

    for q in sites:
        f = prog.func(q)
        pos = {}

        def src_pos(e):
            """position of the model axis in expression e, or None"""
            if isinstance(e, ast.Name):
                return pos.get(e.id)
            if isinstance(e, ast.Attribute) and e.attr == 'evaluations':
                return 1
            if isinstance(e, ast.Subscript):
                b = src_pos(e.value)
                # row filter x[mask] / x[mask, ...] with a non-tuple index keeps the layout
                if b is not None and not isinstance(e.slice, (ast.Tuple, ast.Constant, ast.Slice)):
                    return b
                return None
            return None

        if 'evaluations' in f.params:
            pos['evaluations'] = 1

        def visit_call(c):
            nonlocal n
            leaf = _leaf(c.func)
            if leaf in REDUCE:
                is_np = isinstance(c.func, ast.Attribute) and isinstance(c.func.value, ast.Name) and c.func.value.id in ('np', 'numpy')
                operand = (c.args[0] if c.args else None) if is_np else (c.func.value if isinstance(c.func, ast.Attribute) else None)
                p0 = src_pos(operand) if operand is not None else None
                if p0 is None:
                    return None
                ai = (2 if leaf in ('quantile', 'nanquantile', 'percentile') else 1) if is_np else (1 if leaf in ('quantile',) else 0)
                ax = const_axis(c, ai)
                n += 1
                con = 'the model axis of the evaluations survives every reduction'
                if ax == 'none':
                    obs.bad(rule, q, con, f'`{norm(c)[:70]}` reduces over all axes, models included', where(prog, f, c))
                    return None
                if ax is None:
                    return None
                if ax == p0:
                    obs.bad(rule, q, con, f'`{norm(c)[:70]}` reduces axis {ax}, which is the model axis of its operand', where(prog, f, c))
                    return None
                obs.ok(rule, q, con, f'`{norm(c)[:50]}`', where(prog, f, c))
                if ax == -1 and leaf in ('mean', 'sum', 'median', 'std', 'var'):
                    obs.bad('MEANS', q, 'averages over the trailing (fold) axes are NaN-aware', f'`{norm(c)[:70]}` is NaN-blind: folds '
                            f'without an evaluation are stored as NaN', where(prog, f, c))
                keep = any(k.arg == 'keepdims' and isinstance(k.value, ast.Constant) and k.value.value for k in c.keywords)
                if keep:
                    return p0
                return p0 - 1 if 0 <= ax < p0 else p0
            if leaf in ('concatenate', 'stack', 'vstack', 'hstack') and c.args and isinstance(c.args[0], (ast.Tuple, ast.List)):
                ps = [src_pos(x) for x in c.args[0].elts]
                known = [x for x in ps if x is not None]
                if not known:
                    return None
                ax = 0 if leaf == 'vstack' else 1 if leaf == 'hstack' else const_axis(c, 1)
                if leaf == 'concatenate' and ax == 'none':
                    ax = 0
                n += 1
                con = 'rows are appended to the evaluations along the sample axis'
                if ax is None or leaf == 'stack':
                    return None
                if ax == known[0]:
                    obs.bad(rule, q, con, f'`{norm(c)[:70]}` appends along axis {ax}, the model axis', where(prog, f, c))
                    return None
                obs.ok(rule, q, con, '', where(prog, f, c))
                return known[0]
            return None

        def single_model_reads(st):
            """`x[:, 0]` with the constant on the model axis of a tracked array: one particular model is singled out"""
            nonlocal n
            header = [st.value] if isinstance(st, (ast.Assign, ast.AugAssign, ast.Return, ast.Expr)) and st.value is not None else \
                [st.test] if isinstance(st, (ast.If, ast.While)) else []
            for h in header:
                for e in ast.walk(h):
                    if not (isinstance(e, ast.Subscript) and isinstance(e.ctx, ast.Load)):
                        continue
                    p0 = src_pos(e.value)
                    if p0 is None:
                        continue
                    items = list(e.slice.elts) if isinstance(e.slice, ast.Tuple) else [e.slice]
                    if len(items) <= p0 or any(isinstance(x, ast.Constant) and x.value is Ellipsis for x in items[:p0 + 1]):
                        continue
                    it = items[p0]
                    if isinstance(it, ast.Constant) and isinstance(it.value, int) and not isinstance(it.value, bool):
                        n += 1
                        obs.bad(rule, q, 'no single model stands for all models (outputs permute with the models)',
                                f'`{norm(e)[:50]}` reads model {it.value} only, in `{norm(st)[:70]}`: what is computed for every model then depends '
                                f'on which model happens to be listed at that position (a NaN evaluation of that model removes samples '
                                f'for all models; NaNs of the other models are not handled)', where(prog, f, e))

        def walk(stmts):
            for st in stmts:
                single_model_reads(st)
                if isinstance(st, ast.Assign) and len(st.targets) == 1 and isinstance(st.targets[0], ast.Name):
                    v = st.value
                    t = st.targets[0].id
                    if isinstance(v, ast.Call):
                        r = visit_call(v)
                        # nested reductions inside the call arguments
                        for c in ast.walk(v):
                            if c is not v and isinstance(c, ast.Call):
                                visit_call(c)
                        if r is not None:
                            pos[t] = r
                        else:
                            pos.pop(t, None)
                    else:
                        for c in ast.walk(v):
                            if isinstance(c, ast.Call):
                                visit_call(c)
                        p0 = src_pos(v)
                        if p0 is not None:
                            pos[t] = p0
                        else:
                            pos.pop(t, None)
                elif isinstance(st, (ast.If, ast.For, ast.While, ast.With, ast.Try)):
                    for e in ([st.test] if isinstance(st, (ast.If, ast.While)) else []):
                        for c in ast.walk(e):
                            if isinstance(c, ast.Call):
                                visit_call(c)
                    before = dict(pos)
                    outs = []
                    for blk in ('body', 'orelse', 'finalbody'):
                        b = getattr(st, blk, None)
                        if b:
                            pos.clear()
                            pos.update(before)
                            # a loop body is walked twice so that loop-carried positions settle
                            walk(b)
                            if isinstance(st, (ast.For, ast.While)):
                                walk(b)
                            outs.append(dict(pos))
                    if not getattr(st, 'orelse', None) or isinstance(st, (ast.For, ast.While)):
                        outs.append(before)
                    pos.clear()
                    for k in set().union(*[set(o) for o in outs]) if outs else ():
                        vals = {o.get(k) for o in outs}
                        if len(vals) == 1 and None not in vals:
                            pos[k] = vals.pop()
                else:
                    for c in ast.walk(st):
                        if isinstance(c, ast.Call):
                            visit_call(c)
        walk(f.node.body)
    if n < 10:
        obs.unk(rule, RES + 'get_means', 'reductions over evaluation arrays', f'only {n} recognised')


def _arms(f, var='test_type'):
    arms = {}
    for n in ast.walk(f.node):
        if isinstance(n, ast.If):
            for k in _keys(n.test, var):
                arms.setdefault(k, n)
    return arms


def _calls_in(body):
    return [c for s in body for c in ast.walk(s) if isinstance(c, ast.Call)]


def sib_tests(ctx, obs, rule='SIB'):
    prog = ctx.prog
    fa = prog.func(U + 'all_tests')
    all_arms = _arms(fa)
    ra = ctx.dep.result(U + 'all_tests')
    all_out = None
    for node, _, _ in ra.returns:
        if node is not None and isinstance(node.value, ast.Tuple) and len(node.value.elts) == 3 \
                and all(isinstance(e, ast.Name) for e in node.value.elts):
            all_out = [e.id for e in node.value.elts]
    if all_out is None:
        for w in ('pair_tests', 'zero_tests', 'nc_tests'):
            for t in ('t-test', 'bootstrap', 'ranksum'):
                obs.unk(rule, U + w, f'{t}: the p-values of {w} are computed as in all_tests',
                        'all_tests does not return a 3-tuple of names: the function was restructured', where(prog, fa, fa.node))
        return
    wrappers = {'pair_tests': 0, 'zero_tests': 1, 'nc_tests': 2}
    for w, pos in wrappers.items():
        fw = prog.func(U + w)
        rw = ctx.dep.result(U + w)
        outvar = None
        for node, _, _ in rw.returns:
            if node is not None and isinstance(node.value, ast.Name):
                outvar = node.value.id
        if outvar is None:
            for t in ('t-test', 'bootstrap', 'ranksum'):
                obs.unk(rule, U + w, f'{t}: the p-values of {w} are computed as in all_tests', 'return is not a plain name: the function was restructured',
                        where(prog, fw, fw.node))
            continue
        arms = _arms(fw)
        if not arms or not all_arms:
            # the dispatch on the test type is not written as a chain in this function any more (a table, an enum, helpers that the
            # pre-pass could not bring back): the three sibling clauses of this entry point are owed and undecided
            for t in ('t-test', 'bootstrap', 'ranksum'):
                obs.unk(rule, U + w, f'{t}: {outvar} is computed as in all_tests',
                        'no if / elif chain on test_type in ' + ('all_tests' if not all_arms else w) + ': the dispatch was restructured',
                        where(prog, fw, fw.node))
            continue
        obs.check(set(arms) == set(all_arms), 'TAB', U + w, f'{w} handles the same test types as all_tests',
                  f'{sorted(arms)} vs {sorted(all_arms)}', '', where(prog, fw, fw.node))
        for t in sorted(set(arms) & set(all_arms)):
            # the statement(s) defining outvar in all_tests' arm vs the wrapper's arm
            ea = _def_in_arm(all_arms[t], all_out[pos])
            ew = _def_in_arm(arms[t], outvar)
            same = ea is not None and ew is not None and ast.dump(ea) == ast.dump(ew)
            obs.check(same, rule, U + w, f'{t}: {outvar} is computed as in all_tests',
                      f'all_tests computes `{ast.unparse(ea)[:90] if ea is not None else None}` but {w} computes '
                      f'`{ast.unparse(ew)[:90] if ew is not None else None}`: the same test gives different p-values through '
                      f'the two entry points', '', where(prog, fw, arms[t]))
        tails = [n for n in ast.walk(fw.node) if isinstance(n, ast.If) and _keys(n.test, 'test_type')
                 and not (len(n.orelse) == 1 and isinstance(n.orelse[0], ast.If))]
        for tl in tails:
            obs.check(bool(tl.orelse) and isinstance(tl.orelse[-1], ast.Raise), 'EXH', U + w, 'unknown test type is rejected',
                      'no raising else-arm', '', where(prog, fw, tl))
    # the t-test arm passes (evaluations, variance, dof) in the helpers' slots
    for q in (U + 'all_tests', U + 'pair_tests', U + 'zero_tests', U + 'nc_tests'):
        f = prog.func(q)
        r = ctx.dep.result(q)
        for c in r.calls:
            for callee, varp in ((U + 't_tests', 'diff_var'), (U + 't_test_0', 'model_var'), (U + 't_test_nc', 'noise_ceil_var')):
                if callee in c.callees:
                    b = bound_args(prog, callee, c)
                    ok = 'variances' in b and depends_on_param(b['variances'][1], varp) and 'dof' in b \
                        and depends_on_param(b['dof'][1], 'dof') and 'evaluations' in b \
                        and depends_on_param(b['evaluations'][1], 'evaluations')
                    obs.check(ok, 'FWD', q, f'{callee.split(".")[-1]} receives (evaluations, {varp}, dof)',
                              f'`{norm(c.node)[:90]}` does not pass evaluations / {varp} / dof in their slots', '',
                              where(prog, f, c.node))


def _def_in_arm(arm: ast.If, var):
    """inline (within the arm) the expression assigned to var"""
    defs = {}
    for s in arm.body:
        for n in ast.walk(s):
            if isinstance(n, ast.Assign) and isinstance(n.targets[0], ast.Name):
                defs[n.targets[0].id] = n.value
    if var not in defs:
        return None
    import copy

    class _Sub(ast.NodeTransformer):
        def __init__(self):
            self.depth = 0

        def visit_Name(self, n):
            if isinstance(n.ctx, ast.Load) and n.id in defs and n.id != var and self.depth < 6:
                self.depth += 1
                out = self.visit(copy.deepcopy(defs[n.id]))
                self.depth -= 1
                return out
            return n
    return _Sub().visit(copy.deepcopy(defs[var]))


def result_fwd(ctx, obs, rule='FWD'):
    prog = ctx.prog
    want = {
        'test_all': (U + 'all_tests', {'model_var': 'model_var', 'diff_var': 'diff_var', 'noise_ceil_var': 'noise_ceil_var',
                                       'dof': 'dof', 'evaluations': 'evaluations', 'noise_ceil': 'noise_ceiling',
                                       'test_type': None}),
        'test_pairwise': (U + 'pair_tests', {'diff_var': 'diff_var', 'dof': 'dof', 'evaluations': 'evaluations', 'test_type': None}),
        'test_zero': (U + 'zero_tests', {'model_var': 'model_var', 'dof': 'dof', 'evaluations': 'evaluations', 'test_type': None}),
        'test_noise': (U + 'nc_tests', {'noise_ceil_var': 'noise_ceil_var', 'dof': 'dof', 'evaluations': 'evaluations',
                                        'noise_ceil': 'noise_ceiling', 'test_type': None}),
    }
    for m, (callee, slots) in want.items():
        q = RES + m
        f = prog.func(q)
        r = ctx.dep.result(q)
        cs = calls_to(r, callee)
        if not cs:
            obs.bad(rule, q, f'{m} delegates to {callee.split(".")[-1]}', f'no call to {callee}', where(prog, f, f.node))
            continue
        for c in cs:
            b = bound_args(prog, callee, c)
            for p, attr in slots.items():
                if p not in b or b[p][0] is None:
                    obs.bad(rule, q, f'{m} passes {p}', f'`{norm(c.node)[:90]}` does not pass `{p}`: the helper falls back to '
                            f'its default', where(prog, f, c.node))
                    continue
                e = b[p][0]
                if attr is None:
                    ok = isinstance(e, ast.Name) and e.id == p
                else:
                    ok = isinstance(e, ast.Attribute) and e.attr == attr and isinstance(e.value, ast.Name) and e.value.id == 'self'
                obs.check(ok, rule, q, f'{m} passes {p}', f'`{p}` is bound to `{norm(e)}`, expected '
                          f'{"self." + attr if attr else p}', '', where(prog, f, c.node))
    # get_sem from model_var; get_ci from sem, means and dof
    q = RES + 'get_sem'
    f = prog.func(q)
    ok = any(isinstance(n, ast.Attribute) and n.attr == 'model_var' for n in ast.walk(f.node)) and \
        any(isinstance(n, ast.Call) and _leaf(n.func) == 'sqrt' for n in ast.walk(f.node)) and \
        any(isinstance(n, ast.Call) and _leaf(n.func) == 'maximum' for n in ast.walk(f.node))
    obs.check(ok, rule, q, 'the standard error is sqrt(max(model_var, 0))', 'get_sem is not sqrt(maximum(model_var, 0))', '',
              where(prog, f, f.node))
    q = RES + 'get_ci'
    f = prog.func(q)
    ppf = [c for c in ast.walk(f.node) if isinstance(c, ast.Call) and _leaf(c.func) == 'ppf']
    for c in ppf:
        ok = len(c.args) == 2 and isinstance(c.args[1], ast.Attribute) and c.args[1].attr == 'dof'
        obs.check(ok, rule, q, 'confidence intervals use the stored dof', f'`{norm(c)}`', '', where(prog, f, c))
    # Result.__init__ derives the variances from the constructor arguments
    q = RES + '__init__'
    f = prog.func(q)
    r = ctx.dep.result(q)
    for c in calls_to(r, U + 'extract_variances'):
        b = bound_args(prog, U + 'extract_variances', c)
        for p, src in (('variance', 'variances'), ('n_rdm', 'n_rdm'), ('n_pattern', 'n_pattern')):
            ok = p in b and isinstance(b[p][0], ast.Name) and b[p][0].id == src
            obs.check(ok, rule, q, f'extract_variances receives {src}', f'`{norm(c.node)[:90]}`', '', where(prog, f, c.node))


def _var_kind(name: str):
    n = name.lower()
    ks = [k for k, keys in (('model', ('model',)), ('diff', ('diff',)), ('nc', ('nc_', '_nc', 'noise', 'ceil'))) if any(x in n for x in keys)]
    if n == 'nc':
        ks.append('nc')
    return ks[0] if len(set(ks)) == 1 else None


def _copy_env(stmts, env, calls):
    """name -> (names that hold the same value, defining expressions) after the statements; copies (`a = b`) are followed, the arms
    of an if are joined.  calls[id(call)] = {name: aliases at the time of the call} for every call that defines a name."""
    for st in stmts:
        if isinstance(st, ast.Assign) and len(st.targets) == 1 and isinstance(st.targets[0], ast.Name):
            t = st.targets[0].id
            if isinstance(st.value, ast.Name):
                a, d = env.get(st.value.id, ({st.value.id}, set()))
                env[t] = (set(a) | {t, st.value.id}, set(d))
            else:
                if isinstance(st.value, ast.Call):
                    calls[id(st.value)] = {x.id: set(env.get(x.id, ({x.id}, set()))[0]) | {x.id}
                                           for x in st.value.args if isinstance(x, ast.Name)}
                env[t] = ({t}, {st.value})
        elif isinstance(st, ast.If):
            e1 = {k: (set(a), set(d)) for k, (a, d) in env.items()}
            e2 = {k: (set(a), set(d)) for k, (a, d) in env.items()}
            _copy_env(st.body, e1, calls)
            _copy_env(st.orelse, e2, calls)
            for k in set(e1) | set(e2):
                a1, d1 = e1.get(k, ({k}, set()))
                a2, d2 = e2.get(k, ({k}, set()))
                env[k] = (a1 | a2, d1 | d2)
        else:
            for x in ast.walk(st):
                if isinstance(x, ast.Name) and isinstance(x.ctx, ast.Store):
                    env[x.id] = ({x.id}, {st})


def uniform(ctx, obs, rule='UNIFORM'):
    prog = ctx.prog
    q = U + 'extract_variances'
    f = prog.func(q)
    # per ndim arm: the three correction statements call the same helper with the same trailing arguments
    arms = [n for n in ast.walk(f.node) if isinstance(n, ast.If) and isinstance(n.test, ast.Compare)
            and isinstance(n.test.left, ast.Attribute) and n.test.left.attr == 'ndim'
            and isinstance(n.test.comparators[0], ast.Constant) and n.test.comparators[0].value in (1, 2, 3)]
    if len(arms) < 3:
        raise AnalysisError('extract_variances: ndim arms not found')
    r0 = ctx.dep.result(q)
    ret_names = None
    for node, _, _ in r0.returns:
        if node is not None and isinstance(node.value, ast.Tuple) and len(node.value.elts) == 3 \
                and all(isinstance(e, ast.Name) for e in node.value.elts):
            ret_names = {e.id for e in node.value.elts}
    if ret_names is None:
        obs.unk(rule, q, 'returned variance triple', 'return is not a 3-tuple of names')
        return
    # the returned triple is (model, difference, noise-ceiling): Result.__init__ and every caller unpack it in this order
    ret_node = next(node for node, _, _ in r0.returns if node is not None and isinstance(node.value, ast.Tuple)
                    and len(node.value.elts) == 3)
    ret_order = [e.id for e in ret_node.value.elts]
    want_kind = ['model', 'diff', 'nc']
    for arm in arms:
        nd = arm.test.comparators[0].value
        env, calls = {}, {}
        _copy_env(arm.body, env, calls)
        want = '_dual_bootstrap' if nd == 3 else '_correct_1d'
        found = []
        for pos, rn in enumerate(ret_order):
            aliases, defs = env.get(rn, ({rn}, set()))
            cdefs = [d for d in defs if isinstance(d, ast.Call) and _leaf(d.func) in ('_correct_1d', '_dual_bootstrap')]
            if len(defs) != 1 or len(cdefs) != 1:
                if defs and not cdefs and all(not any(isinstance(x, ast.Call) and not _leaf(x.func) in ('array', 'diag', 'einsum', 'expand_dims')
                                                        for x in ast.walk(d)) for d in defs):
                    obs.bad(rule, q, f'ndim={nd}: the {want_kind[pos]} variances are corrected',
                            f'output {pos} (`{rn}`) reaches the return without passing through {want}', where(prog, f, arm))
                else:
                    obs.unk(rule, q, f'ndim={nd}: the {want_kind[pos]} variances are corrected',
                            f'output {pos} (`{rn}`) has {len(defs)} definitions in this arm, {len(cdefs)} of them correction calls')
                continue
            call = cdefs[0]
            found.append(call)
            obs.ok(rule, q, f'ndim={nd}: the {want_kind[pos]} variances are corrected', norm(call)[:80], where(prog, f, call))
            obs.check(_leaf(call.func) == want, rule, q, f'ndim={nd}: output {pos} is corrected with {want}',
                      f'`{norm(call)[:80]}`', '', where(prog, f, call))
            # the corrected quantity is the one of this position: the names along its copy chain say which it is
            a0 = call.args[0] if call.args else None
            if not isinstance(a0, ast.Name):
                obs.unk(rule, q, f'ndim={nd}: output {pos} is the correction of the {want_kind[pos]} variances', f'argument `{norm(a0)[:60]}`')
                continue
            hints = {_var_kind(x) for x in calls.get(id(call), {}).get(a0.id, {a0.id})} - {None}
            hints_out = {_var_kind(x) for x in aliases} - {None}
            if len(hints) == 1 and hints != {want_kind[pos]}:
                obs.bad(rule, q, f'ndim={nd}: output {pos} is the correction of the {want_kind[pos]} variances',
                        f'`{norm(call)[:80]}` corrects the {sorted(hints)[0]} variances and returns them as output {pos} '
                        f'(the {want_kind[pos]} variances)', where(prog, f, call))
            elif len(hints_out) == 1 and hints_out != {want_kind[pos]}:
                obs.bad(rule, q, f'ndim={nd}: output {pos} is the correction of the {want_kind[pos]} variances',
                        f'the {sorted(hints_out)[0]} variances are returned as output {pos} (the {want_kind[pos]} variances)',
                        where(prog, f, ret_node))
            elif len(hints) == 1:
                obs.ok(rule, q, f'ndim={nd}: output {pos} is the correction of the {want_kind[pos]} variances', norm(call)[:80],
                       where(prog, f, call))
            else:
                obs.unk(rule, q, f'ndim={nd}: output {pos} is the correction of the {want_kind[pos]} variances',
                        f'the names {sorted(calls.get(id(call), {}).get(a0.id, {a0.id}))} do not say which variances these are')
        if len(found) == 3:
            sigs = {(_leaf(c.func), tuple(ast.dump(a) for a in c.args[1:]), tuple((k.arg, ast.dump(k.value)) for k in c.keywords))
                    for c in found}
            obs.check(len(sigs) == 1, rule, q, f'ndim={nd}: the three outputs receive the same correction with the same n arguments',
                      f'{len(sigs)} different correction calls: {[norm(c)[:60] for c in found]}', '', where(prog, f, arm))
    # nc_included arms: model variances exclude the two ceiling rows; contrasts use the model block
    for n in ast.walk(f.node):
        if isinstance(n, ast.If) and isinstance(n.test, ast.Name) and n.test.id == 'nc_included':
            for s in n.body:
                if isinstance(s, ast.Assign) and isinstance(s.value, ast.Call) and _leaf(s.value.func) == 'pairwise_contrast':
                    ok = any(isinstance(x, ast.BinOp) and isinstance(x.op, ast.Sub) and isinstance(x.right, ast.Constant)
                             and x.right.value == 2 for x in ast.walk(s.value))
                    obs.check(ok, rule, q, 'with ceilings included the contrast matrix spans n - 2 models',
                              f'`{norm(s)[:80]}`', '', where(prog, f, s))
            for s in n.orelse:
                if isinstance(s, ast.Assign) and isinstance(s.value, ast.Call) and _leaf(s.value.func) == 'pairwise_contrast':
                    ok = not any(isinstance(x, ast.BinOp) and isinstance(x.op, ast.Sub) for x in ast.walk(s.value))
                    obs.check(ok, rule, q, 'without ceilings the contrast matrix spans all rows', f'`{norm(s)[:80]}`', '',
                              where(prog, f, s))


def clamp(ctx, obs, rule='CLAMP'):
    prog = ctx.prog
    q = U + '_dual_bootstrap'
    f = prog.func(q)
    top = [n for n in f.node.body if isinstance(n, ast.If)]
    if not top:
        raise AnalysisError('_dual_bootstrap: no top-level if')
    rets = [n for n in ast.walk(f.node) if isinstance(n, ast.Return) and isinstance(n.value, ast.Name)]
    if not rets:
        obs.unk(rule, q, 'clamping chain', 'return is not a plain name')
        return
    resv = rets[-1].value.id
    arrv = f.pos_params[0]
    for arm_name, body in (('uncorrected', top[0].body), ('corrected', top[0].orelse)):
        assigns = [s for s in body if isinstance(s, ast.Assign) and isinstance(s.targets[0], ast.Name)
                   and s.targets[0].id == resv]
        if not assigns:
            obs.unk(rule, q, f'{arm_name}: clamping chain', 'no assignments to `variance`')
            continue
        last = assigns[-1].value
        ok_min = isinstance(last, ast.Call) and _leaf(last.func) == 'minimum' and len(last.args) == 2 \
            and isinstance(last.args[0], ast.Name) and last.args[0].id == resv \
            and isinstance(last.args[1], ast.Subscript) and isinstance(last.args[1].slice, ast.Constant) \
            and last.args[1].slice.value == 0
        obs.check(ok_min, rule, q, f'{arm_name}: the result never exceeds the two-factor variance (min with variances[0])',
                  f'last assignment is `{norm(assigns[-1])[:80]}`', '', where(prog, f, assigns[-1]))
        mx = [s for s in assigns if isinstance(s.value, ast.Call) and _leaf(s.value.func) == 'maximum']
        idx = set()
        for s in mx:
            for x in ast.walk(s.value):
                if isinstance(x, ast.Subscript) and isinstance(x.value, ast.Name) and x.value.id == arrv \
                        and isinstance(x.slice, ast.Constant):
                    idx.add(x.slice.value)
        obs.check(idx == {1, 2}, rule, q, f'{arm_name}: the result never falls below either single-factor variance (max with '
                  f'variances[1] and variances[2])', f'max is taken over variances{sorted(idx)}', '',
                  where(prog, f, mx[0] if mx else assigns[0]))
        if mx:
            obs.check(body.index(mx[-1]) < body.index(assigns[-1]), rule, q, f'{arm_name}: max is applied before min',
                      'minimum precedes maximum', '', where(prog, f, assigns[-1]))
        if arm_name == 'corrected' and mx:
            scaled = [x for s in mx for x in ast.walk(s.value) if isinstance(x, ast.BinOp) and isinstance(x.op, ast.Mult)
                      and any(isinstance(y, ast.Subscript) and isinstance(y.value, ast.Name) and y.value.id == arrv
                              for y in ast.walk(x))]
            obs.check(len(scaled) >= 2, rule, q, 'corrected: the lower bounds are the n/(n-1)-corrected single-factor variances',
                      'single-factor variances are not scaled by n/(n-1) in the max', '', where(prog, f, mx[0]))


def axes(ctx, obs, rule='AXIS'):
    """Structural clauses decided by RECOGNISED forms: a recognised correct form discharges, a recognised wrong form (the model
    axis averaged away, a NaN-blind mean over resamples, a pairwise matrix that is only ever written on one side of the diagonal)
    is a violation, anything else is undecided.  Helpers of the same module that a test was split into are included."""
    from ..rules.common import call_closure
    prog = ctx.prog
    for fn in ('t_tests', 't_test_0', 't_test_nc', 'ranksum_pair_test', 'ranksum_value_test'):
        q = U + fn
        f = prog.func(q)
        red = []
        for g in call_closure(ctx, q):
            fg = prog.func(g)
            for c in ast.walk(fg.node):
                if isinstance(c, ast.Call) and _leaf(c.func) in ('nanmean', 'mean') and c.args:
                    ax = c.args[1] if len(c.args) > 1 else next((k.value for k in c.keywords if k.arg == 'axis'), None)
                    v = ax.value if isinstance(ax, ast.Constant) else (
                        -ax.operand.value if isinstance(ax, ast.UnaryOp) and isinstance(ax.operand, ast.Constant) else None)
                    red.append((fg, c, v))
        con = 'evaluations are averaged over axis 0 and trailing axes only (the model axis survives)'
        wrong = [(fg, c) for fg, c, v in red if v == 1]
        blind = [(fg, c) for fg, c, v in red if _leaf(c.func) == 'mean' and v in (0, -1)]
        if wrong:
            obs.bad(rule, q, con, f'`{norm(wrong[0][1])}` averages over axis 1, the model axis', where(prog, wrong[0][0], wrong[0][1]))
        elif any(v in (0, -1) for _, _, v in red):
            obs.ok(rule, q, con, '', where(prog, f, f.node))
        else:
            obs.unk(rule, q, con, 'no averaging over axis 0 / -1 recognised', where(prog, f, f.node))
        for fg, c in blind:
            obs.bad('MEANS', q, 'averaging over resamples / folds ignores NaN samples', f'`{norm(c)}` is NaN-blind', where(prog, fg, c))
        if not blind and red:
            obs.ok('MEANS', q, 'averaging over resamples / folds ignores NaN samples', '', where(prog, f, f.node))
    for fn in ('ranksum_pair_test', 'bootstrap_pair_tests'):
        q = U + fn
        f = prog.func(q)
        r = ctx.dep.result(q)
        out = None
        for node, _, _ in r.returns:
            if node is not None and isinstance(node.value, ast.Name):
                out = node.value.id
        writes = [s for s in ast.walk(f.node) if isinstance(s, ast.Assign) and isinstance(s.targets[0], ast.Subscript)
                  and isinstance(s.targets[0].value, ast.Name) and s.targets[0].value.id == out
                  and isinstance(s.targets[0].slice, ast.Tuple) and len(s.targets[0].slice.elts) == 2]
        pairs = {(ast.dump(s.targets[0].slice.elts[0]), ast.dump(s.targets[0].slice.elts[1])) for s in writes}
        mirrored = any((b, a) in pairs for a, b in pairs if a != b)
        symmetrised = any(isinstance(n, ast.Attribute) and n.attr == 'T' and isinstance(n.value, ast.Name) and n.value.id == out
                          for n in ast.walk(f.node)) or any(isinstance(c, ast.Call) and _leaf(c.func) in ('squareform', 'batch_to_matrices')
                                                            for c in ast.walk(f.node))
        con = 'the pairwise matrix is filled symmetrically (m[j, i] = m[i, j])'
        if mirrored or symmetrised:
            obs.ok(rule, q, con, '', where(prog, f, f.node))
        elif writes and all(a != b for a, b in pairs):
            obs.bad(rule, q, con, f'`{norm(writes[0])[:70]}` is the only kind of write into `{out}`: the entries on the other side of the '
                    f'diagonal are never set, so the pairwise p-value matrix is not symmetric', where(prog, f, writes[0]))
        else:
            obs.unk(rule, q, con, 'fill pattern of the pairwise matrix not recognised', where(prog, f, f.node))
        diag = [c for c in ast.walk(f.node) if isinstance(c, ast.Call) and _leaf(c.func) == 'fill_diagonal']
        ok = bool(diag) and all(len(c.args) == 2 and isinstance(c.args[1], ast.Constant) and c.args[1].value == 1 for c in diag)
        wrong_diag = [c for c in diag if len(c.args) == 2 and isinstance(c.args[1], ast.Constant) and c.args[1].value != 1]
        if wrong_diag:
            obs.bad(rule, q, 'the diagonal of the pairwise matrix is 1', f'`{norm(wrong_diag[0])}`', where(prog, f, wrong_diag[0]))
        else:
            obs.soft(ok, rule, q, 'the diagonal of the pairwise matrix is 1', f'{[norm(c) for c in diag]}', '', where(prog, f, f.node))
    # t_tests: two-sided via abs
    q = U + 't_tests'
    f = prog.func(q)
    ok = any(isinstance(c, ast.Call) and _leaf(c.func) in ('abs', 'absolute', 'fabs') for c in ast.walk(f.node))
    obs.soft(ok, rule, q, 'pairwise t-test is two-sided (|t|), hence symmetric', 'no abs() on the t statistic', '', where(prog, f, f.node))
    ok = any(isinstance(c, ast.Call) and _leaf(c.func) == 'pairwise_contrast' for c in ast.walk(f.node)) and \
        any(isinstance(c, ast.Call) and _leaf(c.func) == 'batch_to_matrices' for c in ast.walk(f.node))
    # pair orders: pairwise_contrast / squareform / batch_to_matrices / triu_indices(k=1) / combinations enumerate the pairs (i < j)
    # row by row of the UPPER triangle; np.tril_indices enumerates the lower triangle row by row, which is a different sequence of
    # pairs from four models on - a vector in one order must not be scattered with indices of the other
    upper = any(isinstance(c, ast.Call) and _leaf(c.func) == 'pairwise_contrast' for c in ast.walk(f.node))
    lower = [c for c in ast.walk(f.node) if isinstance(c, ast.Call) and _leaf(c.func) == 'tril_indices']
    if upper and lower:
        obs.bad(rule, q, 'differences follow the pairwise-contrast order when they are unfolded into the matrix',
                f'`{norm(lower[0])}` enumerates the pairs of the lower triangle row by row, the contrast vector is in upper-triangle order: '
                f'from four models on the p-values land at other model pairs', where(prog, f, lower[0]))
    else:
        obs.soft(ok, rule, q, 'differences follow the pairwise-contrast order and are unfolded with batch_to_matrices',
                 'contrast / unfolding pair not found', '', where(prog, f, f.node))


def means(ctx, obs, rule='MEANS'):
    prog = ctx.prog
    q = RES + 'get_means'
    f = prog.func(q)
    # over the trailing axes the average must be NaN-aware (folds / cv repetitions may be NaN)
    for c in ast.walk(f.node):
        if isinstance(c, ast.Call) and _leaf(c.func) in ('mean', 'nanmean'):
            ax = next((k.value for k in c.keywords if k.arg == 'axis'), None)
            v = ax.value if isinstance(ax, ast.Constant) else (-ax.operand.value if isinstance(ax, ast.UnaryOp) else None)
            if v == -1:
                obs.check(_leaf(c.func) == 'nanmean', rule, q, 'averages over trailing axes are NaN-aware',
                          f'`{norm(c)}`', '', where(prog, f, c))
    # resamples marked NaN (first fold of a model NaN) are dropped before the plain average over resamples.  Dataflow inside the
    # function: mask names (from isnan / isfinite), filtered names (x[mask]); a plain mean over axis 0 outside the arms for
    # 'fixed' / 'crossvalidation' must act on a filtered array (or be a nanmean)
    def has_nan_test(e, mask_names):
        return any((isinstance(x, ast.Call) and _leaf(x.func) in ('isnan', 'isfinite')) or (isinstance(x, ast.Name) and x.id in mask_names)
                   for x in ast.walk(e))
    mask_names, filtered = set(), set()
    changed = True
    while changed:
        changed = False
        for n in ast.walk(f.node):
            if isinstance(n, ast.Assign) and isinstance(n.targets[0], ast.Name):
                t = n.targets[0].id
                if isinstance(n.value, ast.Subscript) and has_nan_test(n.value.slice, mask_names):
                    if t not in filtered:
                        filtered.add(t)
                        changed = True
                elif not isinstance(n.value, ast.Subscript) and has_nan_test(n.value, mask_names) and t not in mask_names \
                        and not any(isinstance(x, ast.Call) and _leaf(x.func) in ('mean', 'nanmean') for x in ast.walk(n.value)):
                    mask_names.add(t)
                    changed = True
    plain_arms = set()
    for n in ast.walk(f.node):
        if isinstance(n, ast.If) and any(isinstance(x, ast.Constant) and x.value in ('fixed', 'crossvalidation') for x in ast.walk(n.test)):
            for b in n.body:
                plain_arms |= {id(x) for x in ast.walk(b)}
    con = 'NaN-marked resamples are dropped before averaging over resamples'
    decided = False
    for c in ast.walk(f.node):
        if not (isinstance(c, ast.Call) and _leaf(c.func) == 'mean') or id(c) in plain_arms:
            continue
        is_np = isinstance(c.func, ast.Attribute) and isinstance(c.func.value, ast.Name) and c.func.value.id in ('np', 'numpy')
        operand = (c.args[0] if c.args else None) if is_np else (c.func.value if isinstance(c.func, ast.Attribute) else None)
        ax = next((k.value for k in c.keywords if k.arg == 'axis'), (c.args[1] if is_np and len(c.args) > 1 else (c.args[0] if not is_np and c.args else None)))
        if not (isinstance(ax, ast.Constant) and ax.value == 0) or operand is None:
            continue
        decided = True
        if (isinstance(operand, ast.Name) and operand.id in filtered) or \
                (isinstance(operand, ast.Subscript) and has_nan_test(operand.slice, mask_names)):
            obs.ok(rule, q, con, f'`{norm(c)[:50]}` averages a filtered array', where(prog, f, c))
        elif isinstance(operand, ast.Name):
            obs.bad(rule, q, con, f'`{norm(c)[:60]}` averages `{operand.id}`, which was not filtered by a NaN mask: resamples without a '
                    f'valid evaluation enter the mean as NaN', where(prog, f, c))
        else:
            obs.unk(rule, q, con, f'`{norm(c)[:60]}`', where(prog, f, c))
    if not decided:
        nan_aware = any(isinstance(c, ast.Call) and _leaf(c.func) == 'nanmean' for c in ast.walk(f.node) if id(c) not in plain_arms)
        if nan_aware:
            obs.ok(rule, q, con, 'resamples are averaged with nanmean', where(prog, f, f.node))
        else:
            obs.unk(rule, q, con, 'no average over resamples recognised', where(prog, f, f.node))


def correct_1d(ctx, obs, rule='UNIFORM'):
    prog = ctx.prog
    q = U + '_correct_1d'
    f = prog.func(q)
    ok = False
    for n in ast.walk(f.node):
        if isinstance(n, ast.BinOp) and isinstance(n.op, ast.Div) and isinstance(n.left, ast.Name) \
                and isinstance(n.right, ast.BinOp) and isinstance(n.right.op, ast.Sub) and isinstance(n.right.left, ast.Name) \
                and n.right.left.id == n.left.id and isinstance(n.right.right, ast.Constant) and n.right.right.value == 1:
            ok = True
    obs.check(ok, rule, q, 'the documented factor n / (n - 1) is applied', 'no n / (n - 1) factor', '', where(prog, f, f.node))
    mn = [c for c in ast.walk(f.node) if isinstance(c, ast.Call) and _leaf(c.func) == 'min']
    obs.check(any({norm(a) for a in c.args} == {'n_rdm', 'n_pattern'} for c in mn), rule, q,
              'with both factors resampled the smaller count is used', 'no min(n_rdm, n_pattern)', '', where(prog, f, f.node))


def resampled_factor_counts(ctx, obs, rule='NFACTOR'):
    """extract_variances / _correct_1d apply the n/(n-1) factor for every count they are given ("If you bootstrapped only one factor
    only pass the N for that factor!").  Which factor a routine resamples is read off the bootstrap helper it calls; the Result it
    builds must then receive exactly the matching counts: rdm bootstrap -> n_rdm only, pattern bootstrap -> n_pattern only, joint
    bootstrap -> both, fixed evaluation (variance across RDMs) -> n_rdm only."""
    prog = ctx.prog
    E = 'inference.evaluate.'
    for fn in ('eval_fixed', 'eval_bootstrap', 'eval_bootstrap_rdm', 'eval_bootstrap_pattern', 'eval_dual_bootstrap'):
        q = E + fn
        f = prog.func(q)
        r = ctx.dep.result(q)
        boots = set()
        for c in r.calls:
            for g in c.callees:
                leaf = g.split('.')[-1]
                if leaf.startswith('bootstrap_sample'):
                    boots.add(leaf)
        if boots == {'bootstrap_sample_rdm'}:
            want = {'n_rdm': True, 'n_pattern': False}
        elif boots == {'bootstrap_sample_pattern'}:
            want = {'n_rdm': False, 'n_pattern': True}
        elif boots == {'bootstrap_sample'}:
            want = {'n_rdm': True, 'n_pattern': True}
        elif not boots:
            want = {'n_rdm': True, 'n_pattern': False}
        else:
            obs.unk(rule, q, 'counts handed to Result match the resampled factors', f'several bootstrap helpers: {sorted(boots)}',
                    where(prog, f, f.node))
            continue
        ctors = [c for c in r.calls if any(g.endswith('inference.result.Result.__init__') for g in c.callees)]
        for c in ctors:
            b = bound_args(prog, 'inference.result.Result.__init__', c)
            for p, given in want.items():
                e = b.get(p, (None, None))[0]
                is_none = e is None or (isinstance(e, ast.Constant) and e.value is None)
                what = 'rdm' if p == 'n_rdm' else 'pattern'
                con = f'{p} is {"given" if given else "withheld"} ({fn} {"resamples" if given else "does not resample"} the {what} factor)'
                if given:
                    obs.check(not is_none, rule, q, con, f'`{norm(c.node)[:60]}...` passes no {p}: the n/(n-1) correction for the resampled '
                              f'{what} factor is skipped', '', where(prog, f, c.node))
                else:
                    obs.check(is_none, rule, q, con, f'{p}=`{norm(e) if e is not None else None}` is handed to Result: the variance factor '
                              f'becomes min(n_rdm, n_pattern)/(min - 1) although only the other factor was resampled', '',
                              where(prog, f, c.node))


def variance_model_axis(ctx, obs, rule='AXIS'):
    """Result.__init__ decides whether the noise-ceiling rows are part of `variances` by comparing its size along the MODEL axis with
    the number of models.  extract_variances accepts 0-d, (m,), (m, m) and the (3, m, m) stack of the dual bootstrap (it indexes
    `variance[0..2]` in its 3-d arm), so only the last axis is a model axis for every layout."""
    prog = ctx.prog
    q = 'inference.result.Result.__init__'
    f = prog.func(q)
    qe = U + 'extract_variances'
    fe = prog.func(qe)
    has_stack = any(isinstance(n, ast.Compare) and isinstance(n.left, ast.Attribute) and n.left.attr == 'ndim'
                    and isinstance(n.comparators[0], ast.Constant) and n.comparators[0].value == 3 for n in ast.walk(fe.node)) or \
        any(isinstance(n, ast.Subscript) and isinstance(n.value, ast.Name) and n.value.id == fe.pos_params[0]
            and isinstance(n.slice, ast.Constant) and n.slice.value in (0, 1, 2) for n in ast.walk(fe.node))
    cmps = [n for n in ast.walk(f.node) if isinstance(n, ast.Compare) and any(
        isinstance(x, ast.Subscript) and isinstance(x.value, ast.Attribute) and x.value.attr == 'shape'
        and isinstance(x.value.value, ast.Name) and x.value.value.id == 'variances' for x in ast.walk(n))]
    if not cmps:
        obs.unk(rule, q, 'size of variances along the model axis is compared with the number of models', 'comparison not found',
                where(prog, f, f.node))
        return
    for n in cmps:
        sub = [x for x in ast.walk(n) if isinstance(x, ast.Subscript) and isinstance(x.value, ast.Attribute) and x.value.attr == 'shape'][0]
        k = sub.slice.value if isinstance(sub.slice, ast.Constant) else (
            -sub.slice.operand.value if isinstance(sub.slice, ast.UnaryOp) and isinstance(sub.slice.op, ast.USub)
            and isinstance(sub.slice.operand, ast.Constant) else None)
        con = 'the presence of noise-ceiling rows is read off the last (model) axis of variances'
        if k == -1:
            obs.ok(rule, q, con, f'`{norm(n)}`', where(prog, f, n))
        elif k == 0 and has_stack:
            obs.bad(rule, q, con, f'`{norm(n)}` looks at axis 0, which is the stack of three covariances for the dual bootstrap: with three '
                    f'models (or any number other than three without noise-ceiling rows) the flag is wrong and the variances are read '
                    f'from the wrong rows', where(prog, f, n))
        else:
            obs.unk(rule, q, con, f'`{norm(n)}`: axis {k}', where(prog, f, n))
