"""C05 - Folds partition the data and test data never influence fitting (structural clauses)."""
from __future__ import annotations
import ast
from typing import List, Optional

from ..flow import depends_on_param, params_of
from ..rules.common import (sig_conformance, where, norm, Inliner, mentions, calls_to, bound_args, expr_sources,
                            is_complement_of)

EXPLANATION = (
    'Static necessary-condition analysis of inference/crossvalsets.py, evaluate.crossval, noise_ceiling and the fitters: '
    '(SIG) every call to a repo function binds to its signature; (NI) the arguments handed to the fitter in crossval do '
    'not depend on the test set, ceil set or full data (proof by absence of an explicit-flow path), the score depends on '
    'the training set only through theta (cut-variable analysis), fitters keep no module state; (COMPL) in every sets_* '
    'generator the training selection is the complement of the test selection within the same universe, selected by the '
    'same method and descriptor; (CEIL) ceiling sets derive from the training RDMs and never from the test RDMs; '
    '(GROUP) bootstrap multiplicities are expanded on both sides. Fold sizes, exhaustive coverage and element-level '
    'perturbation statements are NOT decided.'
    ' Also: (SEL-DESC) the RDMs selectors the set generators rely on find positions from the descriptor VALUES in every arm.'
    ' Round 6: (TEST-RDMS) the test entries of sets_k_fold are cut from the test RDMs unconditionally.')
ASSUMPTIONS = [
    'NI proofs are at variable level on explicit (data) flows: array elements are not tracked; control dependence on '
    'test-set *sizes* (the n_rdm == 0 / n_cond <= 2 guards) is not a leak of values and is ignored for this clause',
    'complement idioms accepted: setdiff1d(U, x), setdiff1d(arange(len(U)), idx), arange(n)/arange(n, len(U)), '
    'identity arm under k <= 1 / n == 0',
]
FLOOR = 40
RULE_FLOORS = {'NI': 6, 'COMPL': 6}
ANALYSED_FLOORS = {'sig_calls_checked': 400}

CV = 'inference.crossvalsets.'
GENERATORS = ['sets_leave_one_out_pattern', 'sets_leave_one_out_rdm', 'sets_k_fold', 'sets_k_fold_rdm',
              'sets_k_fold_pattern', 'sets_random']
WRAPPERS = {'sets_of_k_rdm': 'sets_k_fold_rdm', 'sets_of_k_pattern': 'sets_k_fold_pattern'}
SELECTORS = ('subset', 'subsample', 'subset_pattern', 'subsample_pattern')


def test_entries_from_test_rdms(ctx, obs, rule='TEST-RDMS'):
    """sets_k_fold splits the patterns of the TRAINING RDMs with sets_k_fold_pattern, which also returns "test" entries cut from those
    training RDMs; every one of them has to be replaced by the same patterns of the TEST RDMs.  The replacement
    `test_new[i][0] = rdms_test.subset_pattern(..)` must therefore run for every fold - under a condition on an option (k_pattern)
    the folds for which it is false keep training RDMs as their test data."""
    prog = ctx.prog
    q = CV + 'sets_k_fold'
    f = prog.func(q)
    stores = [st for st in ast.walk(f.node) if isinstance(st, ast.Assign) and isinstance(st.targets[0], ast.Subscript)
              and isinstance(st.value, ast.Call) and isinstance(st.value.func, ast.Attribute) and st.value.func.attr in ('subset_pattern', 'subsample_pattern')
              and isinstance(st.value.func.value, ast.Name) and 'test' in st.value.func.value.id]
    con = 'the test entries of every fold are cut from the test RDMs'
    if not stores:
        obs.unk(rule, q, con, 'no `test_new[i][0] = rdms_test.subset_pattern(..)` store recognised', where(prog, f, f.node))
        return
    parents = {}
    for p_ in ast.walk(f.node):
        for ch in ast.iter_child_nodes(p_):
            parents[id(ch)] = p_
    for st in stores:
        guards = []
        n = parents.get(id(st))
        while n is not None and n is not f.node:
            if isinstance(n, ast.If):
                guards.append(n)
            n = parents.get(id(n))
        opt = [g for g in guards if any(isinstance(x, ast.Name) and x.id in f.params for x in ast.walk(g.test))]
        if opt:
            obs.bad(rule, q, con, f'`{norm(st)[:70]}` only runs when `{norm(opt[0].test)[:40]}`: otherwise the test entries remain the cut of '
                    f'the TRAINING RDMs that sets_k_fold_pattern returned - models are tested on the data they were fitted to',
                    where(prog, f, st))
        elif guards:
            obs.unk(rule, q, con, f'`{norm(st)[:70]}` is guarded by `{norm(guards[0].test)[:40]}`', where(prog, f, st))
        else:
            obs.ok(rule, q, con, '', where(prog, f, st))


def factor_pairing(ctx, obs, rule='FACTOR'):
    """Set generators that fold over two factors keep them apart: a quantity derived from the RDM grouping (rdm_descriptor) is
    combined (%, //, /, *, comparison, range) only with the RDM fold count (k_rdm / n_rdm), a quantity derived from the pattern
    grouping only with k_pattern / n_pattern.  Lineage comes from the dependence engine (data sources of the two operands); operands
    that descend from both or neither factor are not judged."""
    from ..rules.common import expr_sources
    prog = ctx.prog
    pairs = (('rdm_descriptor', ('k_rdm', 'n_rdm')), ('pattern_descriptor', ('k_pattern', 'n_pattern')))
    n = 0
    for q, f in sorted(prog.functions.items()):
        if not q.startswith('inference.crossvalsets.'):
            continue
        ps = set(f.params)
        if not all(d in ps and (set(ks) & ps) for d, ks in pairs):
            continue
        r = ctx.dep.result(q)

        def factor(e, kind):
            t = expr_sources(r, e)
            has = {}
            for d, ks in pairs:
                names = (d,) if kind == 'group' else ks
                has[d] = any(('P:' + nm) in t for nm in names)
            on = [d for d in has if has[d]]
            return on[0] if len(on) == 1 else None
        for e in ast.walk(f.node):
            ops = []
            if isinstance(e, ast.BinOp) and isinstance(e.op, (ast.Mod, ast.FloorDiv, ast.Div, ast.Mult)):
                ops = [(e.left, e.right), (e.right, e.left)]
            elif isinstance(e, ast.Compare) and len(e.ops) == 1:
                ops = [(e.left, e.comparators[0]), (e.comparators[0], e.left)]
            for a, b in ops:
                fa, fb = factor(a, 'group'), factor(b, 'count')
                # the count side is the fold count of ONE factor (its default may be derived from the grouping of that same factor);
                # the other side carries no fold count at all
                gb = factor(b, 'group')
                tb = expr_sources(r, b)
                both_groups = all(('P:' + d) in tb for d, _ in pairs)
                ta = expr_sources(r, a)
                a_has_count = any(('P:' + k) in ta for _, ks in pairs for k in ks)
                if fa is None or fb is None or both_groups or (gb is not None and gb != fb) or a_has_count:
                    continue
                n += 1
                con = 'a quantity of one factor is combined with the fold count of the same factor'
                if fa == fb:
                    obs.ok(rule, q, con, f'`{norm(e)[:60]}`', where(prog, f, e))
                else:
                    obs.bad(rule, q, con, f'`{norm(e)[:70]}` combines a quantity derived from {fa} with the fold count of '
                            f'{fb.replace("_descriptor", "")}s: remainders / fold sizes of the two factors are mixed up whenever the two '
                            f'counts differ', where(prog, f, e))
                break
    obs.analysed['factor_pairings'] = n


def run(ctx, obs):
    from .c10 import keep_index
    keep_index(ctx, obs)
    # the set generators select by descriptor VALUE (subset / subsample ...): the selectors find the positions from the values
    test_entries_from_test_rdms(ctx, obs)
    from ..rules.containers import selection_consults_descriptor
    for _m in SELECTORS:
        selection_consults_descriptor(ctx, obs, 'rdm.rdms.RDMs.' + _m)
    loo_boundary(ctx, obs, 'inference.crossvalsets.sets_leave_one_out_rdm')
    for _q in ('sets_k_fold', 'sets_k_fold_rdm', 'sets_k_fold_pattern'):
        kfold_partition(ctx, obs, 'inference.crossvalsets.' + _q)
    from ..rules import sweeps
    sweeps.run(ctx, obs, 'C05')
    from ..rules import order as _ord
    _ord.report(ctx, obs, ['inference.crossvalsets.'])
    factor_pairing(ctx, obs)
    prog, dep = ctx.prog, ctx.dep
    # 1. SIG over the whole non-vis package
    n = sig_conformance(ctx, obs, [''], report_ok=False)
    prefixes_skipped = ('vis.', 'io.petnames', 'test.')
    obs.ok('SIG', '<package>', f'all {n} uniquely resolved repo-to-repo calls bind to their signatures'
           if not any(o.rule == 'SIG' and o.verdict == 'violated' for o in obs.items)
           else f'{n} uniquely resolved repo-to-repo calls checked', f'scope: all modules except {prefixes_skipped}')
    obs.analysed['sig_calls_checked'] = n
    # 2/3. NI in crossval
    no_leak_crossval(ctx, obs)
    fitters_stateless(ctx, obs)
    # 4. complement idioms
    for g in GENERATORS:
        complement(ctx, obs, CV + g)
    for w, g in WRAPPERS.items():
        wrapper(ctx, obs, CV + w, CV + g)
    # 6. group integrity: expansion on both sides
    for q in ('inference.evaluate._internal_cv', 'inference.evaluate.eval_dual_bootstrap_random'):
        concat_both_sides(ctx, obs, q)


def no_leak_crossval(ctx, obs, rule='NI'):
    prog, dep = ctx.prog, ctx.dep
    q = 'inference.evaluate.crossval'
    f = prog.func(q)
    r = dep.analyze(q, data_only=True)
    fit_calls = [c for c in r.calls if c.fn_text.startswith('fitter[') or c.fn_text == 'fitter'
                 or (isinstance(c.node.func, ast.Subscript))]
    if not fit_calls:
        obs.unk(rule, q, 'fitter call', 'no call through the fitter list recognised')
        return
    forbidden = ['test_set', 'ceil_set', 'rdms']
    for c in fit_calls:
        allsrc = c.all_args()
        for p in forbidden:
            obs.check(not depends_on_param(allsrc, p), rule, q,
                      f'arguments of the fitter call do not derive from `{p}`',
                      f'`{norm(c.node)[:100]}`: an argument derives from parameter `{p}` - test data can influence '
                      f'the fitted parameters', 'no explicit-flow path', where(prog, f, c.node))
        obs.check(depends_on_param(allsrc, 'train_set'), 'ND', q, 'the fitter receives the training set',
                  'no argument of the fitter call derives from train_set', '', where(prog, f, c.node))
        b = {k: v for k, v in c.args}
        for kw in ('pattern_idx', 'pattern_descriptor', 'method'):
            src = b.get(kw)
            want = {'pattern_idx': 'train_set', 'pattern_descriptor': 'pattern_descriptor', 'method': 'method'}[kw]
            obs.check(src is not None and depends_on_param(src, want), 'FWD', q,
                      f'fitter receives {kw} from {want}', f'`{norm(c.node)[:100]}` does not pass {kw} from `{want}`', '',
                      where(prog, f, c.node))
    # score depends on the training set only through the fitted parameters (the variable the fitter result is bound to)
    theta_names = set()
    for st in ast.walk(f.node):
        if isinstance(st, ast.Assign) and isinstance(st.targets[0], ast.Name) and any(st.value is c.node for c in fit_calls):
            theta_names.add(st.targets[0].id)
    if not theta_names:
        obs.unk(rule, q, 'fitted parameters are bound to a variable', 'fitter result is not assigned to a plain name')
        return
    r2 = dep.analyze(q, data_only=True, cut=theta_names)
    cmp_calls = [c for c in r2.calls if any(x.endswith('rdm.compare.compare') for x in c.callees)]
    if not cmp_calls:
        from ..model import AnalysisError
        raise AnalysisError('crossval: no call to rdm.compare.compare found - the scoring site vanished')
    for c in cmp_calls:
        allsrc = c.all_args()
        obs.check(not depends_on_param(allsrc, 'train_set'), rule, q,
                  'with theta held fixed the fold score does not derive from train_set',
                  f'`{norm(c.node)[:100]}`: an argument derives from train_set by a path that avoids theta', '',
                  where(prog, f, c.node))
        a0, a1 = c.arg(0) or frozenset(), c.arg(1) or frozenset()
        obs.check(any(('CUT:' + t) in a0 for t in theta_names), 'ND', q, 'the prediction compared is the one at the fitted theta',
                  'first argument of compare does not derive from theta', '', where(prog, f, c.node))
        obs.check(depends_on_param(a1, 'test_set') and not depends_on_param(a1, 'train_set'), 'ND', q,
                  'the data compared are the test RDMs of the fold', 'second argument of compare is not the test fold',
                  '', where(prog, f, c.node))
    # prediction is restricted to the test patterns
    r3 = dep.analyze(q, data_only=True)
    for c in r3.calls:
        if c.attr == 'subsample_pattern' and any(t.startswith('CALL:') and 'predict_rdm' in t for t in c.recv):
            v = c.arg('value') or c.arg(1) or frozenset()
            obs.check(depends_on_param(v, 'test_set') and not depends_on_param(v, 'train_set'), 'ND', q,
                      'the prediction is restricted to the test conditions of the fold',
                      f'`{norm(c.node)[:90]}` does not select the test fold\'s conditions', '', where(prog, f, c.node))


def fitters_stateless(ctx, obs, rule='NI'):
    """fitters read no module-level mutable state and do not write into model / data"""
    prog, dep = ctx.prog, ctx.dep
    for q, fi in sorted(prog.functions.items()):
        if not (q.startswith('model.fitter.') and fi.parent is None):
            continue
        r = dep.result(q)
        g = {t for t in r.ret if t.startswith('G:') and t[2:] in _mutable_globals(prog)}
        obs.check(not g, rule, q, 'result depends on no module-level variable that is written at run time',
                  f'result depends on module state {sorted(g)}: a fit can depend on earlier fits', '',
                  where(prog, fi, fi.node))


def _mutable_globals(prog):
    """module-level names that some function can change: rebinding through `global x`, or an in-place update (x[k] = v,
    x.append(...), x.update(...), x += ...) of a module-level name inside a function.  Tables that are only read are constants."""
    cache = getattr(prog, '_mutable_globals', None)
    if cache is not None:
        return cache
    out = set()
    mut = {'append', 'extend', 'update', 'insert', 'pop', 'popitem', 'clear', 'remove', 'setdefault', 'sort', 'add', 'discard'}
    for mname, m in prog.modules.items():
        top = {t.id for s_ in m.tree.body if isinstance(s_, (ast.Assign, ast.AnnAssign))
               for t in (s_.targets if isinstance(s_, ast.Assign) else [s_.target]) if isinstance(t, ast.Name)}
        for fn in [n for n in ast.walk(m.tree) if isinstance(n, ast.FunctionDef)]:
            declared = {x for n in ast.walk(fn) if isinstance(n, ast.Global) for x in n.names}
            local = {n.id for n in ast.walk(fn) if isinstance(n, ast.Name) and isinstance(n.ctx, ast.Store)} - declared
            for n in ast.walk(fn):
                if isinstance(n, ast.Name) and isinstance(n.ctx, ast.Store) and n.id in declared:
                    out.add(f'{mname}.{n.id}')
                if isinstance(n, (ast.Assign, ast.AugAssign)):
                    for t in (n.targets if isinstance(n, ast.Assign) else [n.target]):
                        if isinstance(t, ast.Subscript) and isinstance(t.value, ast.Name) and t.value.id in top and t.value.id not in local:
                            out.add(f'{mname}.{t.value.id}')
                if isinstance(n, ast.Call) and isinstance(n.func, ast.Attribute) and n.func.attr in mut \
                        and isinstance(n.func.value, ast.Name) and n.func.value.id in top and n.func.value.id not in local:
                    out.add(f'{mname}.{n.func.value.id}')
    prog._mutable_globals = out
    return out


def _ret_names(f, r):
    for node, _, _ in r.returns:
        if node is not None and isinstance(node.value, ast.Tuple) and len(node.value.elts) == 3:
            return node.value.elts
    return None


def complement(ctx, obs, q, rule='COMPL'):
    prog, dep = ctx.prog, ctx.dep
    f = prog.func(q)
    r = dep.result(q)
    rets = _ret_names(f, r)
    if rets is None:
        obs.unk(rule, q, 'returns (train, test, ceil)', 'no 3-tuple return')
        return
    src = [expr_sources(r, e) for e in rets]
    sel = [c for c in r.calls if c.attr in SELECTORS and len(c.node.args) + len(c.node.keywords) >= 2]
    train_tok, test_tok, ceil_tok = ({c.token for c in sel if c.token in s} for s in src)
    train_calls = [c for c in sel if c.token in train_tok]
    test_calls = [c for c in sel if c.token in test_tok and c.token not in train_tok]
    ceil_only = [c for c in sel if c.token in ceil_tok and c.token not in train_tok and c.token not in test_tok]
    inl = Inliner(r, None, ('rdms',))
    has_identity_guard = _identity_guard(f)
    if not train_calls or not test_calls:
        obs.unk(rule, q, 'train/test selection calls', f'train={len(train_calls)} test={len(test_calls)}')
        return
    for t in train_calls:
        same = [s for s in test_calls if s.attr == t.attr]
        if not same:
            # e.g. sets_k_fold: pattern split of the training RDMs happens in the callee
            continue
        tv = _sel_args(t)
        best = None
        for s in same:
            sv = _sel_args(s)
            if tv is None or sv is None:
                continue
            desc_same = ast.dump(inl.inline(tv[0])) == ast.dump(inl.inline(sv[0]))
            verdict = _complement_pair(inl.inline(tv[1]), inl.inline(sv[1]), has_identity_guard)
            if best is None or (verdict is True) or (best[0] is None and verdict is False):
                best = (verdict, desc_same, s)
            if verdict is True and desc_same:
                break
        if best is None:
            obs.unk(rule, q, f'{t.attr} #{t.ordinal}: complement of the test selection', 'arguments not recognised')
            continue
        verdict, desc_same, s = best
        con = f'{t.attr}: training selection #{t.ordinal} is the complement of the test selection'
        if verdict is None:
            obs.unk(rule, q, con, f'train `{norm(t.node)[:70]}` / test `{norm(s.node)[:70]}`: idiom not recognised')
        else:
            obs.check(verdict, rule, q, con,
                      f'train `{norm(t.node)[:80]}` vs test `{norm(s.node)[:80]}`: the training selection is not the '
                      f'complement of the test selection within the same set of groups - test groups leak into training '
                      f'(or groups are lost)', '', where(prog, f, t.node))
        obs.check(desc_same, 'GROUP', q, f'{t.attr}: train and test are selected by the same descriptor',
                  f'`{norm(t.node)[:80]}` and `{norm(s.node)[:80]}` select by different descriptors: members of one group '
                  f'can end up on both sides', '', where(prog, f, t.node))
    # ceiling sets: from training RDMs (or all RDMs when no RDM split), never from the test RDM selection
    rdm_split_test = [c for c in test_calls if c.attr in ('subset', 'subsample')]
    csrc = src[2]
    if isinstance(rets[2], ast.Constant) and rets[2].value is None or not csrc:
        obs.ok('CEIL', q, 'no ceiling set provided (None)', '')
    else:
        leak = [c for c in rdm_split_test if c.token in csrc]
        obs.check(not leak, 'CEIL', q, 'ceiling set does not derive from the test RDM selection',
                  f'ceil_set derives from `{norm(leak[0].node)[:80]}`: the lower noise ceiling would be fitted on the '
                  f'test RDMs' if leak else '', '', where(prog, f, rets[2]))
        if rdm_split_test:
            rdm_split_train = [c for c in train_calls if c.attr in ('subset', 'subsample')]
            obs.check(any(c.token in csrc for c in rdm_split_train), 'CEIL', q,
                      'ceiling set derives from the training RDM selection',
                      'ceil_set does not derive from the training RDMs', '', where(prog, f, rets[2]))
        # ceil patterns are the test patterns
        for c in ceil_only:
            if c.attr in ('subset_pattern', 'subsample_pattern'):
                cv = _sel_args(c)
                ok = cv is not None and any(
                    _sel_args(s) is not None and ast.dump(inl.inline(_sel_args(s)[1])) == ast.dump(inl.inline(cv[1]))
                    for s in test_calls if s.attr == c.attr)
                obs.check(ok, 'CEIL', q, 'ceiling set is restricted to the test conditions',
                          f'`{norm(c.node)[:80]}` does not use the test pattern selection', '', where(prog, f, c.node))


def _sel_args(c):
    """(descriptor expr, value expr) of a selector call"""
    a = list(c.node.args)
    kw = {k.arg: k.value for k in c.node.keywords}
    by = a[0] if len(a) > 0 else kw.get('by')
    val = a[1] if len(a) > 1 else kw.get('value')
    if by is None or val is None:
        return None
    return by, val


def _identity_guard(f) -> bool:
    """some `if` whose test implies `k <= 1` for a parameter k (the test itself, or a conjunct of an `and`)"""
    # locals that are plain copies of a parameter (inlined helpers bind their parameters to locals)
    copies = set()
    for _ in range(3):
        for s_ in ast.walk(f.node):
            if isinstance(s_, ast.Assign) and len(s_.targets) == 1 and isinstance(s_.targets[0], ast.Name) and isinstance(s_.value, ast.Name) \
                    and (s_.value.id in f.params or s_.value.id in copies):
                copies.add(s_.targets[0].id)

    def implies_single_fold(t) -> bool:
        if isinstance(t, ast.BoolOp) and isinstance(t.op, ast.And):
            return any(implies_single_fold(v) for v in t.values)
        if isinstance(t, ast.Compare) and len(t.ops) == 1 and isinstance(t.left, ast.Name) and (t.left.id in f.params or t.left.id in copies) \
                and isinstance(t.comparators[0], ast.Constant):
            op, c = t.ops[0], t.comparators[0].value
            return (isinstance(op, (ast.LtE, ast.Eq)) and c in (0, 1)) or (isinstance(op, ast.Lt) and c in (1, 2))
        return False
    return any(isinstance(s, ast.If) and implies_single_fold(s.test) for s in ast.walk(f.node))


def _alts(e) -> List[ast.expr]:
    if isinstance(e, ast.Call) and isinstance(e.func, ast.Name) and e.func.id == 'PHI':
        out = []
        for a in e.args:
            out += _alts(a)
        return out
    return [e]


def _leaf(fn):
    return fn.attr if isinstance(fn, ast.Attribute) else (fn.id if isinstance(fn, ast.Name) else '')


def _listcomp_index(e) -> Optional[tuple]:
    """[U[int(idx)] for idx in IDX]  -> (U, IDX)"""
    if isinstance(e, ast.ListComp) and len(e.generators) == 1 and isinstance(e.elt, ast.Subscript):
        g = e.generators[0]
        return e.elt.value, g.iter
    return None


def _is_arange_len(e, U) -> bool:
    return isinstance(e, ast.Call) and _leaf(e.func) == 'arange' and len(e.args) == 1 \
        and isinstance(e.args[0], ast.Call) and _leaf(e.args[0].func) == 'len' and e.args[0].args \
        and ast.dump(e.args[0].args[0]) == ast.dump(U)


def _complement_pair(et, es, identity_ok) -> Optional[bool]:
    """is the train index-set expression `et` the complement of the test expression `es`?"""
    # (i) leave-one-out: test = [x], train = setdiff1d(U, x)
    if isinstance(es, ast.List) and len(es.elts) == 1:
        x = es.elts[0]
        res = []
        for alt in _alts(et):
            c = is_complement_of(alt, lambda u: True, lambda rm: ast.dump(rm) == ast.dump(x))
            res.append(c)
        if all(c is True for c in res):
            # universe must be the iterable x is drawn from
            return True
        if any(c is False for c in res):
            return False
        return None
    # (ii) index lists built from the same universe
    lt, ls = _listcomp_index(et), _listcomp_index(es)
    if lt and ls:
        Ut, It = lt
        Us, Is = ls
        if ast.dump(Ut) != ast.dump(Us):
            return False
        U = Ut
        t_alts, s_alts = _alts(It), _alts(Is)
        s_dumps = {ast.dump(a) for a in s_alts}
        whole_s = ast.dump(Is)
        verdicts = []
        for a in t_alts:
            c = is_complement_of(a, lambda u: _is_arange_len(u, U) or ast.dump(u) == ast.dump(U),
                                 lambda rm: ast.dump(rm) == whole_s or ast.dump(rm) in s_dumps)
            if c is True:
                verdicts.append(True)
                continue
            if c is False:
                verdicts.append(False)
                continue
            # split idiom: arange(n, len(U)) against arange(n)
            if isinstance(a, ast.Call) and _leaf(a.func) == 'arange' and len(a.args) == 2 \
                    and isinstance(a.args[1], ast.Call) and _leaf(a.args[1].func) == 'len':
                n = a.args[0]
                ok = any(isinstance(sa, ast.Call) and _leaf(sa.func) == 'arange' and len(sa.args) == 1
                         and ast.dump(sa.args[0]) == ast.dump(n) for sa in s_alts)
                verdicts.append(ok)
                continue
            # the whole universe as training selection: only the documented identity arm (train == test == all)
            if _is_arange_len(a, U):
                verdicts.append(bool(identity_ok and any(_is_arange_len(sa, U) for sa in s_alts)))
                continue
            # identity arm (documented k <= 1 / n == 0 case): train == test == everything
            if ast.dump(a) in s_dumps or ast.dump(a) == whole_s:
                verdicts.append(True if identity_ok else False)
                continue
            verdicts.append(None)
        if any(v is False for v in verdicts):
            return False
        if all(v is True for v in verdicts) and verdicts:
            return True
        return None
    return None


def wrapper(ctx, obs, q, target, rule='FWD'):
    """sets_of_k_* hand their arguments to the k-fold generator in the slots that generator has"""
    prog = ctx.prog
    f = prog.func(q)
    r = ctx.dep.result(q)
    cs = calls_to(r, target)
    if not cs:
        obs.bad(rule, q, f'delegates to {target}', f'no call to {target}', where(prog, f, f.node))
        return
    for c in cs:
        b = bound_args(prog, target, c)
        tf = prog.func(target)
        for p in ('rdms', 'random'):
            obs.check(p in b and depends_on_param(b[p][1], p), rule, q, f'{p} is passed on to {target}',
                      f'`{norm(c.node)[:100]}` does not pass `{p}`', '', where(prog, f, c.node))
        kparam = [p for p in tf.params if p.startswith('k')]
        ok = any(p in b and depends_on_param(b[p][1], 'k') for p in kparam)
        obs.check(ok, rule, q, f'the number of groups (from k) reaches {target}',
                  f'`{norm(c.node)[:100]}`: the group count derived from `k` is not bound to a parameter of '
                  f'{target} (parameters: {tf.params})', '', where(prog, f, c.node))
        dparam = [p for p in f.params if p.endswith('descriptor')]
        for p in dparam:
            obs.check(p in b and depends_on_param(b[p][1], p), rule, q, f'{p} is passed on to {target}',
                      f'`{norm(c.node)[:100]}` does not pass `{p}`', '', where(prog, f, c.node))


def concat_both_sides(ctx, obs, q, rule='GROUP'):
    prog = ctx.prog
    f = prog.func(q)
    r = ctx.dep.result(q)
    cs = [c for c in r.calls if any(x.endswith('_concat_sampling') for x in c.callees)]
    # the (train, test, ceil) triple produced by the fold generator
    names = None
    for st in ast.walk(f.node):
        if isinstance(st, ast.Assign) and isinstance(st.targets[0], ast.Tuple) and len(st.targets[0].elts) == 3 \
                and isinstance(st.value, ast.Call) and getattr(st.value.func, 'id', getattr(st.value.func, 'attr', '')).startswith('sets_') \
                and all(isinstance(t, ast.Name) for t in st.targets[0].elts):
            names = [t.id for t in st.targets[0].elts]
    if names is None:
        obs.unk(rule, q, 'fold triple (train, test, ceil)', 'no `a, b, c = sets_*(...)` unpacking found')
        return
    sides = set()
    for c in cs:
        a0 = c.arg(0) or frozenset()
        obs.check(depends_on_param(a0, 'pattern_idx') or any('bootstrap_sample' in t for t in a0), rule, q,
                  f'_concat_sampling #{c.ordinal} expands by the bootstrap pattern sample',
                  f'`{norm(c.node)}` first argument is not the bootstrap pattern index', '', where(prog, f, c.node))
        for n in ast.walk(f.node):
            if isinstance(n, ast.For) and any(x is c.node for x in ast.walk(n)) and isinstance(n.iter, ast.Name):
                if n.iter.id == names[0]:
                    sides.add('train')
                elif n.iter.id == names[1]:
                    sides.add('test')
    obs.check({'train', 'test'} <= sides, rule, q,
              'bootstrap multiplicities are expanded for both the training and the test pattern lists',
              f'_concat_sampling is applied to the {sorted(sides)} side only: train and test sides would disagree on multiplicity',
              '', where(prog, f, f.node))


# ------------------------------------------------------------------------------------------- PART (k-fold index arithmetic)
def kfold_partition(ctx, obs, q, rule='PART'):
    """k-fold generators: n = k*g + a items (g = floor(n/k), a = n % k).  Fold i tests the block [i*g, (i+1)*g) and, for i < a, one
    extra item E(i).  The folds partition 0..n-1 iff the blocks are those consecutive ranges and the extras are distinct elements
    of the tail [k*g, n).  E(i) is read as a linear form over n, a, i and decided on the cone {a >= 1, 0 <= i <= a-1} by its
    vertex and its two rays (a linear function is non-negative on a cone iff it is so there)."""
    prog = ctx.prog
    f = prog.func(q)
    # symbols from the code: g = floor(len(X) / k) ; a = len(X) % k
    gname = aname = nsrc = kname = None
    for s in ast.walk(f.node):
        if isinstance(s, ast.Assign) and isinstance(s.targets[0], ast.Name):
            v = s.value
            if isinstance(v, ast.BinOp) and isinstance(v.op, ast.Mod) and isinstance(v.left, ast.Call) and _leaf(v.left.func) == 'len':
                aname, nsrc, kname = s.targets[0].id, norm(v.left), norm(v.right)
            inner = v.args[0] if isinstance(v, ast.Call) and _leaf(v.func) in ('floor', 'int') and v.args else v
            if isinstance(inner, ast.BinOp) and isinstance(inner.op, (ast.Div, ast.FloorDiv)) and isinstance(inner.left, ast.Call) \
                    and _leaf(inner.left.func) == 'len':
                gname = s.targets[0].id
    loops = [lp for lp in ast.walk(f.node) if isinstance(lp, ast.For) and isinstance(lp.iter, ast.Call) and _leaf(lp.iter.func) == 'range'
             and isinstance(lp.target, ast.Name)]
    if not (gname and aname and loops):
        obs.unk(rule, q, 'k-fold index arithmetic', 'group size / remainder / fold loop not recognised', where(prog, f, f.node))
        return
    for lp in loops:
        i = lp.target.id
        blocks = [s for s in lp.body if isinstance(s, ast.Assign) and isinstance(s.value, ast.Call) and _leaf(s.value.func) == 'arange'
                  and len(s.value.args) == 2]
        if not blocks:
            continue
        b = blocks[0]
        lo, hi = (norm(x).replace(' ', '') for x in b.value.args)
        ok_block = lo in (f'{i}*{gname}', f'{gname}*{i}') and hi in (f'({i}+1)*{gname}', f'{gname}*({i}+1)', f'{i}*{gname}+{gname}')
        obs.soft(ok_block, rule, q, 'fold i tests the consecutive block [i*g, (i+1)*g)', f'`{norm(b)[:80]}`', '', where(prog, f, b))
        for g in lp.body:
            if isinstance(g, ast.If) and isinstance(g.test, ast.Compare) and len(g.test.ops) == 1 and isinstance(g.test.ops[0], ast.Lt) \
                    and norm(g.test.left) == i and norm(g.test.comparators[0]) == aname:
                # the extra element(s) appended in this arm
                extras = []
                for c in ast.walk(g):
                    if isinstance(c, ast.Call) and _leaf(c.func) in ('concatenate', 'append', 'hstack', 'r_') :
                        for x in ast.walk(c):
                            if isinstance(x, ast.List) and len(x.elts) == 1:
                                extras.append(x.elts[0])
                local = {s.targets[0].id: s.value for s in g.body if isinstance(s, ast.Assign) and isinstance(s.targets[0], ast.Name)}
                for e in extras:
                    if isinstance(e, ast.Name) and e.id in local:
                        e = local[e.id]
                    lin = _lin_nai(e, nsrc, aname, i, gname, kname)
                    con = 'the extra item of fold i is a distinct element of the tail [k*g, n)'
                    if lin is None:
                        obs.unk(rule, q, con, f'`{norm(e)}` is not linear in n, k*g, the remainder and the fold index', where(prog, f, g))
                        continue
                    cn, ca, ci, c0, ckg = lin
                    # with n = k*g + a:  E = (cn + ckg)*k*g + (cn + ca)*a + ci*i + c0 ; relative to the tail start k*g the
                    # coefficient of k*g must be exactly 1
                    if cn + ckg != 1:
                        obs.bad(rule, q, con, f'`{norm(e)}` is not an offset into the tail (it is {cn + ckg} * k*g + ...)', where(prog, f, g))
                        continue
                    A = cn + ca          # E = k*g + A*a + ci*i + c0
                    # substitute i = a - 1 - j (0 <= j <= a-1):  low(a, j) = E - k*g = (A + ci)*a - ci*j + (c0 - ci)   must be >= 0
                    #                                            up(a, j)  = n - 1 - E = (1 - A - ci)*a + ci*j + (ci - c0 - 1) >= 0
                    def nonneg(pa, pj, p0):
                        return (pa + p0 >= 0) and (pa >= 0) and (pa + pj >= 0)     # vertex (a=1,j=0), rays (1,0) and (1,1)
                    low = nonneg(A + ci, -ci, c0 - ci)
                    up = nonneg(1 - A - ci, ci, ci - c0 - 1)
                    inj = ci != 0
                    obs.check(low and up and inj, rule, q, con,
                              f'`{norm(e)}` = k*g {A:+d}*a {ci:+d}*i {c0:+d}: ' + ('; '.join(
                                  m for m, okk in (('falls below k*g for some fold (overlaps a block, the last items are never tested)', low),
                                                   ('exceeds n-1 for some fold', up), ('is the same item for every fold', inj)) if not okk)),
                              '', where(prog, f, g))


def _lin_nai(e, nsrc, aname, iname, gname=None, kname=None):
    """linear form (c_n, c_a, c_i, c_0, c_kg) of e over n = len(X), a = remainder, i = fold index, k*g"""
    if isinstance(e, ast.Constant) and isinstance(e.value, int):
        return (0, 0, 0, e.value, 0)
    if isinstance(e, ast.Call) and _leaf(e.func) == 'len' and norm(e) == nsrc:
        return (1, 0, 0, 0, 0)
    if isinstance(e, ast.Call) and _leaf(e.func) == 'int' and e.args:
        return _lin_nai(e.args[0], nsrc, aname, iname, gname, kname)
    if isinstance(e, ast.Name):
        if e.id == aname:
            return (0, 1, 0, 0, 0)
        if e.id == iname:
            return (0, 0, 1, 0, 0)
        return None
    if isinstance(e, ast.BinOp) and isinstance(e.op, ast.Mult) and gname and kname \
            and {norm(e.left), norm(e.right)} == {gname, kname}:
        return (0, 0, 0, 0, 1)
    if isinstance(e, ast.UnaryOp) and isinstance(e.op, ast.USub):
        t = _lin_nai(e.operand, nsrc, aname, iname, gname, kname)
        return None if t is None else tuple(-x for x in t)
    if isinstance(e, ast.BinOp) and isinstance(e.op, (ast.Add, ast.Sub)):
        l, r = _lin_nai(e.left, nsrc, aname, iname, gname, kname), _lin_nai(e.right, nsrc, aname, iname, gname, kname)
        if l is None or r is None:
            return None
        sg = 1 if isinstance(e.op, ast.Add) else -1
        return tuple(a + sg * b for a, b in zip(l, r))
    return None


# ------------------------------------------------------------------------------------------- LOO boundary
def _lin_len(e):
    """(a, b) with e = a * L + b where L is the one len(...) term of e; None if not of that form"""
    if isinstance(e, ast.Constant) and isinstance(e.value, int) and not isinstance(e.value, bool):
        return (0, e.value)
    if isinstance(e, ast.Call) and _leaf(e.func) == 'len':
        return (1, 0)
    if isinstance(e, ast.Attribute) and e.attr in ('size',):
        return (1, 0)
    if isinstance(e, ast.BinOp) and isinstance(e.op, (ast.Add, ast.Sub)):
        l, r = _lin_len(e.left), _lin_len(e.right)
        if l is None or r is None:
            return None
        sg = 1 if isinstance(e.op, ast.Add) else -1
        return (l[0] + sg * r[0], l[1] + sg * r[1])
    return None


def min_count(test: ast.expr):
    """smallest L (number of groups) for which a comparison `f(L) OP g(L)` (linear, increasing in L) holds; None if not decidable"""
    if not (isinstance(test, ast.Compare) and len(test.ops) == 1):
        return None
    l, r = _lin_len(test.left), _lin_len(test.comparators[0])
    if l is None or r is None:
        return None
    a, b = l[0] - r[0], l[1] - r[1]          # a*L + b OP 0
    op = test.ops[0]
    if isinstance(op, (ast.Lt, ast.LtE)):
        a, b = -a, -b
        op = ast.Gt() if isinstance(op, ast.Lt) else ast.GtE()
    if a <= 0 or not isinstance(op, (ast.Gt, ast.GtE)):
        return None
    import math
    # a*L + b > 0  ->  L > -b/a ;  >= : L >= -b/a
    x = -b / a
    return math.floor(x) + 1 if isinstance(op, ast.Gt) else math.ceil(x)


def loo_boundary(ctx, obs, q, rule='BOUND'):
    """leave-one-out needs two groups: with exactly two, each is predicted from the other.  The fallback "only one group" arm (train =
    test = everything) must therefore be taken for one group only - a guard that also sends two groups there makes the lower noise
    ceiling an in-sample value."""
    prog = ctx.prog
    f = prog.func(q)
    r = ctx.dep.result(q)
    from ..rules.common import Inliner
    inl = Inliner(r, None, tuple(f.params), stop=tuple(d.var for d in r.defs.values()
                                                     if d.kind == 'assign' and isinstance(d.rhs, ast.Call) and _leaf(d.rhs.func) in ('unique', 'add_pattern_index')))
    guards = [g for g in f.node.body if isinstance(g, ast.If) and g.orelse and any(isinstance(n, ast.For) for n in g.body)]
    if not guards:
        obs.unk(rule, q, 'leave-one-out is used from two groups on', 'guard between the loop and the single-group fallback not found',
                where(prog, f, f.node))
        return
    g = guards[0]
    n0 = min_count(inl.inline(g.test))
    con = 'leave-one-out is used from two groups on (the single-group fallback only for one group)'
    if n0 is None:
        obs.unk(rule, q, con, f'`{norm(g.test)}` is not a linear comparison of the number of groups', where(prog, f, g))
    else:
        obs.check(n0 == 2, rule, q, con, f'`{norm(g.test)}` first holds for {n0} groups: with two groups the fallback makes training, test '
                  f'and ceiling sets all equal to the full data', '', where(prog, f, g))
