"""Thorough tier: (1) the generic rules (DEAD, ACC, SQUEEZE, DESC, SORT-stable) swept over every function of the files the
property is anchored in - hits that do not map to a stated clause are NOTES, never violations; (2) the self-test
catalogue of the property (fire / silent variants of the current tree) - its tally goes into the evidence; a self-test
miss is a weakness of the checker, not a violation of the property, so it never changes the exit code."""
from __future__ import annotations
import ast
import json
import os
from typing import Dict

from .report import Obligations, VERIF, NOTE, VIOLATED, DISCHARGED
from .rules.common import dead_stores, where
from .rules.containers import no_axisless_squeeze, desc_normalised, stable_sorts


def anchor_files(prop: str):
    with open(os.path.join(VERIF, 'properties.jsonl')) as fh:
        for line in fh:
            p = json.loads(line)
            if p['id'] == prop:
                return p['anchors']['files']
    return []


def sweep(ctx, obs: Obligations, prop: str) -> Dict[str, object]:
    prog = ctx.prog
    files = {os.path.join(prog.root, f) for f in anchor_files(prop)}
    funcs = [q for q, fi in sorted(prog.functions.items()) if fi.file in files and q in ctx.dep.summaries
             and not q.startswith(('vis.', 'test.'))]
    scratch = Obligations(prop)
    n_dead = n_acc = 0
    for q in funcs:
        try:
            dead_stores(ctx, scratch, q)
            no_axisless_squeeze(ctx, scratch, q)
            desc_normalised(ctx, scratch, q)
            fi = prog.functions[q]
            if fi.name == 'sort_by':
                stable_sorts(ctx, scratch, q)
            r = ctx.dep.result(q)
            for var, did, use in r.uses_after_loop:
                n_acc += 1
                scratch.bad('ACC', q, f'loop result `{var}` accumulates every iteration',
                            f'`{var}` carries only the last iteration when read at line {use.lineno}', where(prog, fi, use))
        except Exception as e:   # the sweep is best-effort; the decided obligations are not affected
            scratch.note('SWEEP', q, 'generic sweep', f'skipped: {type(e).__name__}: {e}')
    decided_keys = {(o.rule, o.func, o.construct) for o in obs.items}
    hits = 0
    for o in scratch.items:
        if o.verdict == VIOLATED and (o.rule, o.func, o.construct) not in decided_keys:
            hits += 1
            obs.note('SWEEP/' + o.rule, o.func, o.construct, 'generic-rule hit outside the decided clauses (triage: informational) - '
                     + o.detail[:200], o.where)
    return {'sweep': {'functions_swept': len(funcs), 'rule_instances': len(scratch.items),
                      'hits_reported_as_notes': hits,
                      'rules': ['DEAD', 'ACC', 'SQUEEZE', 'DESC', 'SORT-stable']}}


def selftest_summary(prop: str, root: str, seed: int) -> Dict[str, object]:
    from .selftest import run_selftest
    try:
        r = run_selftest(prop, root, jobs=16)
    except Exception as e:
        return {'selftest': {'error': f'{type(e).__name__}: {e}'}}
    bad = [x for x in r['results'] if x['status'] not in ('ok', 'stale')]
    for x in bad:
        print(f'SELFTEST-NOTE property={prop} variant={x["id"]} expect={x["expect"]} status={x["status"]}: {x["detail"][:160]}')
    return {'selftest': {'variants': r['variants'], 'tally': r['tally'], 'wall_s': r['wall_s'],
                         'not_ok': [{'id': x['id'], 'status': x['status']} for x in bad],
                         'explanation': 'single-edit variants of the current tree: `fire` variants break one decided clause and '
                                        'must be reported, `silent` variants are behaviour-preserving rewrites and must not be'}}
