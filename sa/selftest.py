"""Self-test of the checkers, both ways (thorough tier and development):

  fire   - a single-edit variant of the current tree that breaks a decided clause: the property's check must exit 1
           (and, when `rule` is given, a violation of that rule must be among the reports)
  silent - a behaviour-preserving rewrite: the check must stay at exit 0

Variants are textual edits (old -> new, exactly one occurrence) of files under src/rsatoolbox, kept in
sa/variants/cNN.py.  They are materialised under a scratch directory outside /repo and /verif, analysed statically
with --root, and removed immediately.  A variant whose `old` text is no longer present is reported as `stale`
(the tree moved on); it neither passes nor fails.
"""
from __future__ import annotations
import importlib
import os
import shutil
import sys
import tempfile
import time
from concurrent.futures import ProcessPoolExecutor
from typing import Dict, List

from .report import VIOLATED, load_known


def load_variants(prop: str) -> List[dict]:
    try:
        m = importlib.import_module('sa.variants.' + prop.lower())
    except ModuleNotFoundError:
        return []
    out = []
    for i, v in enumerate(m.VARIANTS):
        v = dict(v)
        v.setdefault('id', f'{prop}-{i:02d}')
        v.setdefault('expect', 'fire')
        v['prop'] = prop
        out.append(v)
    out += load_seeded(prop)
    return out


def load_seeded(prop: str) -> List[dict]:
    """changes made by independent sub-agents (seeded/<id>/patch.diff); seeded/EXPECTED.json says which of them the property's
    own check is expected to catch (`fire`, with the rule) and which are recorded misses (`miss`: reported, never a failure)"""
    import json
    base = os.path.join(os.path.dirname(os.path.dirname(os.path.abspath(__file__))), 'seeded')
    exp_p = os.path.join(base, 'EXPECTED.json')
    if not os.path.exists(exp_p):
        return []
    with open(exp_p) as fh:
        exp = json.load(fh)
    out = []
    for sid, e in sorted(exp.items()):
        # a behaviour-preserving refactoring (`silent`) is also replayed against the other checks that fired on it at first
        # contact (`also`): those are the false alarms that were fixed and must stay fixed
        if e.get('check', sid.split('-')[0]) != prop and prop not in e.get('also', ()):
            continue
        out.append(dict(id='seeded-' + sid, prop=prop, patch=os.path.join(base, sid, 'patch.diff'), expect=e['expect'], rule=e.get('rule')))
    return out


def _run_one(args):
    v, root, scratch_base = args
    from .check import run_property
    from .model import AnalysisError
    vid = v['id']
    edits = v.get('edits') or ([(v['file'], v['old'], v['new'])] if 'file' in v else [])
    d = tempfile.mkdtemp(prefix='var-', dir=scratch_base)
    try:
        dst = os.path.join(d, 'src', 'rsatoolbox')
        shutil.copytree(os.path.join(root, 'src', 'rsatoolbox'), dst,
                        ignore=shutil.ignore_patterns('__pycache__', '*.so', '*.pyc'))
        for file, old, new in edits:
            p = os.path.join(d, file)
            with open(p) as fh:
                s = fh.read()
            if s.count(old) != 1:
                return vid, 'stale', f'{file}: `old` occurs {s.count(old)} times'
            with open(p, 'w') as fh:
                fh.write(s.replace(old, new))
            if file.endswith('.py'):
                try:
                    compile(s.replace(old, new), p, 'exec')
                except SyntaxError as e:
                    return vid, 'broken-variant', f'variant does not compile: {e}'
        if v.get('patch'):
            import subprocess
            pr = subprocess.run(['git', 'apply', '--include=src/rsatoolbox/*', v['patch']], cwd=d, capture_output=True, text=True)
            if pr.returncode != 0:
                return vid, 'stale', 'patch does not apply: ' + pr.stderr.strip()[:200]
        evd = os.path.join(d, 'evidence')
        try:
            obs, known_hits, new_viol, wall = run_property(v['prop'], d, 'quick', 0, evidence_dir=evd)
        except AnalysisError as e:
            return vid, 'analysis-error', str(e)
        fired = bool(new_viol)
        rules = sorted({o.rule for o in new_viol})
        if v['expect'] == 'miss':
            return vid, 'ok', ('recorded miss now caught: ' + str(rules)) if fired else 'recorded miss (outside what this check decides)'
        if v['expect'] == 'fire':
            if not fired:
                return vid, 'MISSED', 'no violation reported'
            if v.get('rule') and not any(r.startswith(v['rule']) for r in rules):
                return vid, 'MISSED', f'violations {rules} but none of rule {v["rule"]}'
            return vid, 'ok', f'fired: {rules}'
        if fired:
            return vid, 'FALSE-ALARM', '; '.join(o.line() for o in new_viol[:3])
        return vid, 'ok', 'silent'
    except Exception as e:  # pragma: no cover
        import traceback
        return vid, 'error', traceback.format_exc()[-600:]
    finally:
        shutil.rmtree(d, ignore_errors=True)


def run_selftest(prop: str, root: str, jobs: int = 16, only=None) -> Dict[str, object]:
    variants = load_variants(prop)
    if only:
        variants = [v for v in variants if v['id'] in only]
    base = tempfile.mkdtemp(prefix='verif-scratch-%d-' % os.getpid())
    t0 = time.time()
    try:
        with ProcessPoolExecutor(max_workers=min(jobs, max(1, len(variants)))) as ex:
            results = list(ex.map(_run_one, [(v, root, base) for v in variants]))
    finally:
        shutil.rmtree(base, ignore_errors=True)
    tally: Dict[str, int] = {}
    for _, st, _ in results:
        tally[st] = tally.get(st, 0) + 1
    return {'variants': len(variants), 'tally': tally, 'wall_s': round(time.time() - t0, 1),
            'results': [{'id': i, 'status': s, 'detail': d[:300], 'expect': v['expect']}
                        for (i, s, d), v in zip(results, variants)]}


def main(argv=None):
    import argparse
    ap = argparse.ArgumentParser()
    ap.add_argument('props', nargs='*')
    ap.add_argument('--root', default='/repo')
    ap.add_argument('--only', nargs='*')
    a = ap.parse_args(argv)
    props = [p.upper() for p in a.props] or ['C%02d' % i for i in range(1, 21)]
    bad = 0
    for p in props:
        r = run_selftest(p, a.root, only=a.only)
        if not r['variants']:
            continue
        print(f'{p}: {r["variants"]} variants {r["tally"]} [{r["wall_s"]}s]')
        for x in r['results']:
            if x['status'] != 'ok':
                print(f'   {x["id"]:28s} expect={x["expect"]:6s} -> {x["status"]}: {x["detail"][:200]}')
                if x['status'] in ('MISSED', 'FALSE-ALARM', 'error', 'analysis-error', 'broken-variant'):
                    bad += 1
    return 1 if bad else 0


if __name__ == '__main__':
    sys.exit(main())
