"""E0 - program model: modules, imports, functions, classes, callee resolution."""
from __future__ import annotations
import ast
import builtins
import hashlib
import os
from dataclasses import dataclass, field
from typing import Dict, List, Optional, Set, Tuple

PKG = 'rsatoolbox'


class AnalysisError(Exception):
    """Anything that prevents a sound verdict (-> exit 2, never exit 0/1)."""


@dataclass
class FuncInfo:
    qname: str            # e.g. rdm.calc.calc_rdm or rdm.rdms.RDMs.subset
    module: str           # e.g. rdm.calc
    name: str
    node: ast.FunctionDef
    cls: Optional[str] = None      # qualified class name or None
    parent: Optional[str] = None   # enclosing function qname for nested defs
    file: str = ''

    @property
    def params(self) -> List[str]:
        a = self.node.args
        out = [x.arg for x in a.posonlyargs + a.args]
        if a.vararg:
            out.append(a.vararg.arg)
        out += [x.arg for x in a.kwonlyargs]
        if a.kwarg:
            out.append(a.kwarg.arg)
        return out

    @property
    def pos_params(self) -> List[str]:
        a = self.node.args
        return [x.arg for x in a.posonlyargs + a.args]

    @property
    def kwonly(self) -> List[str]:
        return [x.arg for x in self.node.args.kwonlyargs]

    @property
    def vararg(self) -> Optional[str]:
        return self.node.args.vararg.arg if self.node.args.vararg else None

    @property
    def kwarg(self) -> Optional[str]:
        return self.node.args.kwarg.arg if self.node.args.kwarg else None

    @property
    def n_required(self) -> int:
        a = self.node.args
        return len(a.posonlyargs) + len(a.args) - len(a.defaults)

    def default_of(self, pname: str) -> Optional[ast.expr]:
        a = self.node.args
        pos = a.posonlyargs + a.args
        nd = len(a.defaults)
        for i, p in enumerate(pos):
            if p.arg == pname:
                j = i - (len(pos) - nd)
                return a.defaults[j] if j >= 0 else None
        for p, d in zip(a.kwonlyargs, a.kw_defaults):
            if p.arg == pname:
                return d
        return None

    @property
    def is_method(self) -> bool:
        return self.cls is not None and not self.is_static

    @property
    def is_static(self) -> bool:
        for d in self.node.decorator_list:
            if isinstance(d, ast.Name) and d.id == 'staticmethod':
                return True
        return False

    @property
    def is_classmethod(self) -> bool:
        for d in self.node.decorator_list:
            if isinstance(d, ast.Name) and d.id == 'classmethod':
                return True
        return False

    @property
    def is_property(self) -> bool:
        for d in self.node.decorator_list:
            if isinstance(d, ast.Name) and d.id == 'property':
                return True
        return False


@dataclass
class ClassInfo:
    qname: str
    module: str
    name: str
    node: ast.ClassDef
    bases: List[str] = field(default_factory=list)   # resolved qnames (repo) or 'ext:...'
    methods: Dict[str, str] = field(default_factory=dict)  # name -> func qname


@dataclass
class ModuleInfo:
    name: str        # rdm.calc ('' for package root __init__)
    file: str
    tree: ast.Module
    is_pkg: bool
    src: str
    imports: Dict[str, str] = field(default_factory=dict)  # local name -> dotted target
    defs: Dict[str, str] = field(default_factory=dict)      # local name -> 'func:qname' | 'class:qname'
    globals_assigned: Set[str] = field(default_factory=set)


def _abs_module(cur: str, is_pkg: bool, level: int, mod: Optional[str]) -> str:
    """Resolve a (possibly relative) import to a dotted path starting with PKG or external."""
    if level == 0:
        return mod or ''
    parts = [PKG] + (cur.split('.') if cur else [])
    if not is_pkg:
        parts = parts[:-1]
    if level > 1:
        parts = parts[:len(parts) - (level - 1)]
    if mod:
        parts += mod.split('.')
    return '.'.join(parts)


class _FuncTable(dict):
    """qualified name -> FuncInfo; a pinned name whose function was relocated (Program.relocated) still finds it.  Iteration
    yields each function once, under the name it is defined at."""
    prog = None

    def __missing__(self, q):
        r = self.prog.relocated(q) if self.prog is not None else None
        if r is None:
            raise KeyError(q)
        return dict.__getitem__(self, r)

    def __contains__(self, q):
        return dict.__contains__(self, q) or (self.prog is not None and self.prog.relocated(q) is not None)

    def get(self, q, default=None):
        try:
            return self[q]
        except KeyError:
            return default


class Program:
    """Whole-package model.  root = repository root (contains src/rsatoolbox)."""

    def __init__(self, root: str):
        self.root = os.path.abspath(root)
        self.src_root = os.path.join(self.root, 'src', PKG)
        if not os.path.isdir(self.src_root):
            raise AnalysisError(f'package source not found under {self.src_root}')
        self.modules: Dict[str, ModuleInfo] = {}
        self.functions: Dict[str, FuncInfo] = _FuncTable()
        self.classes: Dict[str, ClassInfo] = {}
        self.methods_by_name: Dict[str, List[str]] = {}
        self.digest = ''
        self._reloc: Dict[str, Optional[str]] = {}
        self._reloc_all = False
        self.moved_from: Dict[str, str] = {}
        self.rekeyed: Dict[str, str] = {}
        self._load()
        from .inline import inline_across_modules, inline_new_helpers, adopt_new_definitions
        self.inlined_calls = adopt_new_definitions(self.modules, _abs_module, PKG)
        for rel, mi in self.modules.items():
            self.inlined_calls += inline_new_helpers(mi.tree, rel)
        self.inlined_calls += inline_across_modules(self.modules, _abs_module, PKG)
        self._index()
        self.functions.prog = self
        self._rekey_relocated()

    # ------------------------------------------------------------------ load
    def _load(self):
        h = hashlib.sha256()
        files = []
        for dp, dn, fn in os.walk(self.src_root):
            dn.sort()
            for f in sorted(fn):
                if f.endswith('.py') or f.endswith('.pyx'):
                    files.append(os.path.join(dp, f))
        self.pyx_files = [f for f in files if f.endswith('.pyx')]
        for f in files:
            with open(f, 'rb') as fh:
                data = fh.read()
            h.update(os.path.relpath(f, self.src_root).encode())
            h.update(data)
            if f.endswith('.pyx'):
                continue
            rel = os.path.relpath(f, self.src_root)[:-3].replace(os.sep, '.')
            is_pkg = rel.endswith('__init__')
            if is_pkg:
                rel = rel[:-len('__init__')].rstrip('.')
            try:
                tree = ast.parse(data.decode('utf-8'), filename=f)
            except SyntaxError as e:
                raise AnalysisError(f'cannot parse {f}: {e}')
            self.modules[rel] = ModuleInfo(rel, f, tree, is_pkg, data.decode('utf-8'))
        self.digest = h.hexdigest()

    def relfile(self, f: str) -> str:
        return os.path.relpath(f, self.root)

    # ----------------------------------------------------------------- index
    def _index(self):
        for m in self.modules.values():
            self._index_module(m)
        for c in self.classes.values():
            self._resolve_bases(c)
        for f in self.functions.values():
            if f.cls and f.parent is None:
                self.methods_by_name.setdefault(f.name, []).append(f.qname)

    def _collect_imports(self, m: ModuleInfo, body, table: Dict[str, str]):
        for n in body:
            if isinstance(n, ast.Import):
                for a in n.names:
                    if a.asname:
                        table[a.asname] = a.name
                    else:
                        table[a.name.split('.')[0]] = a.name.split('.')[0]
            elif isinstance(n, ast.ImportFrom):
                base = _abs_module(m.name, m.is_pkg, n.level, n.module)
                for a in n.names:
                    table[a.asname or a.name] = base + '.' + a.name
            elif isinstance(n, (ast.If, ast.Try)):
                for sub in ('body', 'orelse', 'finalbody'):
                    self._collect_imports(m, getattr(n, sub, []), table)
                for hnd in getattr(n, 'handlers', []):
                    self._collect_imports(m, hnd.body, table)

    def _index_module(self, m: ModuleInfo):
        self._collect_imports(m, m.tree.body, m.imports)

        def add_func(node, cls, parent, prefix):
            q = (m.name + '.' if m.name else '') + prefix + node.name
            fi = FuncInfo(q, m.name, node.name, node, cls, parent, m.file)
            self.functions[q] = fi
            for sub in ast.walk(node):
                pass
            # nested defs
            for sub in _direct_nested_defs(node):
                add_func(sub, None, q, prefix + node.name + '.<locals>.')
            return q

        for n in m.tree.body:
            if isinstance(n, (ast.FunctionDef, ast.AsyncFunctionDef)):
                q = add_func(n, None, None, '')
                m.defs[n.name] = 'func:' + q
            elif isinstance(n, ast.ClassDef):
                cq = (m.name + '.' if m.name else '') + n.name
                ci = ClassInfo(cq, m.name, n.name, n)
                self.classes[cq] = ci
                m.defs[n.name] = 'class:' + cq
                for b in n.body:
                    if isinstance(b, (ast.FunctionDef, ast.AsyncFunctionDef)):
                        q = add_func(b, cq, None, n.name + '.')
                        ci.methods[b.name] = q
            elif isinstance(n, (ast.Assign, ast.AnnAssign, ast.AugAssign)):
                tg = n.targets if isinstance(n, ast.Assign) else [n.target]
                for t in tg:
                    for nm in ast.walk(t):
                        if isinstance(nm, ast.Name):
                            m.globals_assigned.add(nm.id)

    def _resolve_bases(self, c: ClassInfo):
        m = self.modules[c.module]
        for b in c.node.bases:
            r = self.resolve_expr_static(m, b, None)
            if r and r.startswith('class:'):
                c.bases.append(r[6:])
            else:
                c.bases.append('ext:' + ast.unparse(b))

    # ------------------------------------------------------------ resolution
    def resolve_dotted(self, dotted: str, _depth=0) -> Optional[str]:
        """dotted path (rsatoolbox.rdm.concat) -> 'func:q' | 'class:q' | 'module:name' | 'ext:...' """
        if _depth > 8:
            return None
        parts = dotted.split('.')
        if parts[0] != PKG:
            return 'ext:' + dotted
        rest = parts[1:]
        # longest module prefix
        for k in range(len(rest), -1, -1):
            mn = '.'.join(rest[:k])
            if mn in self.modules:
                m = self.modules[mn]
                tail = rest[k:]
                if not tail:
                    # `from pkg import name` where pkg/__init__ rebinds `name` (from .name import name) yields the
                    # rebinding, not the submodule
                    if k >= 1:
                        parent = '.'.join(rest[:k - 1])
                        pm = self.modules.get(parent)
                        if pm is not None and pm.is_pkg and rest[k - 1] in pm.imports:
                            tgt = pm.imports[rest[k - 1]]
                            if tgt != dotted:
                                r = self.resolve_dotted(tgt, _depth + 1)
                                if r and (r.startswith('func:') or r.startswith('class:')):
                                    return r
                    return 'module:' + mn
                head = tail[0]
                if head in m.defs:
                    tgt = m.defs[head]
                    if len(tail) == 1:
                        return tgt
                    if tgt.startswith('class:') and len(tail) == 2:
                        meth = self.lookup_method(tgt[6:], tail[1])
                        return 'func:' + meth if meth else None
                    return None
                if head in m.imports:
                    return self.resolve_dotted('.'.join([m.imports[head]] + tail[1:]), _depth + 1)
                return None
        return None

    def func_imports(self, f: FuncInfo) -> Dict[str, str]:
        """imports made inside the function body (and its enclosing functions)."""
        table: Dict[str, str] = {}
        m = self.modules[f.module]
        chain = []
        cur = f
        while cur is not None:
            chain.append(cur)
            cur = self.functions.get(cur.parent) if cur.parent else None
        for fi in reversed(chain):
            for n in ast.walk(fi.node):
                if isinstance(n, (ast.Import, ast.ImportFrom)):
                    self._collect_imports(m, [n], table)
        return table

    def resolve_expr_static(self, m: ModuleInfo, e: ast.expr, f: Optional[FuncInfo]) -> Optional[str]:
        """Resolve a Name / dotted Attribute chain to a repo symbol or 'ext:'. None if not static."""
        chain = []
        cur = e
        while isinstance(cur, ast.Attribute):
            chain.append(cur.attr)
            cur = cur.value
        if not isinstance(cur, ast.Name):
            return None
        chain.append(cur.id)
        chain.reverse()
        head = chain[0]
        target = None
        if f is not None:
            fimp = self._fimp_cache(f)
            if head in fimp:
                target = fimp[head]
            else:
                # nested function defined locally
                for q, fi in self.functions.items():
                    if fi.parent and fi.name == head and _is_ancestor_or_self(self, fi.parent, f.qname):
                        if len(chain) == 1:
                            return 'func:' + q
        if target is None:
            if head in m.defs:
                if len(chain) == 1:
                    return m.defs[head]
                tgt = m.defs[head]
                if tgt.startswith('class:') and len(chain) == 2:
                    meth = self.lookup_method(tgt[6:], chain[1])
                    return 'func:' + meth if meth else None
                return None
            if head in m.imports:
                target = m.imports[head]
        if target is None:
            return None
        return self.resolve_dotted('.'.join([target] + chain[1:]))

    _fimp = None

    def _fimp_cache(self, f: FuncInfo):
        if self._fimp is None:
            self._fimp = {}
        if f.qname not in self._fimp:
            self._fimp[f.qname] = self.func_imports(f)
        return self._fimp[f.qname]

    # ------------------------------------------------------------- classes
    def mro(self, cq: str) -> List[str]:
        out, seen, stack = [], set(), [cq]
        while stack:
            c = stack.pop(0)
            if c in seen or c not in self.classes:
                continue
            seen.add(c)
            out.append(c)
            stack += [b for b in self.classes[c].bases if not b.startswith('ext:')]
        return out

    def subclasses(self, cq: str) -> List[str]:
        return [c for c in self.classes if c != cq and cq in self.mro(c)]

    def lookup_method(self, cq: str, name: str) -> Optional[str]:
        for c in self.mro(cq):
            if name in self.classes[c].methods:
                return self.classes[c].methods[name]
        return None

    def method_candidates(self, cq: str, name: str) -> List[str]:
        """may-set for self.m(): the inherited definition + every override in subclasses."""
        out = []
        m = self.lookup_method(cq, name)
        if m:
            out.append(m)
        for s in self.subclasses(cq):
            if name in self.classes[s].methods and self.classes[s].methods[name] not in out:
                out.append(self.classes[s].methods[name])
        return out

    # --------------------------------------------------------------- helpers
    def relocated(self, q: str) -> Optional[str]:
        """a qualified name that no longer has a definition of its own but is still BOUND to a function of the package: a
        module-level name that the module now imports from another module (`from ._impl import f`: `mod.f` is still `f`), or a
        method that the class now inherits (moved to a mixin / base class).  Returns that function's qualified name."""
        if dict.__contains__(self.functions, q):
            return q
        if q in self._reloc:
            return self._reloc[q]
        out = None
        parts = q.split('.')
        for k in range(len(parts) - 1, 0, -1):
            mn = '.'.join(parts[:k])
            if mn not in self.modules:
                continue
            tail = parts[k:]
            m = self.modules[mn]
            if len(tail) == 1:
                if tail[0] in m.imports and tail[0] not in m.defs:
                    r = self.resolve_dotted(m.imports[tail[0]])
                    if r and r.startswith('func:'):
                        out = r[5:]
            elif len(tail) == 2:
                r = m.defs.get(tail[0])
                if r is None and tail[0] in m.imports:
                    r = self.resolve_dotted(m.imports[tail[0]])
                if r and r.startswith('class:'):
                    out = self.lookup_method(r[6:], tail[1])
            break
        self._reloc[q] = out
        if out is not None:
            self.moved_from.setdefault(out, q)
        return out

    def _rekey_relocated(self):
        """A pinned function that was relocated one-to-one (its module imports it back from a new module; its class inherits it from
        a new mixin that only this class uses) is registered under its PINNED name: call resolution, summaries, anchors and the
        exemption tables then see the function they always saw.  Its body is still resolved in the module that holds it."""
        self.canonical('')
        inv: Dict[str, List[str]] = {}
        for old, new in self._reloc.items():
            if new:
                inv.setdefault(new, []).append(old)
        for new, olds in inv.items():
            if len(olds) != 1:
                continue
            old = olds[0]
            fi0 = dict.get(self.functions, new)
            if fi0 is None:
                continue
            for q in [k for k in dict.keys(self.functions) if k == new or k.startswith(new + '.<locals>.')]:
                fi = dict.pop(self.functions, q)
                fi.qname = old + q[len(new):]
                if fi.parent and (fi.parent == new or fi.parent.startswith(new + '.<locals>.')):
                    fi.parent = old + fi.parent[len(new):]
                dict.__setitem__(self.functions, fi.qname, fi)
            for m in self.modules.values():
                for k, v in m.defs.items():
                    if v == 'func:' + new:
                        m.defs[k] = 'func:' + old
            for c in self.classes.values():
                for k, v in c.methods.items():
                    if v == new:
                        c.methods[k] = old
            for lst in self.methods_by_name.values():
                for i, v in enumerate(lst):
                    if v == new:
                        lst[i] = old
            if fi0.cls:
                ocls = old.rsplit('.', 1)[0]
                if ocls in self.classes:
                    fi0.cls = ocls
            self.rekeyed[old] = new
            del self._reloc[old]
            self.moved_from.pop(new, None)

    def canonical(self, q: str) -> str:
        """the pinned name of a relocated function (see relocated), q itself otherwise"""
        if not self._reloc_all:
            self._reloc_all = True
            from .inline import frozen_functions
            fz = frozen_functions()
            for mod, names in fz.items():
                if mod.startswith('<') or mod not in self.modules:
                    continue
                for nm in names:
                    if not dict.__contains__(self.functions, f'{mod}.{nm}'):
                        self.relocated(f'{mod}.{nm}')
            for mod, classes in fz.get('<methods>', {}).items():
                for cn, names in classes.items():
                    for nm in names:
                        if not dict.__contains__(self.functions, f'{mod}.{cn}.{nm}') and mod in self.modules:
                            self.relocated(f'{mod}.{cn}.{nm}')
        return self.moved_from.get(q, q)

    def pinned_names(self, q: str) -> Set[str]:
        """q and every pinned name that now resolves to q (see relocated)"""
        self.canonical(q)
        return {q} | {old for old, new in self._reloc.items() if new == q}

    def func(self, q: str) -> FuncInfo:
        r = self.relocated(q)
        if r is None:
            raise AnalysisError(f'anchor function {q} not found in the tree (renamed/removed?)')
        return self.functions[r]

    def has_func(self, q: str) -> bool:
        return self.relocated(q) is not None

    def module_of(self, f: FuncInfo) -> ModuleInfo:
        return self.modules[f.module]

    def loc(self, f: FuncInfo, node: ast.AST) -> str:
        return f'{self.relfile(f.file)}:{getattr(node, "lineno", f.node.lineno)}'


def _direct_nested_defs(fn):
    """FunctionDefs nested (at any statement depth) directly in fn, not inside a deeper def."""
    out = []

    def walk(body):
        for n in body:
            if isinstance(n, (ast.FunctionDef, ast.AsyncFunctionDef)):
                out.append(n)
                continue
            if isinstance(n, ast.ClassDef):
                continue
            for fld in ('body', 'orelse', 'finalbody'):
                sub = getattr(n, fld, None)
                if isinstance(sub, list):
                    walk(sub)
            for hnd in getattr(n, 'handlers', []) or []:
                walk(hnd.body)
    walk(fn.body)
    return out


def _is_ancestor_or_self(prog: Program, anc: str, q: str) -> bool:
    cur = q
    while cur:
        if cur == anc:
            return True
        fi = prog.functions.get(cur)
        cur = fi.parent if fi else None
    return False


# names that numpy arrays, builtin containers, pandas/h5py objects also have: an
# attribute call with one of these names on an unknown receiver is NOT resolved
# to a repo method (a probe resolving by name alone produced 60 bogus
# np.mean -> RDMs.mean edges).
def _generic_names() -> Set[str]:
    s: Set[str] = set()
    for t in (list, dict, str, set, tuple, bytes, int, float, object):
        s |= set(dir(t))
    # namedtuple / dataclass / generator API: a method of that name on an unknown receiver is not a method of the package
    s |= {'_replace', '_asdict', '_make', '_fields', '_field_defaults', 'send', 'throw', 'close', 'replace', 'fields', 'asdict', 'astuple'}
    s |= {
        # numpy.ndarray / numpy module API
        'mean', 'sum', 'std', 'var', 'min', 'max', 'argmin', 'argmax', 'argsort', 'sort', 'copy',
        'reshape', 'ravel', 'flatten', 'squeeze', 'transpose', 'astype', 'fill', 'all', 'any',
        'dot', 'cumsum', 'prod', 'round', 'clip', 'take', 'repeat', 'nonzero', 'tolist', 'item',
        'view', 'resize', 'swapaxes', 'diagonal', 'trace', 'conj', 'byteswap', 'dump', 'dumps',
        'tobytes', 'tofile', 'put', 'choose', 'compress', 'searchsorted', 'partition',
        # pandas / h5py / mne / matplotlib / misc
        'save', 'load', 'get_data', 'to_dict', 'to_df', 'from_df', 'close', 'write', 'read', 'get',
        'create_group', 'create_dataset', 'rename', 'drop', 'merge', 'join', 'apply', 'transform',
        'plot', 'show', 'fit', 'predict', 'fit_transform', 'set', 'add', 'update', 'values',
        'to_numpy', 'unique', 'append', 'insert', 'remove', 'pop', 'index', 'count', 'split',
        'format', 'keys', 'items', 'test', 'sample', 'match', 'search', 'group',
    }
    return s


GENERIC_NAMES = _generic_names()
BUILTINS = set(dir(builtins))
